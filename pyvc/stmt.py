"""Statement execution of the code executor.

`ex(stmts, st)` yields (state, outcome) where outcome is one of
    ('next',) ('return', value) ('raise', ExcV) ('break',) ('continue',)
"""
import ast

import z3

from .vals import (V, IntV, BoolV, NoneV, NONE, ConstV, TupV, SeqV, ListV, PyListV, RefV, UnionV, OpaqueV,
                   FuncV, ExcV, Unsupported, IntSeq, USort, is_exc)
from .pure import (truthy, to_int, is_intlike, lift, const_of, fresh, mk_union, equal, SetV, SetSort)

NEXT = ('next',)
BREAK = ('break',)
CONTINUE = ('continue',)

EXC_LATTICE = {
    'BaseException': None, 'Exception': 'BaseException', 'GeneratorExit': 'BaseException',
    'AssertionError': 'Exception', 'KeyError': 'LookupError', 'IndexError': 'LookupError',
    'LookupError': 'Exception', 'ValueError': 'Exception', 'TypeError': 'Exception',
    'AttributeError': 'Exception', 'StopIteration': 'Exception', 'ZeroDivisionError': 'ArithmeticError',
    'ArithmeticError': 'Exception', 'struct.error': 'Exception', 'NonTerminal': 'Exception',
    'UnicodeEncodeError': 'ValueError', 'UnicodeDecodeError': 'ValueError', 'RuntimeError': 'Exception',
    'OverflowError': 'ArithmeticError', 'NotImplementedError': 'RuntimeError',
    'OSError': 'Exception', 'BlockingIOError': 'OSError', 'ConnectionError': 'OSError', 'TimeoutError': 'OSError',
}
EXC_ALIAS = {'socket.error': 'OSError', 'IOError': 'OSError', 'EnvironmentError': 'OSError', 'socket.timeout': 'TimeoutError'}


def exc_isa(cls, parent):
    while cls is not None:
        if cls == parent:
            return True
        if cls not in EXC_LATTICE:
            raise Unsupported('exception class %s is not in the lattice' % cls)
        cls = EXC_LATTICE[cls]
    return False


def is_logging_call(n):
    """D1: calls on a module logger"""
    if isinstance(n, ast.Call) and isinstance(n.func, ast.Attribute) and isinstance(n.func.value, ast.Name) \
            and n.func.value.id in ('log', 'logging'):
        return True
    return False


def is_logging_stmt(s):
    if isinstance(s, ast.Expr) and is_logging_call(s.value):
        return True
    if isinstance(s, ast.Expr) and isinstance(s.value, ast.BoolOp) and isinstance(s.value.op, ast.And) and all(is_logging_call(v) for v in s.value.values):
        return True          # `log.isEnabledFor( LEVEL ) and log.info( ... )` as a statement: the value is discarded, both operands are logger calls
    if isinstance(s, ast.If) and not s.orelse and isinstance(s.test, ast.Call) and \
            isinstance(s.test.func, ast.Attribute) and s.test.func.attr == 'isEnabledFor' and \
            isinstance(s.test.func.value, ast.Name) and s.test.func.value.id in ('log', 'logging'):
        return all(is_logging_stmt(b) for b in s.body)
    return False


def assigned_names(stmts):
    """names (syntactically) assigned in a list of statements, nested blocks included"""
    out = set()
    for s in stmts:
        for n in ast.walk(s):
            if isinstance(n, (ast.Assign,)):
                for t in n.targets:
                    out |= target_names(t)
            elif isinstance(n, (ast.AugAssign, ast.AnnAssign)):
                out |= target_names(n.target)
            elif isinstance(n, (ast.For,)):
                out |= target_names(n.target)
            elif isinstance(n, ast.With):
                for it in n.items:
                    if it.optional_vars is not None:
                        out |= target_names(it.optional_vars)
            elif isinstance(n, ast.ExceptHandler) and n.name:
                out.add(n.name)
            elif isinstance(n, ast.NamedExpr):
                out |= target_names(n.target)
    return out


def target_names(t):
    if isinstance(t, ast.Name):
        return {t.id}
    if isinstance(t, (ast.Tuple, ast.List)):
        r = set()
        for e in t.elts:
            r |= target_names(e)
        return r
    return set()


def mutated_names(stmts):
    """local names whose referent list is mutated in place (x.append(..), x[i] = .., x.pop())"""
    out = set()
    for s in stmts:
        for n in ast.walk(s):
            if isinstance(n, ast.Call) and isinstance(n.func, ast.Attribute) and isinstance(n.func.value, ast.Name) \
                    and n.func.attr in ('append', 'pop', 'insert', 'extend', 'clear', 'remove', 'update', 'setdefault'):
                out.add(n.func.value.id)
            if isinstance(n, (ast.Assign, ast.AugAssign)):
                ts = n.targets if isinstance(n, ast.Assign) else [n.target]
                for t in ts:
                    if isinstance(t, ast.Subscript) and isinstance(t.value, ast.Name):
                        out.add(t.value.id)
    return out


def contains_yield(stmts):
    for s in stmts:
        for n in ast.walk(s):
            if isinstance(n, (ast.Yield, ast.YieldFrom)):
                return True
    return False


class GhostAssert(ast.stmt):
    """a ghost assertion inserted by a sidecar fragment selector (never part of the real code): its
    test is contract text over the current locals; it becomes an obligation `ghost[label]`"""
    _fields = ()

    def __init__(self, label, text, lineno=0):
        self.label, self.text, self.lineno = label, text, lineno
        self.col_offset = 0


class StmtMixin(object):

    def materialize(self, st, v):
        from .vals import RecProto
        if isinstance(v, RecProto):
            st = st.clone()
            rid = self.new_id()
            for k, pv in v.fields.items():
                st.heap[(rid, k)] = pv
            st.heap[(rid, '__closed__')] = True
            st.heap[(rid, '__keys__')] = tuple(v.fields.keys())
            return st, RefV(rid, 'rec')
        return st, v

    def ex_GhostAssert(self, s, st):
        val, facts = self.contract_bool(s.text, st)
        self.add_oblig('ghost[%s]' % s.label, 'ghost', st, val, facts, line=s.lineno)
        s2 = st.clone()
        s2.pc.extend(facts)
        s2.pc.append(val)
        yield s2, NEXT

    def ex(self, stmts, st):
        if not stmts:
            yield st, NEXT
            return
        s0 = stmts[0]
        for s1, out in self.ex1(s0, st):
            if out[0] == 'next':
                yield from self.ex(stmts[1:], s1)
            else:
                yield s1, out

    def ex1(self, s, st):
        self.nstmts += 1
        if self.nstmts > self.max_steps:
            raise Unsupported('path explosion: more than %d statement executions' % self.max_steps)
        if is_logging_stmt(s):
            self.dropped.add('D1 logging at line %d' % s.lineno)
            yield st, NEXT
            return
        m = getattr(self, 'ex_' + type(s).__name__, None)
        if m is None:
            raise Unsupported('statement %s at line %d' % (type(s).__name__, s.lineno))
        yield from m(s, st)

    def ex_Pass(self, s, st):
        yield st, NEXT

    def ex_Expr(self, s, st):
        if isinstance(s.value, ast.Constant):
            yield st, NEXT          # docstring (D3)
            return
        if isinstance(s.value, ast.Yield):
            yield from self.do_yield(s.value, st)
            return
        for s1, v in self.ev(s.value, st):
            if is_exc(v):
                yield s1, ('raise', v)
            else:
                yield s1, NEXT

    def ex_FunctionDef(self, s, st):
        """a local helper whose body is a single `return <expression>` (after an optional docstring) is the lambda of that expression;
        any other nested function is outside the subset"""
        body = [b for b in s.body if not (isinstance(b, ast.Expr) and isinstance(b.value, ast.Constant))]
        a = s.args
        if len(body) != 1 or not isinstance(body[0], ast.Return) or body[0].value is None or s.decorator_list \
                or a.vararg or a.kwarg or a.kwonlyargs or a.defaults or getattr(a, 'posonlyargs', None):
            raise Unsupported('statement FunctionDef at line %d' % s.lineno)
        lam = ast.Lambda(args=a, body=body[0].value)
        ast.copy_location(lam, s)
        st = st.clone()
        st.loc = dict(st.loc)
        env = dict(st.loc)
        f = FuncV(s.name, ('lambda', lam, env))
        env[s.name] = f                      # the helper may call itself
        st.loc[s.name] = f
        yield st, NEXT

    def ex_Return(self, s, st):
        if s.value is None:
            yield st, ('return', NONE)
            return
        for s1, v in self.ev(s.value, st):
            if is_exc(v):
                yield s1, ('raise', v)
            else:
                yield s1, ('return', v)

    def ex_Assert(self, s, st):
        if s.msg is not None:
            self.dropped.add('D2 assert message at line %d' % s.lineno)
        for s1, v in self.ev(s.test, st):
            if is_exc(v):
                yield s1, ('raise', v)
                continue
            for s2, t in self.truth(s1, v, label='assert@%d' % s.lineno):
                if t:
                    yield s2, NEXT
                else:
                    yield s2, ('raise', ExcV('AssertionError', 'assert at line %d' % s.lineno, s.lineno))

    def ex_Raise(self, s, st):
        if s.exc is None:
            cur = st.loc.get('__handling__')
            if cur is None:
                raise Unsupported('bare raise outside a handler at line %d' % s.lineno)
            yield st, ('raise', cur)
            return
        e = s.exc
        name = None
        if isinstance(e, ast.Call):
            self.dropped.add('D2 exception message at line %d' % s.lineno)
            e = e.func
        if isinstance(e, ast.Name):
            name = e.id
        elif isinstance(e, ast.Attribute):
            name = ast.unparse(e)
        if name is None or (name not in EXC_LATTICE):
            if name in st.loc and isinstance(st.loc[name], ExcV):
                yield st, ('raise', st.loc[name])
                return
            raise Unsupported('raise of %s at line %d' % (ast.unparse(s.exc), s.lineno))
        yield st, ('raise', ExcV(name, 'raise at line %d' % s.lineno, s.lineno))

    def ex_Break(self, s, st):
        yield st, BREAK

    def ex_Continue(self, s, st):
        yield st, CONTINUE

    def ex_If(self, s, st):
        for s1, v in self.ev(s.test, st):
            if is_exc(v):
                yield s1, ('raise', v)
                continue
            for s2, t in self.truth(s1, v, label='if@%d' % s.lineno):
                yield from self.ex(s.body if t else s.orelse, s2)

    def ex_With(self, s, st):
        # D4: `with lock:` / `with parser as machine:` are plain blocks
        self.dropped.add('D4 with-statement treated as a plain block at line %d' % s.lineno)
        cur = [st]
        for it in s.items:
            nxt = []
            for c in cur:
                for s1, v in self.ev(it.context_expr, c):
                    if is_exc(v):
                        yield s1, ('raise', v)
                        continue
                    if it.optional_vars is not None:
                        s1 = self.assign(it.optional_vars, v, s1, s.lineno)
                    nxt.append(s1)
            cur = nxt
        for c in cur:
            yield from self.ex(s.body, c)

    # ---------------------------------------------------------------- assignment
    def ex_Assign(self, s, st):
        for s1, v in self.ev(s.value, st):
            if is_exc(v):
                yield s1, ('raise', v)
                continue
            outs = [(s1, None)]
            for t in s.targets:
                nxt = []
                for c, _ in outs:
                    for c2, e in self.assign_g(t, v, c, s.lineno):
                        nxt.append((c2, e))
                outs = nxt
            for c, e in outs:
                if e is not None:
                    yield c, ('raise', e)
                else:
                    yield c, NEXT

    def ex_AnnAssign(self, s, st):
        if s.value is None:
            yield st, NEXT
            return
        for s1, v in self.ev(s.value, st):
            if is_exc(v):
                yield s1, ('raise', v)
                continue
            for c2, e in self.assign_g(s.target, v, s1, s.lineno):
                yield c2, (NEXT if e is None else ('raise', e))

    def ex_AugAssign(self, s, st):
        load = self.as_load(s.target)
        for s1, vs in self.evs([load, s.value], st):
            if is_exc(vs):
                yield s1, ('raise', vs)
                continue
            for s2, r in self.binop(s.op, vs[0], vs[1], s1, s):
                if is_exc(r):
                    yield s2, ('raise', r)
                    continue
                for c2, e in self.assign_g(s.target, r, s2, s.lineno):
                    yield c2, (NEXT if e is None else ('raise', e))

    def as_load(self, t):
        import copy
        t2 = copy.copy(t)
        t2.ctx = ast.Load()
        return t2

    def assign(self, target, v, st, line):
        outs = list(self.assign_g(target, v, st, line))
        if len(outs) != 1 or outs[0][1] is not None:
            raise Unsupported('complex assignment at line %s' % line)
        return outs[0][0]

    def assign_g(self, t, v, st, line):
        """yields (state, None | ExcV)"""
        if isinstance(t, ast.Name):
            s = st.clone()
            s.loc[t.id] = v
            yield s, None
            return
        if isinstance(t, (ast.Tuple, ast.List)):
            for s1, a in self.split(st, v):
                items = None
                a = self.deref_list(a, s1)
                if isinstance(a, (TupV, PyListV)):
                    items = a.items
                if items is None:
                    raise Unsupported('unpacking of %r at line %s' % (a, line))
                if len(items) != len(t.elts):
                    yield s1, ExcV('ValueError', 'unpack arity', line)
                    continue
                cur = [(s1, None)]
                for e, it in zip(t.elts, items):
                    nxt = []
                    for c, err in cur:
                        if err is not None:
                            nxt.append((c, err))
                            continue
                        nxt.extend(self.assign_g(e, it, c, line))
                    cur = nxt
                yield from cur
            return
        if isinstance(t, ast.Attribute):
            key = self.unparse(t)
            self.check_not_env(key, line)
            for s1, base in self.ev(t.value, st):
                if is_exc(base):
                    yield s1, base
                    continue
                for s2, b in self.split(s1, base):
                    if isinstance(b, RefV) and b.kind == 'rec':
                        yield self.rec_set(s2, b, t.attr, v, line), None
                    elif isinstance(b, RefV) and b.kind == 'obj':
                        yield from self.obj_set(s2, b, t.attr, v, line)
                    else:
                        raise Unsupported('attribute assignment on %r at line %s' % (b, line))
            return
        if isinstance(t, ast.Subscript):
            key = self.unparse(t)
            self.check_not_env(key, line)
            for s1, base in self.ev(t.value, st):
                if is_exc(base):
                    yield s1, base
                    continue
                if isinstance(t.slice, ast.Slice):
                    parts = [t.slice.lower, t.slice.upper]
                    if t.slice.step is not None:
                        raise Unsupported('slice step assignment')
                    present = [p for p in parts if p is not None]
                    for s2, vs in self.evs(present, s1):
                        if is_exc(vs):
                            yield s2, vs
                            continue
                        it = iter(vs)
                        lo, hi = [(next(it) if p is not None else None) for p in parts]
                        for s3, b in self.split(s2, base):
                            yield from self.set_slice(b, lo, hi, v, s3, line)
                else:
                    for s2, idx in self.ev(t.slice, s1):
                        if is_exc(idx):
                            yield s2, idx
                            continue
                        for s3, b in self.split(s2, base):
                            for s4, i in self.split(s3, idx):
                                yield from self.set_item(b, i, v, s4, line)
            return
        raise Unsupported('assignment target %s at line %s' % (type(t).__name__, line))

    def check_not_env(self, key, line):
        for k in self.env_keys:
            if k == key or k.startswith(key + '.') or k.startswith(key + '['):
                raise Unsupported('stale contract: env path %r is assigned at line %s' % (k, line))

    def obj_set(self, st, ref, attr, v, line):
        cls = ref.cls
        if cls is not None:
            c, m = cls.find_method(attr)
            if m is not None:
                # property with a setter: find the setter def
                for cc in cls.mro():
                    for sdef in cc.node.body:
                        if isinstance(sdef, ast.FunctionDef) and sdef.name == attr and any(
                                isinstance(d, ast.Attribute) and d.attr == 'setter' for d in sdef.decorator_list):
                            yield from self.inline_setter(ref, cc, sdef, v, st, line)
                            return
                raise Unsupported('assignment to method/property %s at line %s' % (attr, line))
        s = st.clone()
        s.heap[(ref.id, attr)] = v
        s.writes.append((ref.id, attr, line))
        yield s, None

    def inline_setter(self, ref, cls, sdef, v, st, line):
        sub = st.clone()
        saved = sub.loc
        sub.loc = {sdef.args.args[0].arg: ref, sdef.args.args[1].arg: v}
        for s2, out in self.ex(sdef.body, sub):
            s2.loc = saved
            if out[0] == 'raise':
                yield s2, out[1]
            else:
                yield s2, None

    def set_item(self, b, i, v, st, line):
        if isinstance(b, RefV) and b.kind == 'obj' and b.cls is not None:
            c, m = b.cls.find_method('__setitem__')
            if m is None:
                yield st, ExcV('TypeError', 'object does not support item assignment', line)
                return
            for s2, r in self.call_repo(None, ('method', b, c, m), [i, v], {}, st, None):
                yield s2, (r if is_exc(r) else None)
            return
        if isinstance(i, ConstV) and type(i.py).__name__ == 'SliceV':
            if not isinstance(i.py.step, NoneV):
                raise Unsupported('slice object with a step at line %s' % line)
            yield from self.set_slice(b, i.py.start, i.py.stop, v, st, line)
            return
        if isinstance(b, RefV) and b.kind == 'rec':
            if isinstance(i, ConstV) and isinstance(i.py, str):
                yield self.rec_set(st, b, i.py, v, line), None
                return
            raise Unsupported('record item assignment with symbolic key at line %s' % line)
        if isinstance(b, RefV) and b.kind == 'list':
            cur = st.heap[(b.id, 'val')]
            hook = self.spec.hints.get('set_item')
            outs = hook(self, b, cur, i, v, st, line) if hook is not None else None
            if outs is not None:            # a list of (state, exception or None)
                yield from outs
                return
            if isinstance(cur, SeqV) and is_intlike(v):
                ii = to_int(i)
                ln = z3.Length(cur.t)
                for s, ok in self.fork(st, z3.And(-ln <= ii, ii < ln)):
                    if not ok:
                        yield s, ExcV('IndexError', 'list assignment index out of range', line)
                        continue
                    idx = z3.If(ii < 0, ii + ln, ii)
                    new = z3.Concat(z3.SubSeq(cur.t, 0, idx), z3.Unit(to_int(v)), z3.SubSeq(cur.t, idx + 1, ln - idx - 1))
                    s = s.clone()
                    s.heap[(b.id, 'val')] = SeqV(new, cur.kind)
                    if b.id in self.tracked_refs:
                        s.writes.append((b.id, 'val', line))
                    yield s, None
                return
            if isinstance(cur, PyListV):
                ci = const_of(to_int(i))
                if ci is not None and -len(cur.items) <= ci < len(cur.items):
                    items = list(cur.items)
                    items[ci] = v
                    s = st.clone()
                    s.heap[(b.id, 'val')] = PyListV(items)
                    if b.id in self.tracked_refs:
                        s.writes.append((b.id, 'val', line))
                    yield s, None
                    return
        raise Unsupported('item assignment on %r at line %s' % (b, line))

    def setitem_hook(self, b, st):
        return None

    def set_slice(self, b, lo, hi, v, st, line):
        if isinstance(lo, UnionV) or isinstance(hi, UnionV):
            for s1, l1 in self.split(st, lo if lo is not None else NONE):
                for s2, h1 in self.split(s1, hi if hi is not None else NONE):
                    yield from self.set_slice(b, l1, h1, v, s2, line)
            return
        if isinstance(b, RefV) and b.kind == 'obj' and b.cls is not None:
            from .calls import SliceV
            c, m = b.cls.find_method('__setitem__')
            if m is None:
                yield st, ExcV('TypeError', 'object does not support item assignment', line)
                return
            key = ConstV(SliceV(NONE if lo is None else lo, NONE if hi is None else hi, NONE))
            for s2, r in self.call_repo(None, ('method', b, c, m), [key, v], {}, st, None):
                yield s2, (r if is_exc(r) else None)
            return
        if isinstance(b, RefV) and b.kind == 'list':
            cur = st.heap[(b.id, 'val')]
            v = self.deref_list(v, st)
            if isinstance(cur, SeqV) and isinstance(v, SeqV):
                from .pure import clamp_slice
                n = z3.Length(cur.t)
                bb, ee = clamp_slice(self.opt_int(lo), self.opt_int(hi), n)
                ee = z3.If(ee < bb, bb, ee)
                new = z3.Concat(z3.SubSeq(cur.t, 0, bb), v.t, z3.SubSeq(cur.t, ee, n - ee))
                s = st.clone()
                s.heap[(b.id, 'val')] = SeqV(new, cur.kind)
                if b.id in self.tracked_refs:
                    s.writes.append((b.id, 'val', line))
                yield s, None
                return
        raise Unsupported('slice assignment on %r at line %s' % (b, line))

    # ---------------------------------------------------------------- try
    def ex_Try(self, s, st):
        for s1, out in self.ex(s.body, st):
            if out[0] == 'raise':
                handled = False
                exc = out[1]
                for h in s.handlers:
                    names = self.handler_classes(h)
                    if names is None or any(exc_isa(exc.cls, nm) for nm in names):
                        handled = True
                        s2 = s1.clone()
                        if h.name:
                            s2.loc[h.name] = exc
                        prev = s2.loc.get('__handling__')
                        s2.loc['__handling__'] = exc
                        for s3, o3 in self.ex(h.body, s2):
                            s3 = s3.clone()
                            if prev is None:
                                s3.loc.pop('__handling__', None)
                            else:
                                s3.loc['__handling__'] = prev
                            yield from self.run_finally(s, s3, o3)
                        break
                if not handled:
                    yield from self.run_finally(s, s1, out)
            elif out[0] == 'next' and s.orelse:
                for s2, o2 in self.ex(s.orelse, s1):
                    yield from self.run_finally(s, s2, o2)
            else:
                yield from self.run_finally(s, s1, out)

    def handler_classes(self, h):
        if h.type is None:
            return None
        ts = h.type.elts if isinstance(h.type, ast.Tuple) else [h.type]
        names = []
        for t in ts:
            nm = t.id if isinstance(t, ast.Name) else ast.unparse(t)
            nm = EXC_ALIAS.get(nm, nm)
            if nm not in EXC_LATTICE:
                raise Unsupported('handler for unknown exception class %s' % nm)
            names.append(nm)
        return names

    def run_finally(self, s, st, out):
        if not s.finalbody:
            yield st, out
            return
        for s2, o2 in self.ex(s.finalbody, st):
            if o2[0] == 'next':
                yield s2, out
            else:
                yield s2, o2

    # ---------------------------------------------------------------- loops
    def loop_ordinal(self, s):
        return self.loop_nodes.index(s)

    def havoc_value(self, v, name):
        """a fresh value of the same tag as v"""
        hook = self.spec.hints.get('havoc_value')
        if hook is not None:
            r = hook(self, v, name)
            if r is not None:
                return r
        if self.spec.hints.get('functional_lists') and (
                (isinstance(v, SeqV) and v.kind == 'list') or (isinstance(v, PyListV) and all(is_intlike(i) for i in v.items))
                or (isinstance(v, ListV) and v.tag == 'flist')):
            n = fresh(name + '.len')
            f = z3.Function('%s!%d' % (name, next(self._ids)), z3.IntSort(), z3.IntSort())
            self.pending_facts.append(n >= 0)
            return ListV(n, lambda i: IntV(f(i)), tag='flist')
        if isinstance(v, IntV):
            return IntV(fresh(name))
        if isinstance(v, BoolV):
            return BoolV(fresh(name, 'Bool'))
        if isinstance(v, SeqV):
            return SeqV(fresh(name, IntSeq), v.kind)
        if isinstance(v, TupV):
            return TupV([self.havoc_value(x, name) for x in v.items])
        if isinstance(v, SetV):
            return SetV(fresh(name, SetSort))
        if isinstance(v, RefV) and v.kind == 'obj':
            # some (other) object of the same class about which nothing is known
            return RefV(self.new_id(), 'obj', v.cls)
        if isinstance(v, OpaqueV):
            return OpaqueV(fresh(name, USort), v.what)        # some object of the same (unknown) kind
        if isinstance(v, (NoneV, ConstV)):
            raise Unsupported('loop assigns %s whose entry value is %r: declare its sort in Loop(havoc=...)' % (name, v))
        if isinstance(v, UnionV):
            # some value of one of the same alternatives (None stays None, the others are fresh values of their tag)
            sel = fresh('which_' + name)
            self.pending_facts += [sel >= 0, sel < len(v.alts)]
            return UnionV([(sel == i, a if isinstance(a, NoneV) else self.havoc_value(a, '%s_alt%d' % (name, i))) for i, (_, a) in enumerate(v.alts)])
        raise Unsupported('cannot havoc %s (entry value %r)' % (name, v))

    def havoc_for_loop(self, st, body, lp, extra_names=()):
        s = st.clone()
        names = (assigned_names(body) | set(extra_names))
        for nm in sorted(names):
            if nm in s.loc:
                v = s.loc[nm]
                if isinstance(v, RefV) and v.kind == 'list':
                    continue
                s.loc[nm] = self.havoc_value(v, nm)
        for nm in sorted(mutated_names(body) | names):
            v = s.loc.get(nm)
            if isinstance(v, RefV) and v.kind == 'list':
                cur = s.heap[(v.id, 'val')]
                if isinstance(cur, PyListV) and all(is_intlike(i) for i in cur.items) and not self.spec.hints.get('functional_lists'):
                    cur = SeqV(self.seq_of_items(cur.items), 'list')
                if nm in names:
                    # rebinding of a list variable: new object
                    nid = self.new_id()
                    s.heap[(nid, 'val')] = self.havoc_value(cur, nm)
                    s.loc[nm] = RefV(nid, 'list')
                else:
                    s.heap[(v.id, 'val')] = self.havoc_value(cur, nm)
        for f in (lp.modifies if lp else ()):
            ref, fld = self.resolve_field(f, s)
            cur = s.heap[(ref.id, fld)]
            if isinstance(cur, RefV) and cur.kind == 'iter':
                nid = self.new_id()
                nseq, npos = fresh(fld + '.seq', IntSeq), fresh(fld + '.pos')
                s.heap[(nid, 'seq')] = SeqV(nseq, 'list')
                s.heap[(nid, 'pos')] = IntV(npos)
                s.pc += [npos >= 0, npos <= z3.Length(nseq)]
                s.heap[(ref.id, fld)] = RefV(nid, 'iter')
                continue
            if isinstance(cur, RefV) and cur.kind == 'list' and self.spec.hints.get('havoc_list') is not None \
                    and self.spec.hints['havoc_list'](self, s, cur, fld):
                continue
            if isinstance(cur, RefV) and cur.kind == 'list':
                s.heap[(cur.id, 'val')] = self.havoc_value(s.heap[(cur.id, 'val')], fld)
            else:
                s.heap[(ref.id, fld)] = self.havoc_value(cur, fld)
        if self.pending_facts:
            s.pc.extend(self.pending_facts)
            del self.pending_facts[:]
        if contains_yield(body) and s.out_n is not None:
            s.out_n = fresh('nout')
            s.out_arr = [fresh('out', z3.ArraySort(z3.IntSort(), z3.IntSort())) for _ in s.out_arr]
            # ghost variables change at yields (on_yield) or through sidecar callee models: a body without any call can only change the former
            has_call = any(isinstance(x, ast.Call) for b in body for x in ast.walk(b))
            targets = set(g for g, _ in self.spec.on_yield)
            for g, (sort, _) in self.spec.ghost.items():
                if has_call or g in targets:
                    s.ghost[g] = self.havoc_value(s.ghost[g], g)
            s.pc.append(s.out_n >= 0)
        return s

    def entry_snapshot(self, st):
        snap = {}
        for k, v in st.loc.items():
            snap['entry(%s)' % k] = self.deref_for_contract(v, st)
        for k, v in st.ghost.items():
            snap['entry(%s)' % k] = v
        if st.out_n is not None:
            snap['entry(NOUT)'] = IntV(st.out_n)
        return snap

    def check_invariant(self, lp, st, kind, ordinal, extra_ns=None):
        for label, text in lp.invariant:
            val, facts = self.contract_bool(text, st, extra_ns)
            self.add_oblig('%s[loop %d:%s]' % (kind, ordinal, label), kind, st, val, facts,
                           line=self.loop_nodes[ordinal].lineno)

    def assume_invariant(self, lp, st, extra_ns=None):
        s = st.clone()
        for label, text in lp.invariant:
            val, facts = self.contract_bool(text, s, extra_ns)
            s.pc.extend(facts)
            s.pc.append(val)
        return s

    def ex_While(self, s, st):
        ordinal = self.loop_ordinal(s)
        lp = self.spec.loops.get(ordinal)
        if lp is None:
            raise Unsupported('loop %d (line %d) has no invariant in the contract' % (ordinal, s.lineno))
        if s.orelse:
            raise Unsupported('while-else')
        snap = self.entry_snapshot(st)
        self.check_invariant(lp, st, 'inv-init', ordinal, snap)
        if len(lp.invariant) == 1 and lp.invariant[0][1].strip() == 'False':
            # the contract claims the loop is unreachable: inv-init (just generated) is exactly that claim; nothing continues from here
            return
        h = self.havoc_for_loop(st, s.body, lp)
        h = self.assume_invariant(lp, h, snap)
        for s1, g in self.ev(s.test, h):
            if is_exc(g):
                yield s1, ('raise', g)
                continue
            for s2, t in self.truth(s1, g, label='while@%d' % s.lineno):
                if not t:
                    yield s2, NEXT
                    continue
                v0 = None
                if lp.variant is not None:
                    v0v, facts = self.contract_value(lp.variant, s2, snap)
                    v0 = to_int(v0v)
                    self.add_oblig('variant-bounded[loop %d]' % ordinal, 'variant', s2, v0 >= 0, facts, line=s.lineno)
                for s3, out in self.ex(s.body, s2):
                    if out[0] in ('next', 'continue'):
                        self.check_invariant(lp, s3, 'inv-keep', ordinal, snap)
                        if v0 is not None:
                            v1v, facts = self.contract_value(lp.variant, s3, snap)
                            self.add_oblig('variant-decreases[loop %d]' % ordinal, 'variant', s3,
                                           to_int(v1v) < v0, facts, line=s.lineno)
                    elif out[0] == 'break':
                        yield s3, NEXT
                    else:
                        yield s3, out

    def ex_For(self, s, st):
        for s1, it in self.ev(s.iter, st):
            if is_exc(it):
                yield s1, ('raise', it)
                continue
            it0 = it
            it = self.deref_list(it, s1)
            # compile-time constant containers (and fixed-length lists) are unrolled exactly
            if isinstance(it, ConstV) and isinstance(it.py, (tuple, list, dict)):
                yield from self.for_unroll(s, [lift(x) for x in it.py], s1)
                continue
            if isinstance(it, (PyListV, TupV)):
                yield from self.for_unroll(s, it.items, s1)
                continue
            yield from self.for_cut(s, it, s1)

    def for_unroll(self, s, items, st):
        if not items:
            yield from self.ex(s.orelse, st)
            return
        for s1, e in self.assign_g(s.target, items[0], st, s.lineno):
            if e is not None:
                yield s1, ('raise', e)
                continue
            for s2, out in self.ex(s.body, s1):
                if out[0] in ('next', 'continue'):
                    yield from self.for_unroll(s, items[1:], s2)
                elif out[0] == 'break':
                    yield s2, NEXT
                else:
                    yield s2, out

    def for_cut(self, s, it, st):
        ordinal = self.loop_ordinal(s)
        lp = self.spec.loops.get(ordinal)
        if lp is None:
            raise Unsupported('loop %d (line %d) has no invariant in the contract' % (ordinal, s.lineno))
        # the iterated sequence and the start position
        iter_ref = None
        if isinstance(it, RefV) and it.kind == 'iter':
            iter_ref = it
            seq = st.heap[(it.id, 'seq')]
            p0 = to_int(st.heap[(it.id, 'pos')])
        else:
            seq = it
            p0 = z3.IntVal(0)
        if isinstance(seq, SeqV):
            n = z3.Length(seq.t)
            elem = lambda k: (SeqV(z3.SubSeq(seq.t, k, 1), 'str') if seq.kind == 'str' else IntV(seq.t[k]))
        elif isinstance(seq, ListV):
            n = seq.n
            elem = seq.get
        else:
            raise Unsupported('for over %r at line %d' % (seq, s.lineno))
        snap = self.entry_snapshot(st)

        def extra(k):
            d = {lp.index: IntV(k), (lp.seq or '__SEQ__'): seq}
            d.update(snap)
            if isinstance(seq, ListV) and lp.seq:
                for g, f in seq.traj.items():
                    d['%s_%s' % (lp.seq, g)] = FuncV(g, (lambda f: (lambda a: IntV(f(to_int(a)))))(f))
            return d
        self.check_invariant(lp, st, 'inv-init', ordinal, extra(p0))
        h = self.havoc_for_loop(st, s.body, lp, extra_names=target_names(s.target))
        k = fresh(lp.index)
        h.pc.append(p0 <= k)
        h.pc.append(k <= n)
        h = self.assume_invariant(lp, h, extra(k))
        # body arm
        for sb, more in self.fork(h, k < n):
            if more:
                if iter_ref is not None:
                    sb = sb.clone()
                    sb.heap[(iter_ref.id, 'pos')] = IntV(k + 1)
                sb, ek = self.materialize(sb, elem(k))
                for s1, e in self.assign_g(s.target, ek, sb, s.lineno):
                    if e is not None:
                        yield s1, ('raise', e)
                        continue
                    for s2, out in self.ex(s.body, s1):
                        if out[0] in ('next', 'continue'):
                            self.check_invariant(lp, s2, 'inv-keep', ordinal, extra(k + 1))
                        elif out[0] == 'break':
                            yield s2, NEXT
                        else:
                            yield s2, out
            else:
                se = sb
                if iter_ref is not None:
                    se = se.clone()
                    se.heap[(iter_ref.id, 'pos')] = IntV(n)
                se = se.clone()
                se.pc.append(k == n)
                yield from self.ex(s.orelse, se)

    # ---------------------------------------------------------------- generators
    def do_yield(self, y, st):
        if y.value is None:
            raise Unsupported('bare yield')
        for s1, v in self.ev(y.value, st):
            if is_exc(v):
                yield s1, ('raise', v)
                continue
            yield self.emit(s1, v, y.lineno), NEXT

    def emit(self, st, v, line):
        if st.out_n is None:
            raise Unsupported('yield in a function whose contract has no `yields`')
        comps = v.items if isinstance(v, TupV) else [v]
        if len(comps) != len(st.out_arr):
            raise Unsupported('yield arity at line %s' % line)
        # per-yield obligations over the ghost state before the update
        ns = {'v': v}
        for label, text in self.spec.yield_ensures:
            val, facts = self.contract_bool(text, st, ns)
            self.add_oblig('yield[%s]' % label, 'yield', st, val, facts, line=line)
        s = st.clone()
        for i, c in enumerate(comps):
            s.out_arr[i] = z3.Store(s.out_arr[i], s.out_n, to_int(c))
        s.out_n = s.out_n + 1
        # ghost updates (simultaneous: all right-hand sides see the old ghost state)
        new = {}
        for g, text in self.spec.on_yield:
            val, facts = self.contract_value(text, st, ns)
            s.pc.extend(facts)
            new[g] = val
        s.ghost.update(new)
        return s
