"""Discharge obligations: z3 (python API, in a process pool) then /usr/bin/cvc5 on `unknown`.

unsat  -> discharged        sat -> refuted (model returned)       unknown from both -> undecided
"""
import os
import re
import subprocess
import tempfile
import time
from concurrent.futures import ProcessPoolExecutor

import z3

Z3_TIMEOUT_MS = int(os.environ.get('PYVC_Z3_MS', '15000'))
Z3_QUICK_MS = int(os.environ.get('PYVC_Z3_QUICK_MS', '3000'))
CVC5_TIMEOUT_S = int(os.environ.get('PYVC_CVC5_S', '30'))
CVC5 = '/usr/bin/cvc5'


def to_smt2(hyps, claim):
    s = z3.Solver()
    for h in hyps:
        s.add(h)
    s.add(z3.Not(claim))
    return s.to_smt2()


def model_to_py(m):
    out = {}
    for d in m.decls():
        if d.arity() != 0:
            try:
                out[d.name()] = str(m[d])
            except Exception:
                pass
            continue
        v = m[d]
        try:
            if z3.is_int_value(v):
                out[d.name()] = v.as_long()
            elif z3.is_true(v) or z3.is_false(v):
                out[d.name()] = bool(z3.is_true(v))
            elif z3.is_seq(v):
                out[d.name()] = seq_to_list(v)
            else:
                out[d.name()] = str(v)
        except Exception:
            out[d.name()] = str(v)
    return out


def seq_to_list(v):
    v = z3.simplify(v)
    if z3.is_app_of(v, z3.Z3_OP_SEQ_EMPTY):
        return []
    if z3.is_app_of(v, z3.Z3_OP_SEQ_UNIT):
        e = v.arg(0)
        return [e.as_long() if z3.is_int_value(e) else str(e)]
    if z3.is_app_of(v, z3.Z3_OP_SEQ_CONCAT):
        out = []
        for i in range(v.num_args()):
            out += seq_to_list(v.arg(i))
        return out
    return [str(v)]


def guarded_check(s, budget_ms):
    """s.check() with a watchdog: should z3 overrun its own timeout by two seconds, it is interrupted (the result is then `unknown`)"""
    import threading
    ctx = z3.main_ctx()          # (no reference to the solver object may live in the timer thread: z3 objects must be released by the thread that uses them)
    w = threading.Timer(budget_ms / 1000.0 + 2.0, ctx.interrupt)
    w.daemon = True
    w.start()
    try:
        return s.check()
    finally:
        w.cancel()


def solve_one(job):
    """job = (key, smt2 text, want_model) -> dict"""
    key, smt2, want_model = job
    t0 = time.time()
    res = dict(key=key, status='unknown', backend='z3', seconds=0.0, model=None, reason='')
    # portfolio: z3 with a short budget, then cvc5, then z3 with the long budget
    for stage, budget in (('z3', Z3_QUICK_MS), ('cvc5', None), ('z3', Z3_TIMEOUT_MS)):
        if stage == 'z3':
            try:
                s = z3.Solver()
                s.set('timeout', budget)
                s.from_string(smt2)
                r = guarded_check(s, budget)
                if r == z3.unsat:
                    res.update(status='unsat', backend='z3', seconds=time.time() - t0)
                    return res
                if r == z3.sat:
                    res.update(status='sat', backend='z3', seconds=time.time() - t0)
                    if want_model:
                        try:
                            res['model'] = model_to_py(s.model())
                        except Exception as e:
                            res['reason'] = 'model extraction failed: %s' % e
                    return res
                res['reason'] += ' | z3(%dms): %s' % (budget, s.reason_unknown())
            except Exception as e:
                res['reason'] += ' | z3 error: %s' % e
        else:
            try:
                r2 = run_cvc5(smt2)
                if r2 in ('unsat', 'sat'):
                    res.update(status=r2, backend='cvc5', seconds=time.time() - t0)
                    return res
                res['reason'] += ' | cvc5: %s' % r2
            except Exception as e:
                res['reason'] += ' | cvc5 error: %s' % e
    res['seconds'] = time.time() - t0
    if os.environ.get('PYVC_DUMP_UNKNOWN'):
        import re
        with open(os.path.join(os.environ['PYVC_DUMP_UNKNOWN'], re.sub(r'[^A-Za-z0-9_.-]+', '_', str(key))[:150] + '.smt2'), 'w') as f:
            f.write(smt2)
    return res


def solve_long(job):
    """second opinion with twice the budgets, for an obligation that was discharged on the baseline tree and is undecided after a code
    change: a verdict must not flip because the machine is busy or a harmless edit made the query a little slower"""
    key, smt2 = job
    res = dict(key=key, status='unknown', backend='z3', seconds=0.0, reason='')
    t0 = time.time()
    try:
        s = z3.Solver()
        s.set('timeout', 2 * Z3_TIMEOUT_MS)
        s.from_string(smt2)
        r = guarded_check(s, 2 * Z3_TIMEOUT_MS)
        if r in (z3.unsat, z3.sat):
            res.update(status=str(r), backend='z3', seconds=time.time() - t0)
            return res
        res['reason'] += ' | z3(%dms): %s' % (2 * Z3_TIMEOUT_MS, s.reason_unknown())
    except Exception as e:
        res['reason'] += ' | z3 error: %s' % e
    try:
        r2 = run_cvc5(smt2, seconds=2 * CVC5_TIMEOUT_S)
        if r2 in ('unsat', 'sat'):
            res.update(status=r2, backend='cvc5', seconds=time.time() - t0)
            return res
        res['reason'] += ' | cvc5(%ds): %s' % (2 * CVC5_TIMEOUT_S, r2)
    except Exception as e:
        res['reason'] += ' | cvc5 error: %s' % e
    res['seconds'] = time.time() - t0
    return res


def run_cvc5(smt2, seconds=None):
    seconds = seconds or CVC5_TIMEOUT_S
    txt = smt2
    if '(set-logic' not in txt:
        txt = '(set-logic ALL)\n' + txt
    with tempfile.NamedTemporaryFile('w', suffix='.smt2', delete=False) as f:
        f.write(txt)
        path = f.name
    try:
        p = subprocess.run([CVC5, '--strings-exp', '--tlimit=%d' % (seconds * 1000), path],
                           capture_output=True, text=True, timeout=seconds + 10)
        out = p.stdout.strip().splitlines()
        if out and out[0] in ('sat', 'unsat', 'unknown'):
            return out[0]
        return 'error: %s %s' % (p.stdout[:200], p.stderr[:200])
    except subprocess.TimeoutExpired:
        return 'timeout'
    finally:
        os.unlink(path)


_POOL = None


def pool():
    global _POOL
    if _POOL is None:
        n = int(os.environ.get('PYVC_JOBS', str(min(16, os.cpu_count() or 4))))
        _POOL = ProcessPoolExecutor(max_workers=n)
    return _POOL


def solve_all(jobs, parallel=True):
    if not jobs:
        return []
    if not parallel or len(jobs) < 4:
        return [solve_one(j) for j in jobs]
    return list(pool().map(solve_one, jobs, chunksize=max(1, len(jobs) // 64)))


def discharge(obligs, want_models=True):
    """obligs: list of engine.Oblig; fills .status ('discharged' / 'refuted' / 'undecided' /
    'vacuous') and .results"""
    jobs = []
    for oi, ob in enumerate(obligs):
        for qi, (hyps, claim, meta) in enumerate(ob.queries):
            if meta.get('trivial'):
                continue
            jobs.append(((oi, qi), to_smt2(hyps, claim), want_models))
    results = solve_all(jobs)
    by = {}
    for r in results:
        by.setdefault(r['key'][0], []).append(r)
    for oi, ob in enumerate(obligs):
        rs = by.get(oi, [])
        ob.results = rs
        if not ob.queries:
            ob.status = 'vacuous'
        elif any(r['status'] == 'sat' for r in rs):
            ob.status = 'refuted'
        elif any(r['status'] == 'unknown' for r in rs):
            ob.status = 'undecided'
        else:
            ob.status = 'discharged'
    return obligs


def check_sat(hyps, timeout_ms=10000):
    s = z3.Solver()
    s.set('timeout', timeout_ms)
    s.add(*hyps)
    return str(s.check())
