"""Symbolic Python-level values used by the pyvc executor.

Every value is a tagged wrapper around z3 terms (or around a Python constant).  The executor never
guesses: an operation on a pair of tags that is not defined here raises `Unsupported`, which the
driver reports as UNDECIDED (exit 2), never as proved and never as a violation.
"""
import z3


class Unsupported(Exception):
    """The function under contract left the supported Python subset."""


class V(object):
    __slots__ = ()


class IntV(V):
    __slots__ = ('t',)

    def __init__(self, t):
        if isinstance(t, bool):
            t = int(t)
        if isinstance(t, int):
            t = z3.IntVal(t)
        self.t = t

    def __repr__(self):
        return 'IntV(%s)' % self.t


class BoolV(V):
    __slots__ = ('t',)

    def __init__(self, t):
        if isinstance(t, bool):
            t = z3.BoolVal(t)
        self.t = t

    def __repr__(self):
        return 'BoolV(%s)' % self.t


class NoneV(V):
    __slots__ = ()

    def __repr__(self):
        return 'NoneV'


NONE = NoneV()


class ConstV(V):
    """A Python constant that is not modelled symbolically (str, type object, dict of constants,
    class handle, function handle ...)."""
    __slots__ = ('py',)

    def __init__(self, py):
        self.py = py

    def __repr__(self):
        return 'ConstV(%r)' % (self.py,)


class TupV(V):
    __slots__ = ('items',)

    def __init__(self, items):
        self.items = list(items)

    def __repr__(self):
        return 'TupV(%r)' % (self.items,)


class SeqV(V):
    """A flat immutable sequence of integers: bytes / bytearray / str (code points) / list of int.
    `t` is a z3 Seq(Int)."""
    __slots__ = ('t', 'kind')

    def __init__(self, t, kind='bytes'):
        self.t = t
        self.kind = kind

    def __repr__(self):
        return 'SeqV[%s](%s)' % (self.kind, self.t)


class ListV(V):
    """An abstract immutable list with functional access: length `n` (z3 Int) and `get(i)` building
    the element value from a z3 index term.  Used for lists of records / tuples."""
    __slots__ = ('n', 'get', 'kind', 'tag', 'traj')

    def __init__(self, n, get, kind='list', tag=None, traj=None):
        self.n = n
        self.get = get
        self.kind = kind
        self.tag = tag
        self.traj = traj or {}

    def __repr__(self):
        return 'ListV(n=%s,%s)' % (self.n, self.tag)


class PyListV(V):
    """A list of statically known length whose items are symbolic values (e.g. a literal
    `[a, b]`, or the result of a comprehension over a constant container)."""
    __slots__ = ('items', 'kind')

    def __init__(self, items, kind='list'):
        self.items = list(items)
        self.kind = kind

    def __repr__(self):
        return 'PyListV(%r)' % (self.items,)


class RefV(V):
    """A reference to a heap object: record ('rec'), class instance ('obj'), mutable list
    ('list'), iterator ('iter').  Fields live in the state's heap under (id, field)."""
    __slots__ = ('id', 'kind', 'cls')

    def __init__(self, id, kind, cls=None):
        self.id = id
        self.kind = kind
        self.cls = cls

    def __repr__(self):
        return 'RefV(%s,%s,%s)' % (self.id, self.kind, self.cls)


class RecProto(V):
    """an element of an abstract list of records: {field: (present z3 Bool, value)}; materialised into a
    heap record when it is bound to a name or subscripted"""
    __slots__ = ('fields',)

    def __init__(self, fields):
        self.fields = fields


class UnionV(V):
    """A value that is one of several alternatives, each under a guard (guards are exhaustive and
    mutually exclusive under the path condition).  Operations that need a definite tag fork."""
    __slots__ = ('alts',)

    def __init__(self, alts):
        self.alts = list(alts)

    def __repr__(self):
        return 'UnionV(%r)' % (self.alts,)


class OpaqueV(V):
    """A value about which nothing is known except identity (an uninterpreted z3 constant of the
    sort `U`).  Produced by havoc of non-numeric things (exception objects, loggers ...)."""
    __slots__ = ('t', 'what')

    def __init__(self, t, what=''):
        self.t = t
        self.what = what

    def __repr__(self):
        return 'OpaqueV(%s)' % self.what


class FuncV(V):
    """A callable known to the executor: builtin model, contract-bound repo function, lambda."""
    __slots__ = ('name', 'impl', 'bound')

    def __init__(self, name, impl, bound=None):
        self.name = name
        self.impl = impl
        self.bound = bound

    def __repr__(self):
        return 'FuncV(%s)' % self.name


class ExcV(V):
    """An exceptional outcome of evaluating an expression / executing a statement."""
    __slots__ = ('cls', 'why', 'line')

    def __init__(self, cls, why='', line=None):
        self.cls = cls
        self.why = why
        self.line = line

    def __repr__(self):
        return 'ExcV(%s,%s@%s)' % (self.cls, self.why, self.line)


IntSeq = z3.SeqSort(z3.IntSort())
USort = z3.DeclareSort('U')


def is_exc(v):
    return isinstance(v, ExcV)


def z3_true(t):
    return z3.is_true(z3.simplify(t))


def z3_false(t):
    return z3.is_false(z3.simplify(t))
