"""Index of the real source under $VERIF_REPO: locate functions / classes by qualified name and
evaluate class-level and module-level constants from their AST (literal arithmetic only).

Nothing is copied: every run re-parses the files as they are in the working tree.
"""
import ast
import hashlib
import os
import struct

from .vals import Unsupported


def repo_root():
    return os.environ.get('VERIF_REPO', '/repo')


class ClassHandle(object):
    """A class of the repository, known by its AST."""

    def __init__(self, repo, mod, node):
        self.repo = repo
        self.mod = mod
        self.node = node
        self.name = node.name
        self._consts = {}

    def __repr__(self):
        return '<class %s>' % self.name

    def bases(self):
        out = []
        for b in self.node.bases:
            nm = b.id if isinstance(b, ast.Name) else (b.attr if isinstance(b, ast.Attribute) else None)
            if nm:
                h = self.repo.find_class(nm, prefer=self.mod)
                if h is not None:
                    out.append(h)
        return out

    def mro(self):
        seen, order = set(), []

        def walk(c):
            if c.name in seen:
                return
            seen.add(c.name)
            order.append(c)
            for b in c.bases():
                walk(b)
        walk(self)
        return order

    def is_subclass(self, other_name):
        return any(c.name == other_name for c in self.mro())

    def find_method(self, name):
        for c in self.mro():
            for s in c.node.body:
                if isinstance(s, (ast.FunctionDef,)) and s.name == name:
                    return c, s
        return None, None

    def const(self, name):
        """Value of a class-level constant (searching the MRO); raises KeyError if there is none."""
        for c in self.mro():
            if name in c._consts:
                return c._consts[name]
            for s in c.node.body:
                if isinstance(s, ast.Assign) and len(s.targets) == 1 and isinstance(s.targets[0], ast.Name) \
                        and s.targets[0].id == name:
                    v = c.repo.const_eval(s.value, c.mod, cls=c)
                    c._consts[name] = v
                    return v
        raise KeyError(name)

    def has_const(self, name):
        try:
            self.const(name)
            return True
        except (KeyError, Unsupported):
            return False


class Module(object):
    def __init__(self, repo, rel):
        self.repo = repo
        self.rel = rel
        self.path = os.path.join(repo.root, rel)
        with open(self.path, 'rb') as f:
            self.src = f.read()
        self.tree = ast.parse(self.src, filename=self.path)
        self.sha = hashlib.sha256(self.src).hexdigest()[:16]
        self.classes = {}
        self.funcs = {}
        self.assigns = {}
        self._consts = {}
        for s in self.tree.body:
            if isinstance(s, ast.ClassDef):
                self.classes[s.name] = s
            elif isinstance(s, ast.FunctionDef):
                self.funcs[s.name] = s
            elif isinstance(s, ast.Assign) and len(s.targets) == 1 and isinstance(s.targets[0], ast.Name):
                self.assigns.setdefault(s.targets[0].id, s.value)


PURE_NATIVE = {
    ('struct', 'calcsize'): struct.calcsize,
}


class Repo(object):
    # modules searched (in this order) for a class/constant that is not defined in the module at hand
    SEARCH = ['server/enip/parser.py', 'server/enip/device.py', 'server/enip/logix.py', 'automata.py',
              'server/enip/defaults.py', 'server/enip/ucmm.py', 'server/enip/client.py', 'misc.py',
              'remote/plc_modbus.py', 'server/tnetstrings.py', 'history/times.py', 'dotdict.py']

    def __init__(self, root=None):
        self.root = root or repo_root()
        self.mods = {}

    def module(self, rel):
        if rel not in self.mods:
            self.mods[rel] = Module(self, rel)
        return self.mods[rel]

    def find_class(self, name, prefer=None):
        order = ([prefer.rel] if prefer is not None else []) + [r for r in self.SEARCH]
        for rel in order:
            if not os.path.exists(os.path.join(self.root, rel)):
                continue
            m = self.module(rel)
            if name in m.classes:
                return self.class_handle(m, name)
        return None

    def class_handle(self, mod, name):
        key = (mod.rel, name)
        if not hasattr(self, '_ch'):
            self._ch = {}
        if key not in self._ch:
            self._ch[key] = ClassHandle(self, mod, mod.classes[name])
        return self._ch[key]

    def find_function(self, rel, qualname):
        """Returns (module, class handle or None, FunctionDef).  `qualname` is `f`, `C.f` or
        `C.f.<nested>` / `f.<nested>` for a nested def."""
        mod = self.module(rel)
        parts = qualname.split('.')
        cls = None
        scope = mod.tree
        node = None
        for p in parts:
            if isinstance(scope, ast.FunctionDef):
                cands = [s for s in ast.walk(scope) if s is not scope]
            else:
                cands = scope.body
            found = None
            for s in cands:
                if isinstance(s, (ast.ClassDef, ast.FunctionDef)) and s.name == p:
                    found = s
                    break
            if found is None:
                raise Unsupported('stale contract: %s:%s not found in the working tree' % (rel, qualname))
            node = scope = found
            if isinstance(node, ast.ClassDef):
                # (a class defined inside a function has no module-level handle: its methods are treated like plain functions)
                cls = self.class_handle(mod, node.name) if node.name in mod.classes else None
        if not isinstance(node, ast.FunctionDef):
            raise Unsupported('stale contract: %s:%s is not a function' % (rel, qualname))
        return mod, cls, node

    # ---------------------------------------------------------------- constants
    def const_eval(self, n, mod, cls=None, depth=0):
        """Evaluate a constant expression (literal arithmetic, references to other class/module
        constants, struct.calcsize) from the AST.  Raises Unsupported for anything else."""
        if depth > 40:
            raise Unsupported('constant recursion')
        ce = lambda x: self.const_eval(x, mod, cls, depth + 1)
        if isinstance(n, ast.Constant):
            return n.value
        if isinstance(n, ast.Tuple):
            return tuple(ce(e) for e in n.elts)
        if isinstance(n, ast.List):
            return [ce(e) for e in n.elts]
        if isinstance(n, ast.Dict):
            return dict((ce(k), ce(v)) for k, v in zip(n.keys, n.values))
        if isinstance(n, ast.UnaryOp):
            v = ce(n.operand)
            if isinstance(n.op, ast.USub):
                return -v
            if isinstance(n.op, ast.Not):
                return not v
            if isinstance(n.op, ast.Invert):
                return ~v
        if isinstance(n, ast.BinOp):
            a, b = ce(n.left), ce(n.right)
            ops = {ast.Add: lambda: a + b, ast.Sub: lambda: a - b, ast.Mult: lambda: a * b,
                   ast.FloorDiv: lambda: a // b, ast.Mod: lambda: a % b, ast.LShift: lambda: a << b,
                   ast.RShift: lambda: a >> b, ast.BitOr: lambda: a | b, ast.BitAnd: lambda: a & b,
                   ast.BitXor: lambda: a ^ b, ast.Pow: lambda: a ** b, ast.Div: lambda: a / b}
            if type(n.op) in ops:
                return ops[type(n.op)]()
        if isinstance(n, ast.Name):
            if cls is not None:
                try:
                    return cls.const(n.id)
                except KeyError:
                    pass
            return self.module_const(mod, n.id, depth)
        if isinstance(n, ast.Attribute) and isinstance(n.value, ast.Name):
            h = self.find_class(n.value.id, prefer=mod)
            if h is not None:
                try:
                    return h.const(n.attr)
                except KeyError:
                    raise Unsupported('no constant %s.%s' % (n.value.id, n.attr))
        if isinstance(n, ast.Call) and isinstance(n.func, ast.Attribute) and isinstance(n.func.value, ast.Name):
            key = (n.func.value.id, n.func.attr)
            if key in PURE_NATIVE and not n.keywords:
                return PURE_NATIVE[key](*[ce(a) for a in n.args])
        if isinstance(n, ast.IfExp):
            return ce(n.body) if ce(n.test) else ce(n.orelse)
        if isinstance(n, ast.Compare) and len(n.ops) == 1:
            a, b = ce(n.left), ce(n.comparators[0])
            if isinstance(n.ops[0], ast.Lt):
                return a < b
            if isinstance(n.ops[0], ast.Eq):
                return a == b
        raise Unsupported('not a constant expression: %s' % ast.unparse(n))

    def module_const(self, mod, name, depth=0):
        if name in mod._consts:
            return mod._consts[name]
        if name in mod.assigns:
            v = self.const_eval(mod.assigns[name], mod, None, depth + 1)
            mod._consts[name] = v
            return v
        if name in mod.classes:
            return self.class_handle(mod, name)         # a class of the module used as a value (eg. in a dispatch table)
        raise Unsupported('no module constant %s in %s' % (name, mod.rel))


def func_hash(mod, node):
    seg = ast.get_source_segment(mod.src.decode('utf-8', 'replace'), node) or ''
    return hashlib.sha256(seg.encode()).hexdigest()[:16]
