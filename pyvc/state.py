"""Symbolic execution state."""
import z3

from .vals import z3_false, z3_true


class St(object):
    __slots__ = ('pc', 'loc', 'heap', 'ghost', 'writes', 'out_n', 'out_arr', 'trace', 'env_used')

    def __init__(self):
        self.pc = []          # list of z3 Bool
        self.loc = {}         # locals
        self.heap = {}        # (ref id, field) -> value  | for 'rec': (present z3 Bool, value)
        self.ghost = {}       # ghost variables
        self.writes = []      # heap writes performed so far: (ref id, field, line)
        self.out_n = None     # generator output: count (z3 Int)
        self.out_arr = None   # generator output: list of z3 arrays (one per tuple component)
        self.trace = []       # branch trace (line numbers / labels) for reporting

    def clone(self):
        s = St.__new__(St)
        s.pc = list(self.pc)
        s.loc = dict(self.loc)
        s.heap = dict(self.heap)
        s.ghost = dict(self.ghost)
        s.writes = list(self.writes)
        s.out_n = self.out_n
        s.out_arr = None if self.out_arr is None else list(self.out_arr)
        s.trace = list(self.trace)
        return s

    def assume(self, cond, label=None):
        """returns a new state with cond added, or None if cond is syntactically false"""
        c = z3.simplify(cond) if not isinstance(cond, bool) else z3.BoolVal(cond)
        if z3.is_false(c):
            return None
        s = self.clone()
        if not z3.is_true(c):
            s.pc.append(cond)
        if label is not None:
            s.trace.append(label)
        return s


_solver_cache = {}


def feasible(st, timeout_ms=300):
    """quick check; unknown counts as feasible (pruning is an optimisation, never a proof step)"""
    s = z3.Solver()
    s.set('timeout', timeout_ms)
    s.add(*st.pc)
    r = s.check()
    return r != z3.unsat
