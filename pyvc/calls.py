"""Calls: builtin models, methods on values, callee contracts, inlining of trivial helpers."""
import ast

import z3

from .vals import (V, IntV, BoolV, NoneV, NONE, ConstV, TupV, SeqV, ListV, PyListV, RefV, UnionV, OpaqueV,
                   FuncV, ExcV, Unsupported, IntSeq, USort, is_exc)
from .pure import (truthy, to_int, is_intlike, lift, const_of, fresh, mk_union, equal, seq_lit, lift_seq_const,
                   py_floordiv, py_mod, SetV, PureEval)
from .repoidx import ClassHandle

STRUCT_FMT = {  # format -> (size, signed, little-endian)
    'B': (1, False, True), 'b': (1, True, True), '<H': (2, False, True), '<h': (2, True, True),
    '<I': (4, False, True), '<i': (4, True, True), '<Q': (8, False, True), '<q': (8, True, True),
    '>H': (2, False, False), '>h': (2, True, False), '>I': (4, False, False), '>i': (4, True, False),
    '<B': (1, False, True), '<b': (1, True, True),
}


def pack_int(fmt, x):
    """T2: struct.pack(fmt, x) as a z3 Seq(Int) of bytes, plus the in-range condition"""
    size, signed, little = STRUCT_FMT[fmt]
    bits = 8 * size
    lo, hi = (-(2 ** (bits - 1)), 2 ** (bits - 1) - 1) if signed else (0, 2 ** bits - 1)
    ok = z3.And(x >= lo, x <= hi)
    u = x % z3.IntVal(2 ** bits)           # two's complement
    bs = [(u / z3.IntVal(256 ** i)) % 256 for i in range(size)]
    if not little:
        bs = list(reversed(bs))
    us = [z3.Unit(b) for b in bs]
    return (us[0] if len(us) == 1 else z3.Concat(*us)), ok


class CallMixin(object):

    def parse_cached(self, text):
        """parsed expression texts are kept alive: the unparse cache is keyed by node identity"""
        if not hasattr(self, '_parsed'):
            self._parsed = {}
        if text not in self._parsed:
            self._parsed[text] = ast.parse(text, mode='eval').body
        return self._parsed[text]

    def ev_Call(self, n, st):
        # keyword / positional argument evaluation
        if sum(1 for k in n.keywords if k.arg is None) > 1:
            raise Unsupported('several **kwargs in a call at line %d' % n.lineno)
        if any(isinstance(a, ast.Starred) for a in n.args):
            yield from self.ev_Call_starred(n, st)
            return
        # super( C, self ).m( ... )
        if isinstance(n.func, ast.Attribute) and isinstance(n.func.value, ast.Call) and \
                isinstance(n.func.value.func, ast.Name) and n.func.value.func.id == 'super':
            yield from self.call_super(n, st)
            return
        for s, f in self.ev(n.func, st):
            if is_exc(f):
                yield s, f
                continue
            nodes = list(n.args) + [k.value for k in n.keywords]
            for s2, vs in self.evs(nodes, s):
                if is_exc(vs):
                    yield s2, vs
                    continue
                args = vs[:len(n.args)]
                kw = dict((k.arg if k.arg is not None else '**', v) for k, v in zip(n.keywords, vs[len(n.args):]))
                for s3, ff in self.split(s2, f):
                    if '**' in kw and not self.accepts_starstar(ff):
                        raise Unsupported('**kwargs call of a function without a sidecar callee model at line %d' % n.lineno)
                    yield from self.call(ff, args, kw, s3, n)

    def ev_Call_starred(self, n, st):
        """`f(a, *t, b)` where every starred value is a tuple of known length: the call with the tuple's items spliced in"""
        from .vals import TupV
        if isinstance(n.func, ast.Attribute) and isinstance(n.func.value, ast.Call) and isinstance(n.func.value.func, ast.Name) and n.func.value.func.id == 'super':
            raise Unsupported('*args in a super() call at line %d' % n.lineno)
        for s, f in self.ev(n.func, st):
            if is_exc(f):
                yield s, f
                continue
            nodes = [a.value if isinstance(a, ast.Starred) else a for a in n.args] + [k.value for k in n.keywords]
            for s2, vs in self.evs(nodes, s):
                if is_exc(vs):
                    yield s2, vs
                    continue
                args = []
                for a, v in zip(n.args, vs[:len(n.args)]):
                    if isinstance(a, ast.Starred):
                        if not isinstance(v, TupV):
                            raise Unsupported('*args of %r at line %d (only tuples of known length)' % (v, n.lineno))
                        args.extend(v.items)
                    else:
                        args.append(v)
                kw = dict((k.arg if k.arg is not None else '**', v) for k, v in zip(n.keywords, vs[len(n.args):]))
                for s3, ff in self.split(s2, f):
                    if '**' in kw and not self.accepts_starstar(ff):
                        raise Unsupported('**kwargs call of a function without a sidecar callee model at line %d' % n.lineno)
                    yield from self.call(ff, args, kw, s3, n)

    def accepts_starstar(self, f):
        """`f(**mapping)`: only for callees modelled by a sidecar callable (it receives the mapping value under the key '**')"""
        if not isinstance(f, FuncV) or callable(f.impl):
            return False
        impl = f.impl
        if impl[0] == 'method':
            names = ('%s.%s' % (impl[2].name, impl[3].name), impl[3].name)
        elif impl[0] == 'classfn':
            names = ('%s.%s' % (impl[1].name, impl[3].name), '%s.%s' % (impl[2].name, impl[3].name), impl[3].name)
        elif impl[0] == 'repofn':
            names = (impl[2].name,)
        else:
            return False
        c = next((self.spec.callees[k] for k in names if k in self.spec.callees), None)
        return c is not None and not hasattr(c, 'params')

    def call(self, f, args, kw, st, n):
        line = getattr(n, 'lineno', None)
        if not isinstance(f, FuncV):
            if isinstance(f, ConstV) and isinstance(f.py, ClassHandle):
                yield from self.construct(f.py, args, kw, st, n)
                return
            if isinstance(f, ConstV) and isinstance(f.py, TypeName) and hasattr(self, 'bi_' + f.py.name):
                yield from getattr(self, 'bi_' + f.py.name)(args, kw, st, n)
                return
            raise Unsupported('call of %r at line %s' % (f, line))
        impl = f.impl
        if callable(impl):
            yield from impl(args, kw, st, n)
            return
        tag = impl[0]
        if tag == 'builtin':
            yield from getattr(self, 'bi_' + impl[1])(args, kw, st, n)
        elif tag == 'valmethod':
            yield from self.value_method(impl[1], impl[2], args, kw, st, n)
        elif tag == 'modfn':
            yield from self.module_function(impl[1], impl[2], args, kw, st, n)
        elif tag == 'lambda':
            lam, env = impl[1], impl[2]
            sub = st.clone()
            saved = sub.loc
            sub.loc = dict(env)
            names = [a.arg for a in lam.args.args]
            for nm, a in zip(names, args):
                sub.loc[nm] = a
            for nm, a in kw.items():
                sub.loc[nm] = a
            for s2, v in self.ev(lam.body, sub):
                s2.loc = saved
                yield s2, v
        elif tag in ('method', 'classfn', 'repofn'):
            yield from self.call_repo(f, impl, args, kw, st, n)
        else:
            raise Unsupported('call form %s at line %s' % (tag, line))

    # ---------------------------------------------------------------- repository functions
    def simple_helper(self, fdef):
        bad = (ast.For, ast.While, ast.Yield, ast.YieldFrom, ast.Try, ast.With, ast.FunctionDef, ast.Lambda, ast.ClassDef, ast.Global, ast.Nonlocal,
               ast.ListComp, ast.GeneratorExp, ast.DictComp, ast.SetComp)
        if fdef.decorator_list or fdef.args.vararg or fdef.args.kwarg:
            return False
        n = 0
        for x in ast.walk(fdef):
            if x is not fdef and isinstance(x, bad):
                return False
            n += isinstance(x, ast.stmt)
        return n <= 25

    def call_repo(self, f, impl, args, kw, st, n):
        """a function/method of the repository: by contract if one is registered, inlined if the
        caller's spec lists it under `inline`, else unsupported"""
        tag = impl[0]
        if tag == 'method':
            _, obj, cls, fdef = impl
            qual = '%s.%s' % (cls.name, fdef.name)
            recv = obj
        elif tag == 'classfn':
            _, ch, cls, fdef = impl
            qual = '%s.%s' % (cls.name, fdef.name)
            recv = ConstV(ch)
            is_static = any(isinstance(d, ast.Name) and d.id == 'staticmethod' for d in fdef.decorator_list)
            if is_static:
                recv = None
        else:
            _, mod, fdef = impl
            qual = fdef.name
            cls = None
            recv = None
        short = fdef.name
        callee = None
        if tag == 'classfn':
            # contract keyed by the *static* class the call names (e.g. route_path.produce) takes precedence
            callee = self.spec.callees.get('%s.%s' % (impl[1].name, fdef.name))
        if callee is None:
            callee = self.spec.callees.get(qual) or self.spec.callees.get(short)
        if callee is not None:
            if not hasattr(callee, 'params'):
                self.called.add('custom:' + qual)
                yield from callee(self, recv, args, kw, st, n)       # sidecar model of an assumed contract
                return
            yield from self.apply_contract(callee, recv, args, kw, st, n, qual)
            return
        if qual in self.spec.inline or short in self.spec.inline or '%s.%s' % (getattr(impl[1], 'name', ''), short) in self.spec.inline:
            yield from self.inline_call(fdef, cls, recv, args, kw, st, n)
            return
        if tag == 'repofn' and self.simple_helper(fdef) and getattr(self, '_auto_depth', 0) < 3:
            # a small module-level helper without a contract (typically code factored out of the function under contract): executed as the
            # real code it is.  Only straight-line / branching bodies; anything with loops, generators, try or nested scopes needs a contract.
            self._auto_depth = getattr(self, '_auto_depth', 0) + 1
            try:
                self.inlined.add(qual + ' (auto)')
                yield from self.inline_call(fdef, cls, recv, args, kw, st, n)
            finally:
                self._auto_depth -= 1
            return
        raise Unsupported('call of %s at line %s: callee has no contract and is not listed for inlinin'
                          % (qual, getattr(n, 'lineno', '?')))

    def bind_args(self, fdef, recv, args, kw, line):
        names = [a.arg for a in fdef.args.args]
        defaults = fdef.args.defaults
        vals = {}
        pos = list(args)
        if recv is not None:
            pos = [recv] + pos
        for nm, a in zip(names, pos):
            vals[nm] = a
        if len(pos) > len(names):
            raise Unsupported('too many positional arguments at line %s' % line)
        for k, v in kw.items():
            if k not in names:
                raise Unsupported('unknown keyword %s at line %s' % (k, line))
            vals[k] = v
        nd = len(defaults)
        for i, d in enumerate(defaults):
            nm = names[len(names) - nd + i]
            if nm not in vals:
                vals[nm] = lift(self.repo.const_eval(d, self.mod, None))
        for nm in names:
            if nm not in vals:
                raise Unsupported('missing argument %s at line %s' % (nm, line))
        return vals

    def inline_call(self, fdef, cls, recv, args, kw, st, n):
        self.inlined.add(fdef.name)
        vals = self.bind_args(fdef, recv, args, kw, getattr(n, 'lineno', None))
        sub = st.clone()
        saved = sub.loc
        sub.loc = vals
        saved_cls = self.cls
        if cls is not None:
            self.cls = cls
        try:
            for s2, out in self.ex(fdef.body, sub):
                s2 = s2.clone()
                s2.loc = saved
                if out[0] == 'return':
                    yield s2, out[1]
                elif out[0] == 'next':
                    yield s2, NONE
                elif out[0] == 'raise':
                    yield s2, out[1]
                else:
                    raise Unsupported('break/continue escaping an inlined call')
        finally:
            self.cls = saved_cls

    def apply_contract(self, callee, recv, args, kw, st, n, qual):
        """modular call: assert requires, havoc result, assume ensures; `raises` clauses fork"""
        line = getattr(n, 'lineno', None)
        bind = callee.hints.get('bind')
        if bind and not kw.get('__bound__'):
            # env-style contract: its ghost parameters are the values of access paths of the
            # callee's formals; evaluate those paths on the actual arguments in the caller's state
            formals = callee.hints['formals']
            actuals = ([recv] if recv is not None else []) + list(args)
            for k2, v2 in kw.items():
                actuals.append(v2)
            sub = st.clone()
            saved = sub.loc
            sub.loc = dict(zip(formals, actuals))
            items = list(bind.items())

            def go(i, s, acc):
                if i == len(items):
                    yield s, acc
                    return
                nm, text = items[i]
                node = self.parse_cached(text)
                for s2, v in self.ev(node, s):
                    if is_exc(v):
                        raise Unsupported('binding %s of contract %s raises %s' % (nm, callee.name, v.cls))
                    yield from go(i + 1, s2, dict(acc, **{nm: v}))
            for s2, acc in go(0, sub, {}):
                s2 = s2.clone()
                s2.loc = saved
                yield from self.apply_contract(callee, recv, [acc[k] for k in callee.params], {'__bound__': True}, s2, n, qual)
            return
        kw = dict((k, v) for k, v in kw.items() if k != '__bound__')
        names = list(callee.params.keys())
        vals = {}
        pos = list(args)
        if callee.self_name is not None:
            vals[callee.self_name] = recv
        for nm, a in zip(names, pos):
            vals[nm] = a
        for k, v in kw.items():
            vals[k] = v
        for nm in names:
            if nm not in vals:
                dflt = callee.hints.get('defaults', {}).get(nm, '__missing__')
                if dflt == '__missing__':
                    raise Unsupported('missing argument %s for contract %s at line %s' % (nm, callee.name, line))
                vals[nm] = lift(dflt)
        self.called.add(callee.name)
        # unions in arguments: fork so that the contract sees definite tags
        for nm in names:
            v = vals[nm]
            if isinstance(v, UnionV):
                for s2, a in self.split(st, v):
                    vals2 = dict(vals)
                    vals2[nm] = a
                    args2 = [vals2[x] for x in names]
                    yield from self.apply_contract(callee, recv, args2, {}, s2, n, qual)
                return
        ns = dict(vals)
        for nm in names:
            v = ns[nm]
            if isinstance(v, RefV) and v.kind == 'list':
                ns[nm] = st.heap[(v.id, 'val')]
        for k, v in self.init_vals.items():
            if k.startswith('_g_'):
                ns.setdefault(k, v)
        unpack = callee.hints.get('unpack')
        if unpack is not None:
            ns.update(unpack(vals))
        if isinstance(recv, RefV) and recv.kind == 'obj':
            ns['self'] = recv
            for (rid, f), fv in list(st.heap.items()):
                if rid == recv.id:
                    ns['old(self.%s)' % f] = self.deref_for_contract(fv, st)
        st_pre = st

        def old_eval(node):
            return PureEval(dict(ns), defs=callee.defs, funcs=self.contract_funcs(st_pre)).ev(node)
        pe = PureEval(ns, defs=callee.defs, funcs=self.contract_funcs(st), old_eval=old_eval)
        req = pe.boolean(callee.requires)
        self.add_oblig('pre[%s @ line %s]' % (callee.name, line), 'pre', st, req, pe.facts, line=line)
        st = st.clone()
        st.pc.extend(pe.facts)
        st.pc.append(req)
        # exceptional exits
        rest = st
        for cls_name, cond in (callee.raises.items() if not (callee.refuses or callee.accepts) or callee.hints.get('raises_exact') else []):
            pe2 = PureEval(ns, defs=callee.defs, funcs=self.contract_funcs(st), old_eval=old_eval)
            c = pe2.boolean(cond)
            rest2 = None
            for s2, t in self.fork(rest, c):
                if t:
                    yield s2, ExcV(cls_name, 'raised by %s' % callee.name, line)
                else:
                    rest2 = s2
            if rest2 is None:
                return
            rest = rest2
        st = rest
        if (callee.refuses or callee.accepts) and not callee.hints.get('raises_exact'):
            # the contract does not characterise the raise condition exactly: it may raise (with one
            # of the declared classes) unless an `accepts` clause holds, and must raise when a
            # `refuses` clause holds
            pe2 = PureEval(ns, defs=callee.defs, funcs=self.contract_funcs(st), old_eval=old_eval)
            raised = fresh('raised_' + callee.name.split('/')[-1], 'Bool')
            st = st.clone()
            for _, text in callee.refuses:
                st.pc.append(z3.Implies(pe2.boolean(text), raised))
            for _, text in callee.accepts:
                st.pc.append(z3.Implies(pe2.boolean(text), z3.Not(raised)))
            st.pc.extend(pe2.facts)
            nxt = None
            for s2, t in self.fork(st, raised):
                if t:
                    for cls_name in (callee.raises or {'Exception': 'True'}):
                        yield s2, ExcV(cls_name, 'raised by %s' % callee.name, line)
                else:
                    nxt = s2
            if nxt is None:
                return
            st = nxt
        # frame: havoc exactly what the callee may modify
        if callee.modifies:
            st = st.clone()
            for path in callee.modifies:
                parts = path.split('.')
                if parts[0] != 'self' or len(parts) != 2 or not isinstance(recv, RefV):
                    raise Unsupported('callee modifies clause %r' % path)
                cur = st.heap[(recv.id, parts[1])]
                if isinstance(cur, RefV) and cur.kind == 'list' and self.spec.hints.get('havoc_list') is not None \
                        and self.spec.hints['havoc_list'](self, st, cur, parts[1]):
                    if cur.id in self.tracked_refs or recv.id in self.tracked_refs:
                        st.writes.append((cur.id, 'val', line))
                elif isinstance(cur, RefV) and cur.kind == 'list':
                    st.heap[(cur.id, 'val')] = self.havoc_value(self.deref_for_contract(cur, st), parts[1])
                    if cur.id in self.tracked_refs or recv.id in self.tracked_refs:
                        st.writes.append((cur.id, 'val', line))
                elif isinstance(cur, RefV) and cur.kind == 'iter':
                    # the iterator object may be advanced or replaced: some iterator at some position
                    nid = self.new_id()
                    nseq = fresh(parts[1] + '.seq', IntSeq)
                    npos = fresh(parts[1] + '.pos')
                    st.heap[(nid, 'seq')] = SeqV(nseq, 'list')
                    st.heap[(nid, 'pos')] = IntV(npos)
                    st.pc += [npos >= 0, npos <= z3.Length(nseq)]
                    st.heap[(recv.id, parts[1])] = RefV(nid, 'iter')
                    if recv.id in self.tracked_refs:
                        st.writes.append((recv.id, parts[1], line))
                else:
                    st.heap[(recv.id, parts[1])] = self.havoc_value(cur, parts[1])
                    if recv.id in self.tracked_refs:
                        st.writes.append((recv.id, parts[1], line))
        # result
        if callee.yields is not None:
            # a generator: the result is an abstract list of its yields
            res, st = self.fresh_gen_list(callee, st)
        else:
            res, st = self.fresh_of_sort(callee.returns or 'Opaque', 'ret_' + callee.name.split('/')[-1], st)
        ns2 = dict(ns)
        for nm in names:
            ns2['old(%s)' % nm] = ns[nm]
        ns2['result'] = res
        st = st.clone()
        if callee.yields is not None:
            # caller's view of a generator contract, derived mechanically from the callee-side text:
            # ghost trajectory g(0) = init, for every j < m: yield_ensures[g(j), v = P[j]] and
            # g(j+1) = on_yield[g(j), P[j]]; ensures[g(m), NOUT = m]
            traj = {}
            for g, (sort, init) in callee.ghost.items():
                if sort != 'Int':
                    raise Unsupported('generator callee %s: ghost %s of sort %s has no caller view' % (callee.name, g, sort))
                traj[g] = z3.Function('%s_%s!%d' % (callee.name.split('/')[-1], g, next(self._ids)), z3.IntSort(), z3.IntSort())
            pe0 = PureEval(dict(ns2), defs=callee.defs, funcs=self.contract_funcs(st))
            for g, (sort, init) in callee.ghost.items():
                st.pc.append(traj[g](0) == to_int(pe0.text(init)))
            j = fresh('tj')
            nsj = dict(ns2)
            for g in traj:
                nsj[g] = IntV(traj[g](j))
            nsj['v'] = res.get(j)
            nsj['NOUT'] = IntV(j)
            pej = PureEval(nsj, defs=callee.defs, funcs=self.contract_funcs(st))
            body = [pej.boolean(t) for _, t in callee.yield_ensures]
            for g, text in callee.on_yield:
                body.append(traj[g](j + 1) == to_int(pej.text(text)))
            for g in traj:
                if g not in dict(callee.on_yield):
                    body.append(traj[g](j + 1) == traj[g](j))
            if pej.facts:
                raise Unsupported('generator callee view with definitional facts')
            if body:
                st.pc.append(z3.ForAll([j], z3.Implies(z3.And(0 <= j, j < res.n), z3.And(*body))))
            for g in traj:
                ns2[g] = IntV(traj[g](res.n))
            ns2['NOUT'] = IntV(res.n)
            res.traj = traj
        pe3 = PureEval(ns2, defs=callee.defs, funcs=self.contract_funcs(st), old_eval=old_eval)
        for label, text in callee.ensures:
            st.pc.append(pe3.boolean(text))
        st.pc.extend(pe3.facts)
        yield st, res

    def fresh_gen_list(self, callee, st):
        arity = callee.yields
        n = fresh('m_' + callee.name.split('/')[-1])
        arrs = [z3.Function('%s!%d' % ('y', next(self._ids)), z3.IntSort(), z3.IntSort()) for _ in range(arity)]
        st = st.clone()
        st.pc.append(n >= 0)
        if arity == 1:
            get = lambda i: IntV(arrs[0](i))
        else:
            get = lambda i: TupV([IntV(a(i)) for a in arrs])
        return ListV(n, get, tag='yields of ' + callee.name), st

    # ---------------------------------------------------------------- super
    def call_super(self, n, st):
        sup = n.func.value
        if len(sup.args) != 2 or not isinstance(sup.args[0], ast.Name):
            raise Unsupported('super() form at line %d' % n.lineno)
        ch = self.repo.find_class(sup.args[0].id, prefer=self.mod)
        for s, recv in self.ev(sup.args[1], st):
            if is_exc(recv):
                yield s, recv
                continue
            mro = None
            if isinstance(recv, RefV) and recv.cls is not None:
                mro = recv.cls.mro()
            elif isinstance(recv, ConstV) and isinstance(recv.py, ClassHandle):
                mro = recv.py.mro()
            if mro is None or ch is None:
                raise Unsupported('super() receiver at line %d' % n.lineno)
            names = [c.name for c in mro]
            after = mro[names.index(ch.name) + 1:] if ch.name in names else ch.mro()[1:]
            target = None
            for c in after:
                for sdef in c.node.body:
                    if isinstance(sdef, ast.FunctionDef) and sdef.name == n.func.attr:
                        target = (c, sdef)
                        break
                if target:
                    break
            if target is None:
                hook = self.spec.hints.get('super_builtin')
                if hook is not None:
                    # a method of a base class outside the repository (dict, deque ...): sidecar model
                    nodes = list(n.args) + [k.value for k in n.keywords]
                    for s2, vs in self.evs(nodes, s):
                        if is_exc(vs):
                            yield s2, vs
                            continue
                        yield from hook(self, recv, n.func.attr, vs[:len(n.args)], s2, n)
                    continue
                raise Unsupported('super().%s not found at line %d' % (n.func.attr, n.lineno))
            c, sdef = target
            nodes = list(n.args) + [k.value for k in n.keywords]
            for s2, vs in self.evs(nodes, s):
                if is_exc(vs):
                    yield s2, vs
                    continue
                args = vs[:len(n.args)]
                kw = dict((k.arg, v) for k, v in zip(n.keywords, vs[len(n.args):]))
                tag = 'method' if isinstance(recv, RefV) else 'classfn'
                impl = (tag, recv if tag == 'method' else recv.py, c, sdef)
                yield from self.call_repo(None, impl, args, kw, s2, n)

    def construct(self, ch, args, kw, st, n):
        hook = self.spec.hints.get('construct', {}).get(ch.name)
        if hook is not None:
            yield from hook(self, ch, args, kw, st, n)
            return
        raise Unsupported('construction of %s at line %s' % (ch.name, getattr(n, 'lineno', '?')))

    # ---------------------------------------------------------------- module functions
    def module_function(self, mod, name, args, kw, st, n):
        line = getattr(n, 'lineno', None)
        model = self.spec.callees.get('%s.%s' % (mod, name))
        if model is not None and callable(model) and not hasattr(model, 'params'):
            yield from model(self, None, args, kw, st, n)          # sidecar model of a function of another module
            return
        if mod == 'struct' and name == 'pack':
            fmt = args[0]
            if not (isinstance(fmt, ConstV) and fmt.py in STRUCT_FMT) or len(args) != 2:
                raise Unsupported('struct.pack format %r at line %s' % (fmt, line))
            for s, x in self.split(st, args[1]):
                if not is_intlike(x):
                    yield s, ExcV('struct.error', 'required argument is not an integer', line)
                    continue
                seq, ok = pack_int(fmt.py, to_int(x))
                for s2, t in self.fork(s, ok):
                    if t:
                        yield s2, SeqV(seq, 'bytes')
                    else:
                        yield s2, ExcV('struct.error', 'argument out of range', line)
            return
        if mod == 'struct' and name == 'calcsize':
            if isinstance(args[0], ConstV) and args[0].py in STRUCT_FMT:
                yield st, IntV(STRUCT_FMT[args[0].py][0])
                return
        if mod == 'random' and name == 'randint':
            a, b = to_int(args[0]), to_int(args[1])
            r = fresh('rand')
            s = st.clone()
            s.pc += [a <= r, r <= b]
            yield s, IntV(r)
            return
        raise Unsupported('%s.%s at line %s' % (mod, name, line))

    # ---------------------------------------------------------------- builtins
    def bi_len(self, args, kw, st, n):
        for s, a in self.split(st, args[0]):
            if isinstance(a, RefV) and a.kind == 'obj' and a.cls is not None:
                c, m = a.cls.find_method('__len__')
                if m is None:
                    yield s, ExcV('TypeError', 'object has no len()', getattr(n, 'lineno', None))
                else:
                    yield from self.call_repo(None, ('method', a, c, m), [], {}, s, n)
                continue
            a = self.deref_list(a, s)
            if isinstance(a, SeqV):
                yield s, IntV(z3.Length(a.t))
            elif isinstance(a, (TupV, PyListV)):
                yield s, IntV(len(a.items))
            elif isinstance(a, ListV):
                yield s, IntV(a.n)
            elif isinstance(a, ConstV) and hasattr(a.py, '__len__'):
                yield s, IntV(len(a.py))
            elif isinstance(a, (IntV, BoolV, NoneV)):
                yield s, ExcV('TypeError', 'len() of a scalar', getattr(n, 'lineno', None))
            else:
                raise Unsupported('len of %r at line %s' % (a, getattr(n, 'lineno', '?')))

    def len_hook(self, a, st):
        return None

    def bi_min(self, args, kw, st, n):
        yield from self.minmax(args, st, True, n)

    def bi_max(self, args, kw, st, n):
        yield from self.minmax(args, st, False, n)

    def minmax(self, args, st, is_min, n):
        if len(args) < 2:
            raise Unsupported('min/max of an iterable')
        cur = [(st, [])]
        for a in args:
            nxt = []
            for s, acc in cur:
                for s2, x in self.split(s, a):
                    nxt.append((s2, acc + [x]))
            cur = nxt
        for s, xs in cur:
            if any(isinstance(x, NoneV) for x in xs):
                yield s, ExcV('TypeError', 'min/max with None', getattr(n, 'lineno', None))
                continue
            r = to_int(xs[0])
            for x in xs[1:]:
                t = to_int(x)
                r = z3.If(t < r, t, r) if is_min else z3.If(t > r, t, r)
            yield s, IntV(r)

    def bi_abs(self, args, kw, st, n):
        v = to_int(args[0])
        yield st, IntV(z3.If(v < 0, -v, v))

    def bi_bool(self, args, kw, st, n):
        for s, t in self.truth(st, args[0]):
            yield s, BoolV(t)

    def bi_int(self, args, kw, st, n):
        if not args:
            yield st, IntV(0)
            return
        for s, a in self.split(st, args[0]):
            if is_intlike(a):
                yield s, IntV(to_int(a))
            elif isinstance(a, SeqV) and a.kind in ('bytes', 'str') and len(args) == 1:
                yield from self.int_of_text(a, s, n)
            else:
                raise Unsupported('int(%r) at line %s' % (a, getattr(n, 'lineno', '?')))

    def bi_isinstance(self, args, kw, st, n):
        for s, a in self.split(st, args[0]):
            yield s, BoolV(self.isinstance_of(a, args[1], s, n))

    TYPE_TAGS = {
        'int': lambda v: is_intlike(v), 'bool': lambda v: isinstance(v, BoolV) or (isinstance(v, ConstV) and isinstance(v.py, bool)),
        'bytes': lambda v: isinstance(v, SeqV) and v.kind == 'bytes' or isinstance(v, ConstV) and isinstance(v.py, bytes),
        'bytearray': lambda v: isinstance(v, SeqV) and v.kind == 'bytearray',
        'str': lambda v: isinstance(v, SeqV) and v.kind == 'str' or isinstance(v, ConstV) and isinstance(v.py, str),
        'tuple': lambda v: isinstance(v, TupV) or isinstance(v, ConstV) and isinstance(v.py, tuple),
        'list': lambda v: isinstance(v, (PyListV, ListV)) or (isinstance(v, SeqV) and v.kind == 'list') or (isinstance(v, RefV) and v.kind == 'list'),
        'dict': lambda v: (isinstance(v, RefV) and v.kind == 'rec') or isinstance(v, ConstV) and isinstance(v.py, dict),
        'float': lambda v: False,
        'slice': lambda v: isinstance(v, ConstV) and isinstance(v.py, SliceV),
        'type_str_base': lambda v: isinstance(v, SeqV) and v.kind == 'str' or isinstance(v, ConstV) and isinstance(v.py, str),
    }

    def isinstance_of(self, a, t, st, n):
        if isinstance(t, TupV):
            return any(self.isinstance_of(a, x, st, n) for x in t.items)
        if isinstance(t, ConstV) and isinstance(t.py, TypeName):
            if isinstance(a, OpaqueV):
                raise Unsupported('isinstance of an opaque value')
            return bool(self.TYPE_TAGS[t.py.name](a))
        if isinstance(t, ConstV) and isinstance(t.py, ClassHandle):
            if isinstance(a, RefV) and a.cls is not None:
                return a.cls.is_subclass(t.py.name)
            return False
        raise Unsupported('isinstance(…, %r) at line %s' % (t, getattr(n, 'lineno', '?')))

    def bi_type(self, args, kw, st, n):
        for s, a in self.split(st, args[0]):
            hook = self.spec.hints.get('type_of')
            tn = hook(self, a) if hook is not None else None
            if tn is not None:
                yield s, ConstV(TypeName(tn))
                continue
            for nm in ('bool', 'int', 'bytes', 'bytearray', 'str', 'tuple', 'list', 'dict', 'slice'):
                if self.TYPE_TAGS[nm](a):
                    yield s, ConstV(TypeName(nm))
                    break
            else:
                if isinstance(a, NoneV):
                    yield s, ConstV(TypeName('NoneType'))
                else:
                    raise Unsupported('type(%r)' % (a,))

    def bi_hasattr(self, args, kw, st, n):
        a, nm = args
        if not (isinstance(nm, ConstV) and isinstance(nm.py, str)):
            raise Unsupported('hasattr with a symbolic name')
        for s, x in self.split(st, a):
            if isinstance(x, RefV) and x.kind == 'rec':
                if nm.py in ('get', 'setdefault', 'pop', 'items', 'keys'):
                    yield s, BoolV(True)
                else:
                    yield s, BoolV(self.rec_has(s, x, nm.py))
            elif isinstance(x, RefV) and x.kind == 'obj':
                ok = (x.id, nm.py) in s.heap or (x.cls is not None and (x.cls.find_method(nm.py)[1] is not None or x.cls.has_const(nm.py)))
                yield s, BoolV(bool(ok))
            elif isinstance(x, (SeqV, TupV, PyListV, ListV, IntV, BoolV, NoneV)) or (isinstance(x, RefV) and x.kind == 'list'):
                if nm.py in ('get', 'setdefault', 'items', 'keys', 'peek', 'sent', '__call__'):
                    yield s, BoolV(False)
                elif nm.py in ('__len__', '__iter__'):
                    yield s, BoolV(not isinstance(x, (IntV, BoolV, NoneV)))
                else:
                    raise Unsupported('hasattr(%r, %r)' % (x, nm.py))
            else:
                raise Unsupported('hasattr(%r, %r)' % (x, nm.py))

    def bi_tuple(self, args, kw, st, n):
        if not args:
            yield st, TupV([])
            return
        a = self.deref_list(args[0], st)
        if isinstance(a, (PyListV, TupV)):
            yield st, TupV(a.items)
            return
        if isinstance(a, SeqV) and a.kind == 'list':
            yield st, SeqV(a.t, 'tuple')          # a tuple of ints of symbolic length
            return
        raise Unsupported('tuple(%r)' % (a,))

    def bi_list(self, args, kw, st, n):
        if not args:
            yield self.new_list(st, PyListV([]))
            return
        a = self.deref_list(args[0], st)
        if isinstance(a, (PyListV, TupV)):
            yield self.new_list(st, PyListV(a.items))
            return
        if isinstance(a, SeqV):
            yield self.new_list(st, SeqV(a.t, 'list'))
            return
        raise Unsupported('list(%r)' % (a,))

    def bi_bytes(self, args, kw, st, n):
        yield from self.to_bytes(args, st, 'bytes', n)

    def bi_bytearray(self, args, kw, st, n):
        yield from self.to_bytes(args, st, 'bytearray', n)

    def to_bytes(self, args, st, kind, n):
        if not args:
            yield st, SeqV(z3.Empty(IntSeq), kind)
            return
        a = self.deref_list(args[0], st)
        if isinstance(a, SeqV) and a.kind in ('bytes', 'bytearray', 'list'):
            yield st, SeqV(a.t, kind)
            return
        if isinstance(a, ConstV) and isinstance(a.py, bytes):
            yield st, SeqV(seq_lit(list(a.py)), kind)
            return
        if isinstance(a, PyListV) and all(is_intlike(i) for i in a.items):
            yield st, SeqV(self.seq_of_items(a.items), kind)
            return
        raise Unsupported('%s(%r) at line %s' % (kind, a, getattr(n, 'lineno', '?')))

    def bi_range(self, args, kw, st, n):
        if len(args) == 1:
            lo, hi = z3.IntVal(0), to_int(args[0])
        elif len(args) == 2:
            lo, hi = to_int(args[0]), to_int(args[1])
        else:
            raise Unsupported('range with a step')
        cl, chh = const_of(lo), const_of(hi)
        if cl is not None and chh is not None and chh - cl <= 64:
            yield st, PyListV([IntV(i) for i in range(cl, chh)])
            return
        cnt = z3.If(hi > lo, hi - lo, z3.IntVal(0))
        yield st, ListV(cnt, lambda i: IntV(lo + i), tag='range')

    def bi_reversed(self, args, kw, st, n):
        a = self.deref_list(args[0], st)
        if isinstance(a, (PyListV, TupV)):
            yield st, PyListV(list(reversed(a.items)))
            return
        if isinstance(a, ListV):
            yield st, ListV(a.n, lambda i: a.get(a.n - 1 - i), tag='reversed ' + str(a.tag))
            return
        if isinstance(a, SeqV):
            r = fresh('rev', IntSeq)
            j = fresh('j')
            s = st.clone()
            s.pc.append(z3.Length(r) == z3.Length(a.t))
            s.pc.append(z3.ForAll([j], z3.Implies(z3.And(0 <= j, j < z3.Length(r)), r[j] == a.t[z3.Length(a.t) - 1 - j])))
            yield s, SeqV(r, 'list')
            return
        raise Unsupported('reversed(%r)' % (a,))

    def bi_map(self, args, kw, st, n):
        f, xs = args[0], self.deref_list(args[1], st)
        if not isinstance(xs, SeqV):
            raise Unsupported('map over %r' % (xs,))
        j = fresh('mj')
        yield from self.map_over(lambda s_: self.call(f, [IntV(xs.t[j])], {}, s_, n), st.clone(), j, xs, st, False, n)

    def bi_zip(self, args, kw, st, n):
        """zip of two finite abstract lists: the pairs up to the shorter length (the lazy evaluation order of zip is not modelled: only valid
        where the zipped things are side-effect free lists, or sidecar models of generators that say so)"""
        if len(args) != 2:
            raise Unsupported('zip of %d things' % len(args))
        a, b = [self.deref_list(x, st) for x in args]
        if not (isinstance(a, ListV) and isinstance(b, ListV)):
            raise Unsupported('zip of %r, %r' % (a, b))
        m = z3.If(a.n <= b.n, a.n, b.n)
        yield st, ListV(m, lambda i: TupV([a.get(i), b.get(i)]), tag='zip')

    def bi_sorted(self, args, kw, st, n):
        hook = self.spec.hints.get('sorted')
        if hook is None:
            raise Unsupported('sorted() without a model (hints["sorted"])')
        yield from hook(self, args, kw, st, n)

    def bi_iter(self, args, kw, st, n):
        a = self.deref_list(args[0], st)
        if isinstance(a, RefV) and a.kind == 'iter':
            yield st, a
            return
        if isinstance(a, PyListV) and all(is_intlike(i) for i in a.items):
            a = SeqV(self.seq_of_items(a.items), 'list')
        if isinstance(a, (SeqV, ListV)):
            s = st.clone()
            rid = self.new_id()
            s.heap[(rid, 'seq')] = a
            s.heap[(rid, 'pos')] = IntV(0)
            yield s, RefV(rid, 'iter')
            return
        if isinstance(a, (NoneV, IntV, BoolV)):
            yield st, ExcV('TypeError', 'object is not iterable', getattr(n, 'lineno', None))
            return
        raise Unsupported('iter(%r)' % (a,))

    def bi_next(self, args, kw, st, n):
        line = getattr(n, 'lineno', None)
        for s, a in self.split(st, args[0]):
            hook = self.spec.hints.get('next')
            r = hook(self, a, args, s, n) if hook is not None else None
            if r is not None:
                yield from r                      # sidecar model of an iterator / generator object
                continue
            if isinstance(a, RefV) and a.kind == 'iter':
                seq = s.heap[(a.id, 'seq')]
                pos = to_int(s.heap[(a.id, 'pos')])
                ln = z3.Length(seq.t) if isinstance(seq, SeqV) else seq.n
                for s2, more in self.fork(s, pos < ln):
                    if more:
                        s3 = s2.clone()
                        s3.heap[(a.id, 'pos')] = IntV(pos + 1)
                        if a.id in self.tracked_refs:
                            s3.writes.append((a.id, 'pos', line))
                        if isinstance(seq, SeqV):
                            yield s3, (SeqV(z3.SubSeq(seq.t, pos, 1), 'str') if seq.kind == 'str' else IntV(seq.t[pos]))
                        else:
                            yield s3, seq.get(pos)
                    elif len(args) > 1:
                        yield s2, args[1]
                    else:
                        yield s2, ExcV('StopIteration', '', line)
            elif isinstance(a, RefV) and a.kind == 'obj' and a.cls is not None:
                c, m = a.cls.find_method('__next__')
                if m is None:
                    raise Unsupported('next() of %r' % (a,))
                yield from self.call_repo(None, ('method', a, c, m), [], {}, s, n)
            else:
                raise Unsupported('next(%r) at line %s' % (a, line))

    def bi_str(self, args, kw, st, n):
        a = args[0]
        if isinstance(a, SeqV) and a.kind == 'str':
            yield st, a
            return
        if is_intlike(a):
            digs = self.digits(to_int(a))
            s = st.clone()
            s.pc.extend(self.digit_facts)
            self.digit_facts = []
            yield s, SeqV(digs, 'str')
            return
        if isinstance(a, ConstV) and isinstance(a.py, str):
            yield st, a
            return
        raise Unsupported('str(%r)' % (a,))

    def bi_repr(self, args, kw, st, n):
        for s, a in self.split(st, args[0]):
            if isinstance(a, BoolV):
                for s2, t in self.fork(s, a.t):
                    yield s2, ConstV('True' if t else 'False')
            elif isinstance(a, ConstV) and isinstance(a.py, (bool, int, str)):
                yield s, ConstV(repr(a.py))
            else:
                raise Unsupported('repr(%r)' % (a,))

    def bi_dict(self, args, kw, st, n):
        if not args:
            yield self.new_rec(st, dict(kw), closed=True)
            return
        raise Unsupported('dict(...) with positional arguments')

    def bi_dotdict(self, args, kw, st, n):
        if not args:
            yield self.new_rec(st, dict(kw), closed=True)
            return
        a = args[0]
        if isinstance(a, RefV) and a.kind == 'rec' and not kw:
            keys = st.heap.get((a.id, '__keys__'), ())
            flds = {}
            for k in keys:
                p, v = st.heap[(a.id, k)]
                if not z3.is_true(z3.simplify(p)):
                    raise Unsupported('dotdict(copy) of a record with optional fields')
                flds[k] = v
            yield self.new_rec(st, flds, closed=True)
            return
        raise Unsupported('dotdict(%r)' % (a,))

    def bi_slice(self, args, kw, st, n):
        vs = list(args)
        if len(vs) == 1:
            vs = [NONE, vs[0], NONE]
        elif len(vs) == 2:
            vs = vs + [NONE]
        yield st, ConstV(SliceV(*vs))

    # ---- T2 axioms: decimal text of an integer
    def digits(self, x):
        """str(x) as an uninterpreted Seq(Int) with the T2 axioms"""
        if not hasattr(self, '_dig'):
            self._dig = z3.Function('digits', z3.IntSort(), IntSeq)
            self._undig = z3.Function('undigits', IntSeq, z3.IntSort())
            self.digit_facts = []
        cx = const_of(x)
        if cx is not None:
            return seq_lit([ord(c) for c in str(cx)])           # decimal text of a literal
        d = self._dig(x)
        j = fresh('dj')
        self.digit_facts += [
            z3.Length(d) >= 1,
            self._undig(d) == x,
            z3.ForAll([j], z3.Implies(z3.And(0 <= j, j < z3.Length(d)),
                                      z3.Or(z3.And(d[j] >= 48, d[j] <= 57), z3.And(j == 0, d[j] == 45, x < 0)))),
            z3.Implies(x >= 0, z3.And(d[0] >= 48, d[0] <= 57)),
            z3.Not(z3.Contains(d, z3.Unit(z3.IntVal(58)))),        # no ':' in decimal text (consequence of the above)
        ]
        return d

    def int_of_text(self, a, st, n):
        """int(text): defined (T2) only as the inverse of digits(); any other text is unsupported
        unless the contract provides `hints['int_text']`"""
        if not hasattr(self, '_dig'):
            self.digits(z3.IntVal(0))
            self.digit_facts = []
        hook = self.spec.hints.get('int_text')
        if hook is not None:
            yield from hook(self, a, st, n)
            return
        yield st, IntV(self._undig(a.t))

    # ---------------------------------------------------------------- methods on values
    def value_method(self, recv, name, args, kw, st, n):
        line = getattr(n, 'lineno', None)
        recv0 = recv
        hook = self.spec.hints.get('value_method')
        if hook is not None:
            r = hook(self, recv, name, args, kw, st, n)
            if r is not None:
                yield from r
                return
        if isinstance(recv, RefV) and recv.kind == 'rec':
            yield from self.rec_method(recv, name, args, kw, st, n)
            return
        if isinstance(recv, RefV) and recv.kind == 'list':
            yield from self.list_method(recv, name, args, kw, st, n)
            return
        if isinstance(recv, ConstV) and isinstance(recv.py, dict):
            if name == 'get':
                k = args[0]
                dflt = args[1] if len(args) > 1 else NONE
                if isinstance(k, ConstV):
                    yield st, (lift(recv.py[k.py]) if k.py in recv.py else dflt)
                    return
                kk = to_int(k)
                keys = [x for x in recv.py if isinstance(x, int)]
                alts = [(kk == x, lift(recv.py[x])) for x in keys]
                alts.append((z3.And(*[kk != x for x in keys]) if keys else z3.BoolVal(True), dflt))
                yield st, mk_union(alts)
                return
            if name == 'items':
                yield st, ConstV(tuple(recv.py.items()))
                return
            if name == 'keys':
                yield st, ConstV(tuple(recv.py.keys()))
                return
        if isinstance(recv, ConstV) and isinstance(recv.py, (bytes, str)) and name in ('lower', 'upper', 'strip', 'encode', 'decode', 'startswith', 'endswith') \
                and all(isinstance(a, ConstV) for a in args) and not kw:
            try:
                yield st, lift(getattr(recv.py, name)(*[a.py for a in args]))       # constant folding
            except Exception as e:
                yield st, ExcV(type(e).__name__, str(e), line)
            return
        if isinstance(recv, ConstV) and isinstance(recv.py, (bytes, str)):
            if name == 'join':
                yield from self.join(recv, args[0], st, n)
                return
            if name == 'encode' and isinstance(recv.py, str):
                yield st, lift(recv.py.encode(args[0].py if args else 'utf-8'))
                return
            if name == 'format':
                hook = self.spec.hints.get('str_format')
                if hook is None:
                    raise Unsupported('str.format at line %s' % line)
                yield from hook(self, recv.py, args, kw, st, n)
                return
            recv = lift_seq_const(recv.py)
        if isinstance(recv, SeqV):
            yield from self.seq_method(recv, name, args, kw, st, n)
            return
        if isinstance(recv, ConstV) and isinstance(recv.py, SliceV) and name == 'indices':
            yield from self.slice_indices(recv.py, args[0], st, n)
            return
        raise Unsupported('method .%s on %r at line %s' % (name, recv0, line))

    def rec_method(self, ref, name, args, kw, st, n):
        line = getattr(n, 'lineno', None)
        if name in ('get', 'setdefault', 'pop'):
            k = args[0]
            if not (isinstance(k, ConstV) and isinstance(k.py, str)):
                raise Unsupported('record .%s with a symbolic key at line %s' % (name, line))
            key = k.py
            dflt = args[1] if len(args) > 1 else NONE
            if (ref.id, key) in st.heap:
                present, val = st.heap[(ref.id, key)]
            elif st.heap.get((ref.id, '__closed__'), False):
                present, val = z3.BoolVal(False), NONE
            else:
                raise Unsupported('record field %r is not in the declared schema (line %s)' % (key, line))
            for s, ok in self.fork(st, present):
                if ok:
                    if name == 'pop':
                        s = s.clone()
                        s.heap[(ref.id, key)] = (z3.BoolVal(False), NONE)
                        if ref.id in self.tracked_refs:
                            s.writes.append((ref.id, key, line))
                    yield s, val
                else:
                    if name == 'setdefault':
                        s = self.rec_set(s, ref, key, dflt, line)
                    if name == 'pop' and len(args) < 2:
                        yield s, ExcV('KeyError', key, line)
                    else:
                        yield s, dflt
            return
        if name == 'items':
            keys = st.heap.get((ref.id, '__keys__'))
            if keys is None or not st.heap.get((ref.id, '__closed__'), False):
                raise Unsupported('.items() of an open record')
            items = []
            for k in keys:
                p, v = st.heap[(ref.id, k)]
                if not z3.is_true(z3.simplify(p)):
                    raise Unsupported('.items() of a record with optional fields')
                items.append(TupV([ConstV(k), v]))
            yield st, PyListV(items)
            return
        if name == 'update' and len(args) == 1 and isinstance(args[0], RefV) and args[0].kind == 'rec':
            src = args[0]
            keys = st.heap.get((src.id, '__keys__'), ())
            s = st
            for k in keys:
                p, v = st.heap[(src.id, k)]
                if not z3.is_true(z3.simplify(p)):
                    raise Unsupported('.update() from a record with optional fields')
                s = self.rec_set(s, ref, k, v, line)
            yield s, NONE
            return
        raise Unsupported('record method .%s at line %s' % (name, line))

    def list_method(self, ref, name, args, kw, st, n):
        line = getattr(n, 'lineno', None)
        cur = st.heap[(ref.id, 'val')]

        def store(s, new):
            s = s.clone()
            s.heap[(ref.id, 'val')] = new
            if ref.id in self.tracked_refs:
                s.writes.append((ref.id, 'val', line))
            return s
        if name == 'append':
            x = args[0]
            if isinstance(cur, PyListV):
                if not cur.items and is_intlike(x) and self.spec.hints.get('int_lists', True):
                    yield store(st, SeqV(z3.Unit(to_int(x)), 'list')), NONE
                else:
                    yield store(st, PyListV(cur.items + [x])), NONE
                return
            if isinstance(cur, SeqV) and is_intlike(x):
                yield store(st, SeqV(z3.Concat(cur.t, z3.Unit(to_int(x))), cur.kind)), NONE
                return
            hook = self.spec.hints.get('list_append')
            if hook is not None:
                yield from hook(self, ref, cur, x, st, n, store)
                return
        if name == 'pop':
            if isinstance(cur, SeqV):
                ln = z3.Length(cur.t)
                if not args:
                    for s, ok in self.fork(st, ln > 0):
                        if ok:
                            yield store(s, SeqV(z3.SubSeq(cur.t, 0, ln - 1), cur.kind)), IntV(cur.t[ln - 1])
                        else:
                            yield s, ExcV('IndexError', 'pop from empty list', line)
                    return
                ci = const_of(to_int(args[0]))
                if ci == 0:
                    for s, ok in self.fork(st, ln > 0):
                        if ok:
                            yield store(s, SeqV(z3.SubSeq(cur.t, 1, ln - 1), cur.kind)), IntV(cur.t[0])
                        else:
                            yield s, ExcV('IndexError', 'pop from empty list', line)
                    return
            if isinstance(cur, PyListV):
                if not cur.items:
                    yield st, ExcV('IndexError', 'pop from empty list', line)
                    return
                ci = -1 if not args else const_of(to_int(args[0]))
                if ci is not None and -len(cur.items) <= ci < len(cur.items):
                    items = list(cur.items)
                    x = items.pop(ci)
                    yield store(st, PyListV(items)), x
                    return
            hook = self.spec.hints.get('list_pop')
            if hook is not None:
                yield from hook(self, ref, cur, args, st, n, store)
                return
        if name == 'insert':
            ci = const_of(to_int(args[0]))
            x = args[1]
            if ci == 0 and isinstance(cur, SeqV) and is_intlike(x):
                yield store(st, SeqV(z3.Concat(z3.Unit(to_int(x)), cur.t), cur.kind)), NONE
                return
            if ci == 0 and isinstance(cur, PyListV):
                yield store(st, PyListV([x] + cur.items)), NONE
                return
            hook = self.spec.hints.get('list_insert')
            if hook is not None:
                yield from hook(self, ref, cur, args, st, n, store)
                return
        raise Unsupported('list method .%s on %r at line %s' % (name, cur, line))

    def seq_method(self, recv, name, args, kw, st, n):
        line = getattr(n, 'lineno', None)
        if name == 'encode' and recv.kind == 'str':
            enc = args[0].py if args else 'utf-8'
            j = fresh('ej')
            if enc in ('iso-8859-1', 'latin-1', 'ascii'):
                lim = 256 if enc != 'ascii' else 128
                def all_below(t):
                    # exact and compositional: every element of a ++ b is below lim iff that holds of a and of b
                    if z3.is_app(t) and t.decl().kind() == z3.Z3_OP_SEQ_CONCAT:
                        return z3.And(*[all_below(c) for c in t.children()])
                    if z3.is_app(t) and t.decl().kind() == z3.Z3_OP_SEQ_UNIT:
                        return z3.And(t.arg(0) >= 0, t.arg(0) < lim)
                    jj = fresh('ej')
                    return z3.ForAll([jj], z3.Implies(z3.And(0 <= jj, jj < z3.Length(t)), z3.And(t[jj] >= 0, t[jj] < lim)))
                ok = all_below(recv.t)
                for s, t in self.fork(st, ok):
                    if t:
                        yield s, SeqV(recv.t, 'bytes')
                    else:
                        yield s, ExcV('UnicodeEncodeError', enc, line)
                return
            if enc in ('utf-8', 'utf8'):
                e8 = z3.Function('utf8enc', IntSeq, IntSeq)
                d8 = z3.Function('utf8dec', IntSeq, IntSeq)
                s = st.clone()
                s.pc.append(d8(e8(recv.t)) == recv.t)
                yield s, SeqV(e8(recv.t), 'bytes')
                return
            raise Unsupported('encode(%r)' % enc)
        if name == 'decode' and recv.kind in ('bytes', 'bytearray'):
            enc = args[0].py if args else 'utf-8'
            if enc in ('iso-8859-1', 'latin-1'):
                yield st, SeqV(recv.t, 'str')
                return
            if enc == 'ascii':
                j = fresh('ej')
                ok = z3.ForAll([j], z3.Implies(z3.And(0 <= j, j < z3.Length(recv.t)), recv.t[j] < 128))
                for s, t in self.fork(st, ok):
                    if t:
                        yield s, SeqV(recv.t, 'str')
                    else:
                        yield s, ExcV('UnicodeDecodeError', enc, line)
                return
            if enc in ('utf-8', 'utf8'):
                d8 = z3.Function('utf8dec', IntSeq, IntSeq)
                yield st, SeqV(d8(recv.t), 'str')       # (invalid utf-8 raising UnicodeDecodeError is outside the T2 model)
                return
            # any other codec: its own uninterpreted decoding function, named by the codec's canonical name (aliases of one codec share it;
            # nothing relates it to another codec's function, so a contract stated over utf-8 does not follow)
            import codecs
            try:
                canon = codecs.lookup(enc).name
            except (LookupError, TypeError):
                raise Unsupported('decode(%r)' % (enc,))
            if canon == 'utf-8':
                yield st, SeqV(z3.Function('utf8dec', IntSeq, IntSeq)(recv.t), 'str')
                return
            yield st, SeqV(z3.Function('dec_' + ''.join(c if c.isalnum() else '_' for c in canon), IntSeq, IntSeq)(recv.t), 'str')
            return
        if name == 'split' and len(args) == 2 and const_of(to_int(args[1])) == 1:
            sep = args[0]
            sep = lift_seq_const(sep.py) if isinstance(sep, ConstV) else sep
            idx = z3.IndexOf(recv.t, sep.t, 0)
            ln = z3.Length(recv.t)
            sl = z3.Length(sep.t)
            for s, found in self.fork(st, idx >= 0):
                if found:
                    head = SeqV(z3.SubSeq(recv.t, 0, idx), recv.kind)
                    tail = SeqV(z3.SubSeq(recv.t, idx + sl, ln - idx - sl), recv.kind)
                    yield self.new_list(s, PyListV([head, tail]))
                else:
                    yield self.new_list(s, PyListV([recv]))
            return
        if name == 'find' and len(args) == 1:
            sep = args[0]
            sep = lift_seq_const(sep.py) if isinstance(sep, ConstV) else sep
            yield st, IntV(z3.IndexOf(recv.t, sep.t, 0))
            return
        if name == 'rfind' and len(args) == 1 and isinstance(args[0], ConstV) and len(args[0].py) == 1:
            # exact characterisation of the last occurrence of a single character c: r == -1 and c does not occur, or
            # s[r] == c and c does not occur in s[r+1:]
            c = z3.IntVal(ord(args[0].py) if isinstance(args[0].py, str) else args[0].py[0])
            r = fresh('rfind')
            ln = z3.Length(recv.t)
            unit = z3.Unit(c)
            s2 = st.clone()
            s2.pc.append(z3.Or(z3.And(r == -1, z3.Not(z3.Contains(recv.t, unit))),
                               z3.And(0 <= r, r < ln, recv.t[r] == c, z3.Not(z3.Contains(z3.SubSeq(recv.t, r + 1, ln - r - 1), unit)))))
            yield s2, IntV(r)
            return
        if name == 'partition' and len(args) == 1:
            sep = args[0]
            sep = lift_seq_const(sep.py) if isinstance(sep, ConstV) else sep
            idx = z3.IndexOf(recv.t, sep.t, 0)
            ln = z3.Length(recv.t)
            sl = z3.Length(sep.t)
            for s, found in self.fork(st, idx >= 0):
                if found:
                    yield s, TupV([SeqV(z3.SubSeq(recv.t, 0, idx), recv.kind), SeqV(sep.t, recv.kind),
                                   SeqV(z3.SubSeq(recv.t, idx + sl, ln - idx - sl), recv.kind)])
                else:
                    yield s, TupV([recv, SeqV(z3.Empty(IntSeq), recv.kind), SeqV(z3.Empty(IntSeq), recv.kind)])
            return
        if name == 'startswith':
            p = args[0]
            p = lift_seq_const(p.py) if isinstance(p, ConstV) else p
            yield st, BoolV(z3.PrefixOf(p.t, recv.t))
            return
        if name == 'join':
            yield from self.join(recv, args[0], st, n)
            return
        if name in ('rstrip', 'strip', 'lstrip') and self.spec.hints.get('str_strip') is not None:
            yield from self.spec.hints['str_strip'](self, recv, name, args, st, n)
            return
        if name == 'lower' and recv.kind == 'str':
            hook = self.spec.hints.get('str_lower')
            if hook is not None:
                yield from hook(self, recv, st, n)
                return
        raise Unsupported('method .%s on %s at line %s' % (name, recv.kind, line))

    def join(self, sep, items, st, n):
        sepc = sep.py if isinstance(sep, ConstV) else None
        if isinstance(sep, SeqV) and const_of(z3.Length(sep.t)) == 0:
            sepc = b'' if sep.kind in ('bytes', 'bytearray') else ''
        items = self.deref_list(items, st)
        if sepc is not None and len(sepc) == 0 and isinstance(items, (PyListV, TupV)):
            kind = 'bytes' if isinstance(sepc, bytes) else 'str'
            parts = []
            for it in items.items:
                if isinstance(it, ConstV) and isinstance(it.py, (bytes, str)):
                    it = lift_seq_const(it.py)
                if not isinstance(it, SeqV):
                    raise Unsupported('join of %r' % (it,))
                parts.append(it.t)
            if not parts:
                yield st, SeqV(z3.Empty(IntSeq), kind)
            else:
                yield st, SeqV(parts[0] if len(parts) == 1 else z3.Concat(*parts), kind)
            return
        if sepc is not None and len(sepc) == 0 and isinstance(items, SeqV) and items.kind.startswith('chunks:'):
            yield st, SeqV(items.t, 'bytes')          # the flat concatenation of the constant-length chunks
            return
        hook = self.spec.hints.get('join')
        if hook is not None:
            yield from hook(self, sep, items, st, n)
            return
        raise Unsupported('join of %r at line %s' % (items, getattr(n, 'lineno', '?')))

    def slice_indices(self, sl, length, st, n):
        """slice.indices(len) for step None/1 (exact model of CPython's clamping)"""
        from .pure import clamp_slice
        if not isinstance(sl.step, NoneV) and const_of(to_int(sl.step)) != 1:
            raise Unsupported('slice.indices with a step')
        ln = to_int(length)
        for s1, a in self.split(st, sl.start):
            for s2, b in self.split(s1, sl.stop):
                lo = None if isinstance(a, NoneV) else to_int(a)
                hi = None if isinstance(b, NoneV) else to_int(b)
                bb, ee = clamp_slice(lo, hi, ln)
                yield s2, TupV([IntV(bb), IntV(ee), IntV(1)])


class TypeName(object):
    def __init__(self, name):
        self.name = name

    def __eq__(self, o):
        return isinstance(o, TypeName) and o.name == self.name

    def __hash__(self):
        return hash(('TypeName', self.name))

    def __repr__(self):
        return '<type %s>' % self.name


class SliceV(object):
    def __init__(self, start, stop, step):
        self.start, self.stop, self.step = start, stop, step

    def __repr__(self):
        return 'slice(%r,%r,%r)' % (self.start, self.stop, self.step)
