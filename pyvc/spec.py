"""Contract objects (sidecar; nothing here touches /repo)."""


class Loop(object):
    """Contract of one loop of the function under contract, keyed by loop ordinal (source order of
    the `for` / `while` statements of the function, nested ones included).

    invariant : list of (label, expr) or expr strings, over the current locals, the ghost variables,
                `old(<param>)`, the loop index (`index`, only for `for` loops) and NOUT/OUT(j) for
                generators
    variant   : integer expression that must be >= 0 when the guard holds and strictly decrease
                (`while` loops; `for` loops over finite sequences terminate by construction)
    modifies  : heap fields (`self._x`) the body may assign
    """

    def __init__(self, invariant=(), variant=None, index='K', modifies=(), seq=None):
        if isinstance(invariant, str):
            invariant = [invariant]
        self.invariant = [(('inv%d' % i, x) if isinstance(x, str) else x) for i, x in enumerate(invariant)]
        self.variant = variant
        self.index = index
        self.modifies = list(modifies)
        self.seq = seq            # ghost name under which the iterated sequence is visible


class Spec(object):
    """Contract of one real function (or fragment) of the repository.

    target    : (repo-relative file, qualified name)
    params    : ordered dict name -> sort ('Int', 'Bool', 'OptInt', 'Bytes', 'Str', 'IntList',
                'PairList', 'Opaque', ('Rec', {...}), or a callable building the value)
    requires  : precondition (expression text over the parameters)
    ensures   : list of (label, expr) over parameters (initial values), `result`, ghost, heap
    raises    : {exception class: expr}  -- an exit with that class is allowed only if expr held;
                an exceptional exit with a class not listed is an obligation failure (`noexc`)
    refuses   : list of (label, expr)     -- if expr holds the function must NOT return normally
    accepts   : list of (label, expr)     -- if expr holds the function must NOT raise
    pure_on_raise : every exceptional exit happens before any heap write
    env       : {access path text: expr}  -- symbolic model of a dynamic read (see DESIGN 2.4)
    defs      : {name: expr}              -- abbreviations usable in every expression of the spec
    loops     : {ordinal: Loop}
    ghost     : {name: (sort, init expr)} -- ghost state of a generator, updated by on_yield
    on_yield  : list of (ghost name, expr over ghost, locals and the yielded value `v`)
    yield_ensures : list of (label, expr) that must hold at every yield (over ghost-before, `v`)
    yields    : arity of yielded tuples (1 = plain int) for generators
    returns   : sort of the result when the spec is used as a callee contract
    """

    def __init__(self, name, target, params, requires='True', ensures=(), raises=None, refuses=(),
                 accepts=(), pure_on_raise=False, env=None, defs=None, loops=None, ghost=None,
                 on_yield=(), yield_ensures=(), yields=None, returns=None, modifies=(), callees=None,
                 inline=(), fields=None, replay=None, fragment=None, facts=(), note='', dropped=(),
                 self_name=None, cls_name=None, consts=None, bounded=None, hints=None):
        self.name = name
        self.target = target
        self.params = params
        self.requires = requires
        self.ensures = [(('post%d' % i, x) if isinstance(x, str) else x) for i, x in enumerate(ensures)]
        self.raises = raises or {}
        self.refuses = list(refuses)
        self.accepts = list(accepts)
        self.pure_on_raise = pure_on_raise
        self.env = env or {}
        self.defs = defs or {}
        self.loops = loops or {}
        self.ghost = ghost or {}
        self.on_yield = list(on_yield)
        self.yield_ensures = list(yield_ensures)
        self.yields = yields
        self.returns = returns
        self.modifies = list(modifies)
        self.callees = callees or {}
        self.inline = list(inline)
        self.fields = fields or {}
        self.replay = replay
        self.fragment = fragment
        self.facts = list(facts)
        self.note = note
        self.self_name = self_name
        self.cls_name = cls_name
        self.consts = consts or {}
        self.bounded = bounded
        self.hints = hints or {}


class Lemma(object):
    """A property-level lemma over contracts only: `hyps` (expression texts, typically instances of
    a function's post-condition) imply `claim`.  vars : {name: sort}."""

    def __init__(self, name, vars, hyps, claim, defs=None, note='', replay=None):
        self.name = name
        self.vars = vars
        self.hyps = list(hyps)
        self.claim = claim
        self.defs = defs or {}
        self.note = note
        self.replay = replay


class Custom(object):
    """Obligations assembled by sidecar Python code from the contracts of other functions (e.g. an
    induction over instances of a post-condition).  `build(repo)` returns a list of
    (suffix, hyps [z3 Bool], claim z3 Bool)."""

    def __init__(self, name, build, note='', replay=None, targets=None):
        self.name = name
        self.build = build
        self.note = note
        self.replay = replay
        self.targets = list(targets or [])      # (file, qualified name) of the real functions whose AST the obligations are read from
