"""Per-property driver: build obligations from the contracts of a property, discharge them, guard
against vacuity, cross-check the encoding against CPython, replay counter-models on the real
code, apply the known-findings file, run the bounded tier, write the evidence file.

Exit codes: 0 held / 1 VIOLATION / 2 UNDECIDED / 3 checker crash.
"""
import importlib
import json
import os
import random
import sys
import time
import traceback

import z3

from .engine import Engine, Oblig
from .pure import PureEval, truthy, to_int, fresh
from .repoidx import Repo, func_hash, repo_root
from .solve import discharge, to_smt2, solve_one, solve_all, check_sat
from .spec import Spec, Lemma, Custom
from .vals import Unsupported, IntV, BoolV, SeqV, UnionV, NONE, TupV

VERIF = os.path.dirname(os.path.dirname(os.path.abspath(__file__)))


def log(*a):
    print(*a, flush=True)


class Result(object):
    def __init__(self, prop):
        self.prop = prop
        self.functions = []
        self.obligs = []          # (fullname, Oblig, spec or lemma, engine or None)
        self.undecided = []
        self.violations = []
        self.known = []
        self.assumptions = []
        self.bounded = None
        self.crosscheck = {}
        self.solver_s = 0.0
        self.by_backend = {}
        self.slowest = []
        self.stale = []
        self.by_kind = {}
        self.dropped = {}
        self.notes = []


def lemma_oblig(lem, funcs=None):
    ob = Oblig(lem.name, 'lemma')
    ns = {}
    hyps = []
    for nm, sort in lem.vars.items():
        if sort == 'Int':
            ns[nm] = IntV(z3.Int(nm))
        elif sort == 'Nat':
            ns[nm] = IntV(z3.Int(nm))
            hyps.append(z3.Int(nm) >= 0)
        elif sort == 'Bool':
            ns[nm] = BoolV(z3.Bool(nm))
        elif sort == 'OptInt':
            isn = z3.Bool(nm + '.is_none')
            ns[nm] = UnionV([(isn, NONE), (z3.Not(isn), IntV(z3.Int(nm)))])
        elif sort in ('Bytes', 'IntList', 'Str'):
            from .vals import IntSeq
            ns[nm] = SeqV(z3.Const(nm, IntSeq), {'Bytes': 'bytes', 'IntList': 'list', 'Str': 'str'}[sort])
        elif callable(sort):
            ns[nm] = sort(nm)
        else:
            raise Unsupported('lemma variable sort %r' % (sort,))
    pe = PureEval(ns, defs=lem.defs, funcs=funcs or {})
    for h in lem.hyps:
        hyps.append(pe.boolean(h))
    claim = pe.boolean(lem.claim)
    ob.add(hyps + pe.facts, claim, dict(lemma=True))
    return ob, hyps + pe.facts


def run_spec(repo, spec):
    eng = Engine(repo, spec)
    eng.run()
    eng.ensure_declared()
    return eng


def vacuity(eng):
    """requires satisfiable; at least one feasible normal exit (canary: `ensures False` must be
    refutable) unless the spec declares that it only raises"""
    problems = []
    if not eng.requires_sat:
        problems.append('requires is unsatisfiable')
    normal = [(s, o) for s, o in eng.paths if o[0] == 'return']
    feas = 0
    unknown = 0
    t0 = time.time()
    for s, o in normal:
        r = check_sat(s.pc, 2000)
        if r == 'sat':
            feas += 1
            break
        if r == 'unknown':
            unknown += 1
            if time.time() - t0 > 6:
                break
    # quantified ghost axioms can make z3 answer `unknown` on satisfiable path conditions: only a
    # path set that is *refuted* throughout is reported as vacuous
    if normal and not feas and not unknown:
        problems.append('no feasible normal exit path (canary not refutable)')
    if not normal and not eng.spec.hints.get('only_raises'):
        problems.append('no normal exit path at all')
    return problems, len(normal)


def crosscheck(eng, spec, seed, count):
    """T1 check: on seeded concrete inputs, exactly the executor paths compatible with the input
    must predict what CPython does on the real function."""
    sampler = spec.hints.get('sample')
    runner = spec.hints.get('concrete')
    if sampler is None or runner is None:
        return None
    rng = random.Random(seed)
    done = agree = 0
    solvers = []
    for st, out in eng.paths:
        s = z3.Solver()
        s.set('timeout', 5000)
        s.add(*st.pc)
        solvers.append(s)
    s0 = z3.Solver()
    s0.set('timeout', 5000)
    s0.add(*eng.entry.pc)
    for i in range(count):
        vals = sampler(rng)
        if vals is None:
            continue
        eqs = []
        for nm, pv in vals.items():
            if pv is None:
                eqs.append(z3.Bool(nm + '.is_none'))
            elif isinstance(pv, bool):
                eqs.append(z3.Bool(nm) == pv)
            elif isinstance(pv, int):
                eqs.append(z3.Int(nm) == pv)
                if (nm + '.is_none') in eng._optnames:
                    eqs.append(z3.Not(z3.Bool(nm + '.is_none')))
            elif isinstance(pv, (bytes, list)):
                from .pure import seq_lit
                from .vals import IntSeq
                eqs.append(z3.Const(nm, IntSeq) == seq_lit(list(pv)))
        s0.push()
        s0.add(*eqs)
        ok = s0.check() == z3.sat
        s0.pop()
        if not ok:
            continue                      # sample outside requires
        actual = runner(vals)
        preds = []
        for (st, out), s in zip(eng.paths, solvers):
            s.push()
            s.add(*eqs)
            if s.check() == z3.sat:
                m = s.model()
                if out[0] == 'return':
                    preds.append(('return', concretize(out[1], m)))
                else:
                    preds.append(('raise', out[1].cls))
            s.pop()
        done += 1
        kinds = set(repr(p) for p in preds)
        if len(kinds) == 1 and outcome_eq(preds[0], actual):
            agree += 1
        else:
            raise CheckerDefect('encoding disagrees with CPython on %s: input %r predicted %r actual %r'
                                % (spec.name, vals, preds, actual))
    return dict(samples=done, agree=agree)


class CheckerDefect(Exception):
    pass


def concretize(v, m):
    if isinstance(v, IntV):
        r = m.eval(v.t, model_completion=True)
        return r.as_long()
    if isinstance(v, BoolV):
        return bool(z3.is_true(m.eval(v.t, model_completion=True)))
    if isinstance(v, TupV):
        return tuple(concretize(x, m) for x in v.items)
    if isinstance(v, SeqV):
        from .solve import seq_to_list
        xs = seq_to_list(m.eval(v.t, model_completion=True))
        return bytes(xs) if v.kind in ('bytes', 'bytearray') else xs
    if v is NONE or type(v).__name__ == 'NoneV':
        return None
    if isinstance(v, UnionV):
        for g, a in v.alts:
            if z3.is_true(m.eval(g, model_completion=True)):
                return concretize(a, m)
    from .vals import ConstV
    if isinstance(v, ConstV):
        return v.py
    return repr(v)


def outcome_eq(pred, actual):
    if pred[0] != actual[0]:
        return False
    if pred[0] == 'raise':
        return pred[1] == actual[1] or actual[1] in EXC_ALIASES.get(pred[1], ())
    a, b = pred[1], actual[1]
    if isinstance(a, (bytes, bytearray)) and isinstance(b, (bytes, bytearray)):
        return bytes(a) == bytes(b)
    if isinstance(a, list) and isinstance(b, (list, tuple)):
        return list(a) == list(b)
    return a == b


EXC_ALIASES = {'struct.error': ('error',), 'AttributeError': ('KeyError',), 'KeyError': ('AttributeError',)}


# ------------------------------------------------------------------------------------------------
def load_baseline(prop):
    p = os.path.join(VERIF, 'baseline', '%s.json' % prop)
    if not os.path.exists(p):
        return None
    with open(p) as f:
        return json.load(f)


def write_baseline(res):
    d = os.path.join(VERIF, 'baseline')
    os.makedirs(d, exist_ok=True)
    b = dict(property=res.prop,
             functions=dict((f['contract'], dict(file=f['file'], function=f['function'], source_sha=f['source_sha'])) for f in res.functions),
             discharged=sorted(full for full, ob, _, _ in res.obligs if ob.status == 'discharged'))
    with open(os.path.join(d, '%s.json' % res.prop), 'w') as f:
        json.dump(b, f, indent=1)
    return b


def load_known():
    p = os.path.join(VERIF, 'known_findings.json')
    if not os.path.exists(p):
        return []
    with open(p) as f:
        return json.load(f).get('findings', [])


class ObRec(object):
    """picklable summary of one obligation (queries as SMT-LIB2 text)"""

    def __init__(self, full, name, kind, line, item_index):
        self.full, self.name, self.kind, self.line, self.item_index = full, name, kind, line, item_index
        self.queries = []        # (smt2 text | None for trivially true, smt2 text outside known classes | None)
        self.status = None
        self.results = []


def gen_item(args):
    """phase 1 (one worker process per contract item): symbolic execution -> obligations as text"""
    prop, idx, tier, seed, known = args
    sys.path.insert(0, VERIF)
    mod = importlib.import_module('contracts.%s' % prop)
    repo = Repo()
    it = mod.contracts(repo)[idx]
    out = dict(index=idx, name=it.name, obs=[], undecided=[], function=None, crosscheck=None, error=None)
    try:
        if isinstance(it, Spec):
            eng = run_spec(repo, it)
            probs, n_normal = vacuity(eng)
            for p in probs:
                out['undecided'].append(('%s/%s' % (prop, it.name), 'vacuity: ' + p))
            eng._optnames = set()
            for v in eng.init_vals.values():
                if isinstance(v, UnionV):
                    for g, a in v.alts:
                        eng._optnames.add(str(g))
            out['function'] = dict(file=it.target[0], function=it.target[1], line_from=eng.fdef.lineno,
                                   line_to=eng.fdef.end_lineno, source_sha=func_hash(eng.mod, eng.fdef),
                                   contract=it.name, paths=len(eng.paths), forks=eng.nforks,
                                   dropped=sorted(eng.dropped), inlined=sorted(eng.inlined),
                                   callee_contracts=sorted(eng.called), fragment=bool(it.fragment), note=it.note)
            if not eng.order:
                out['undecided'].append(('%s/%s' % (prop, it.name), 'vacuity: zero obligations'))
            # every function under contract: no default argument is an object built once at definition time (state shared between calls is
            # outside what a contract over one call can see); decided on the AST
            shared = shared_defaults(eng.fdef)
            nshared = z3.Int('defaults_built_once')
            drec = ObRec('%s/%s/frame[defaults are not shared objects]' % (prop, it.name), 'frame[defaults are not shared objects]', 'defaults', eng.fdef.lineno, idx)
            drec.queries.append((to_smt2([nshared == len(shared)], nshared == 0), None))
            out['obs'].append(drec)
            if eng.stale_env:
                out['undecided'].append(('%s/%s' % (prop, it.name), 'stale contract: env entries never read by the code: %s' % eng.stale_env))
            for nm in eng.order:
                ob = eng.obligs[nm]
                if ob is None:
                    continue
                full = '%s/%s/%s' % (prop, it.name, nm)
                rec = ObRec(full, nm, ob.kind, ob.line, idx)
                ks = [k for k in known if k.get('obligation') == full and k.get('witness')]
                excl = []
                if ks:
                    for k in ks:
                        pe = PureEval(eng.contract_ns(eng.entry, None, init=True), defs=it.defs, funcs=eng.contract_funcs(eng.entry))
                        excl.append(z3.Not(pe.boolean(k['witness'])))
                        excl.extend(pe.facts)
                for hyps, claim, meta in ob.queries:
                    if meta.get('trivial'):
                        rec.queries.append((None, None))
                    else:
                        rec.queries.append((to_smt2(hyps, claim), to_smt2(list(hyps) + excl, claim) if ks else None))
                out['obs'].append(rec)
            cc = crosscheck(eng, it, seed, 60 if tier == 'quick' else 400)
            out['crosscheck'] = cc
        elif isinstance(it, Custom):
            if it.targets:
                out['function'] = custom_function_record(repo, it)
            for suffix, hyps, claim in it.build(repo):
                nm = '%s[%s]' % (it.name, suffix) if suffix else it.name
                rec = ObRec('%s/%s' % (prop, nm), nm, 'lemma', None, idx)
                rec.queries.append((to_smt2(hyps, claim), None))
                if check_sat(hyps, 5000) == 'unsat':
                    out['undecided'].append((rec.full, 'vacuity: lemma hypotheses are contradictory'))
                out['obs'].append(rec)
        elif isinstance(it, Lemma):
            ob, hyps = lemma_oblig(it, funcs=getattr(mod, 'FUNCS', {}))
            rec = ObRec('%s/%s' % (prop, it.name), it.name, 'lemma', None, idx)
            h, c, _ = ob.queries[0]
            rec.queries.append((to_smt2(h, c), None))
            if check_sat(hyps, 5000) == 'unsat':
                out['undecided'].append((rec.full, 'vacuity: lemma hypotheses are contradictory'))
            out['obs'].append(rec)
    except Unsupported as e:
        out['unsupported'] = ('%s/%s' % (prop, it.name), 'unsupported: %s' % e)
        try:
            if isinstance(it, Custom):
                out['unsupported_sha'] = custom_function_record(repo, it)['source_sha'] if it.targets else None
                out['function'] = None
            else:
                m_, _c, fdef_ = repo.find_function(it.target[0], it.target[1])
                out['unsupported_sha'] = func_hash(m_, fdef_)
        except Exception:
            out['unsupported_sha'] = None
    except CheckerDefect as e:
        out['error'] = 'CHECKER-DEFECT %s' % e
    return out


def shared_defaults(fdef):
    """default argument values that are objects built once, when the function is defined (calls, list / dict / set displays, comprehensions), for
    parameters the body mutates or hands on (a method call on it, a store through it, an augmented assignment, passing it to another call):
    state kept in them is shared by every call that does not pass the argument.  A default that is only read is harmless and not listed."""
    import ast
    a = fdef.args
    names = [x.arg for x in a.args][len(a.args) - len(a.defaults):] + [x.arg for x in a.kwonlyargs]
    out = []
    for nm, d in zip(names, list(a.defaults) + list(a.kw_defaults)):
        if d is None or not isinstance(d, (ast.Call, ast.List, ast.Dict, ast.Set, ast.ListComp, ast.DictComp, ast.SetComp)):
            continue
        used = False
        for n in ast.walk(fdef):
            if isinstance(n, ast.Call):
                if isinstance(n.func, ast.Attribute) and isinstance(n.func.value, ast.Name) and n.func.value.id == nm:
                    used = True
                if any(isinstance(x, ast.Name) and x.id == nm for x in list(n.args) + [k.value for k in n.keywords]):
                    used = True
            elif isinstance(n, (ast.Attribute, ast.Subscript)) and isinstance(n.ctx, (ast.Store, ast.Del)) and isinstance(n.value, ast.Name) and n.value.id == nm:
                used = True
            elif isinstance(n, ast.AugAssign) and isinstance(n.target, ast.Name) and n.target.id == nm:
                used = True
        if used:
            out.append('%s=%s' % (nm, ast.unparse(d)))
    return out


def custom_function_record(repo, it):
    """the real functions a Custom item reads its obligations from (AST-decided frame / ordering / call-site conditions): one record, hashed over all of them"""
    import hashlib
    hs, first = [], None
    for rel, qual in it.targets:
        m_, _c, fdef_ = repo.find_function(rel, qual)
        hs.append(func_hash(m_, fdef_))
        first = first or fdef_
    return dict(file=it.targets[0][0], function=', '.join(q for _r, q in it.targets), line_from=first.lineno, line_to=first.end_lineno,
                source_sha=hashlib.sha256('|'.join(hs).encode()).hexdigest()[:16], contract=it.name, paths=0, forks=0, dropped=[], inlined=[],
                callee_contracts=[], fragment=True, note=it.note)


def check_property(prop, tier='quick', seed=0, only=None):
    t0 = time.time()
    res = Result(prop)
    res.baseline = load_baseline(prop)
    mod = importlib.import_module('contracts.%s' % prop)
    repo = Repo()
    known = [k for k in load_known() if k.get('property') == prop and k.get('status') == 'known']
    items = mod.contracts(repo) if hasattr(mod, 'contracts') else []
    todo = [i for i, it in enumerate(items) if not only or only in it.name]
    args = [(prop, i, tier, seed, known) for i in todo]
    if len(args) > 1:
        import multiprocessing
        ctx = multiprocessing.get_context('fork')
        with ctx.Pool(min(len(args), int(os.environ.get('PYVC_JOBS', str(min(16, os.cpu_count() or 4)))))) as pl:
            outs = pl.map(gen_item, args, chunksize=1)
    else:
        outs = [gen_item(a) for a in args]
    res.gen_wall = time.time() - t0
    jobs = []
    recs = []
    for out in outs:
        if out['error']:
            raise CheckerDefect(out['error'])
        for full_, why_ in out['undecided']:
            sha_ = (out.get('function') or {}).get('source_sha')
            if why_.startswith('stale contract') and contract_text_changed(res, out['name'], sha_):
                res.stale.append((full_, why_))
            else:
                res.undecided.append((full_, why_))
        if out.get('unsupported'):
            # the function left the verifiable subset (typically after a code change): undecided, unless
            # the contract's replay search finds an input on which the real code breaks the contract
            full, why = out['unsupported']
            it = items[out['index']]
            rep = None
            replay = getattr(it, 'replay', None)
            if replay is not None:
                try:
                    rep = replay(None, 'unsupported')
                except Exception:
                    rep = None
            if rep and rep.get('confirmed'):
                res.violations.append(dict(kind='obligation', obligation=full + '/contract-no-longer-checkable', line=None, model=None,
                                           replay=rep, solver=[dict(reason=why)]))
            elif contract_text_changed(res, it.name, out.get('unsupported_sha')):
                # the function under contract was edited and the contract can no longer be evaluated on it (renamed locals, restructured
                # statements, constructs outside the subset); the contract's own replay search found no failing input.  Not an alarm:
                # reported, recorded in the evidence, decided by the bounded tier that follows.
                res.stale.append((full, why))
            else:
                res.undecided.append((full, why))
        if out['function']:
            res.functions.append(out['function'])
        if out['crosscheck'] is not None:
            res.crosscheck[out['name']] = out['crosscheck']
        for rec in out['obs']:
            recs.append(rec)
            for qi, (q, qx) in enumerate(rec.queries):
                if q is not None:
                    jobs.append(((len(recs) - 1, qi, 'main'), q, True))
    results = solve_all(jobs)
    by = {}
    for r in results:
        by.setdefault(r['key'][0], []).append(r)
    for ri, rec in enumerate(recs):
        rec.results = by.get(ri, [])
        if not rec.queries:
            rec.status = 'vacuous'
        elif any(r['status'] == 'sat' for r in rec.results):
            rec.status = 'refuted'
        elif any(r['status'] == 'unknown' for r in rec.results):
            rec.status = 'undecided'
        else:
            rec.status = 'discharged'
    for rec in recs:
        it = items[rec.item_index]
        res.obligs.append((rec.full, rec, it, None))
        res.by_kind[rec.kind] = res.by_kind.get(rec.kind, 0) + 1
        for r in rec.results:
            res.solver_s += r['seconds']
            res.by_backend[r['backend']] = res.by_backend.get(r['backend'], 0) + 1
            res.slowest.append((round(r['seconds'], 2), rec.full, r['backend']))
        if rec.status == 'undecided':
            why = '; '.join(sorted(set(r['reason'] for r in rec.results if r['status'] == 'unknown')))
            # an obligation the solvers cannot decide is never a violation by itself; but if the
            # contract's replay search finds an input on which the real code breaks the contract,
            # the violation is real and is reported against this obligation
            rep = None
            replay = getattr(it, 'replay', None)
            if replay is not None and rec.full not in [k.get('obligation') for k in known]:
                try:
                    rep = replay(None, rec.name)
                except Exception:
                    rep = None
            if rep and rep.get('confirmed'):
                res.violations.append(dict(kind='obligation', obligation=rec.full, line=rec.line, model=None, replay=rep,
                                           solver=[dict(reason=why)]))
            elif second_opinion(rec):
                pass            # discharged after all, with twice the budgets (busy machine, or a harmless edit made the query slower)
            elif lost_by_code_change(res, rec.full, it, None):
                res.violations.append(dict(kind='obligation', obligation=rec.full, line=rec.line, model=None,
                                           replay=dict(confirmed=False, note='obligation was discharged on the baseline tree; the '
                                                       'function under contract has changed and the solvers no longer discharge it',
                                                       solver_output=why),
                                           solver=[dict(reason=why)]))
            else:
                res.undecided.append((rec.full, 'solver: ' + why))
        elif rec.status == 'vacuous':
            res.undecided.append((rec.full, 'vacuity: no path reaches this clause'))
        elif rec.status == 'refuted':
            handle_refuted(res, rec, it, known)
    # bounded tier
    if hasattr(mod, 'bounded') and not only:
        extra_seeds = []
        if tier == 'thorough':
            n = int(os.environ.get('PYVC_THOROUGH_SEEDS', '8'))
            import inspect
            if 'part' not in inspect.signature(mod.bounded).parameters:
                # modules that do not partition an exhaustive enumeration over the runs get several rounds of seeds (the pool runs 8 at a time)
                n *= int(os.environ.get('PYVC_THOROUGH_ROUNDS', '3'))
            extra_seeds = [seed + 1000 * i for i in range(1, n)]
        if extra_seeds:
            # thorough: the same bounded exploration with further seeds, in parallel processes (the seeded-random parts differ per seed, the
            # exhaustive parts are repeated); results are merged, distinct cases are counted over the union of the per-run key digests
            import multiprocessing
            ctx = multiprocessing.get_context('fork')
            with ctx.Pool(min(len(extra_seeds) + 1, max(2, (os.cpu_count() or 4) // 2)), maxtasksperchild=1) as pool:
                allseeds = [seed] + extra_seeds
                limit = int(os.environ.get('PYVC_BOUNDED_LIMIT_S', '7200'))
                try:
                    runs = pool.map_async(_bounded_worker, [(prop, tier, sd, (i, len(allseeds))) for i, sd in enumerate(allseeds)], chunksize=1).get(timeout=limit)
                except multiprocessing.TimeoutError:
                    pool.terminate()
                    raise CheckerDefect('the bounded tier did not finish within %d s' % limit)
            b = merge_bounded(runs, [seed] + extra_seeds)
        else:
            # in a child process with a hard limit: a bounded exploration that blocks (a deadlock or an endless wait in code under test that the
            # tier's own guards did not foresee) ends the check with exit 3 instead of hanging it
            import multiprocessing
            ctx = multiprocessing.get_context('fork')
            limit = int(os.environ.get('PYVC_BOUNDED_LIMIT_S', '1800'))
            with ctx.Pool(1) as pool:
                try:
                    b = pool.apply_async(_bounded_worker, ((prop, tier, seed, (0, 1)),)).get(timeout=limit)
                except multiprocessing.TimeoutError:
                    pool.terminate()
                    raise CheckerDefect('the bounded tier did not finish within %d s' % limit)
            if b.get('crashed'):
                raise CheckerDefect('bounded tier crashed: ' + b['crashed'])
            b.pop('distinct_keys', None)
        res.bounded = b
        nb = 0
        for v in b.get('violations', []):
            k = match_known_bounded(v, known)
            if k is not None:
                res.known.append((k, v))
            elif nb < 3:
                nb += 1
                res.violations.append(dict(kind='bounded', **v))
    res.assumptions = list(getattr(mod, 'ASSUMPTIONS', []))
    res.wall = time.time() - t0
    return res, mod


def _bounded_worker(args, attempt=0):
    prop, tier, sd, part = args
    import importlib
    import inspect
    mod = importlib.import_module('contracts.%s' % prop)
    try:
        if 'part' in inspect.signature(mod.bounded).parameters:
            # the module partitions its exhaustive enumeration over the parallel runs itself: run i of n takes every n-th case
            return mod.bounded(tier, sd, part=part)
        return mod.bounded(tier, sd)
    except Exception as e:
        import traceback
        tb = traceback.extract_tb(e.__traceback__)
        root = os.path.realpath(os.environ.get('VERIF_REPO', '/repo'))
        inner = os.path.realpath(tb[-1].filename) if tb else ''
        text = traceback.format_exc()[-1500:]
        if inner.startswith(root + os.sep):
            # the exception was raised by the code under test (innermost frame inside the repository) and nothing in the harness expected it:
            # on the unchanged tree this exploration completes, so this is the behaviour of the change - reported, not a checker crash
            where = '%s:%s in %s' % (os.path.relpath(inner, root), tb[-1].lineno, tb[-1].name)
            return dict(evaluations=1, distinct_nontrivial=1, distinct_keys=[], samples=[dict(aborted=where)], exhaustive=False,
                        rule='the bounded exploration was aborted by an exception raised inside the code under test',
                        violations=[dict(key='the code under test raised %s at %s during the bounded exploration' % (type(e).__name__, where),
                                         observed=text, required='the exploration completes as it does on the unchanged tree (no unexpected exception from the code under test)')])
        if isinstance(e, OSError) and attempt == 0:
            # a socket-level error inside the harness itself (a connection reset or a timeout of its own sockets on a busy machine): once more, from scratch
            return _bounded_worker(args, attempt=1)
        return dict(evaluations=0, distinct_nontrivial=0, distinct_keys=[], rule='', samples=[], violations=[],
                    crashed='seed %d: %s: %s\n%s' % (sd, type(e).__name__, e, text))


def merge_bounded(runs, seeds):
    crashed = [r['crashed'] for r in runs if r.get('crashed')]
    if crashed:
        raise CheckerDefect('bounded tier crashed: ' + crashed[0])
    b = dict(runs[0])
    keys = set()
    have_keys = all('distinct_keys' in r for r in runs)
    for r in runs:
        keys.update(r.get('distinct_keys', []))
    b['evaluations'] = sum(int(r.get('evaluations', 0)) for r in runs)
    b['distinct_nontrivial'] = len(keys) if have_keys else max(int(r.get('distinct_nontrivial', 0)) for r in runs)
    b['exhaustive'] = all(bool(r.get('exhaustive', False)) for r in runs)
    b['rule'] = (runs[0].get('rule', '') + ' | thorough: %d runs of this exploration with seeds %r in parallel; evaluations are summed, distinct cases counted '
                 'over the union of the per-run case keys' % (len(runs), seeds))
    seen, viols = set(), []
    for r in runs:
        for v in r.get('violations', []):
            if v.get('key') not in seen:
                seen.add(v.get('key'))
                viols.append(v)
    b['violations'] = viols
    b['samples'] = [s for r in runs for s in r.get('samples', [])[:2]][:8]
    b.pop('distinct_keys', None)
    b['seeds'] = list(seeds)
    return b


def second_opinion(rec):
    """re-solve the undecided queries of one obligation (at most 8) with twice the budgets; True iff all of them are then discharged (the obligation
    counts as discharged), False otherwise (refuted or still undecided)"""
    from .solve import solve_long
    pending = [(r['key'], rec.queries[r['key'][1]][0]) for r in rec.results if r['status'] == 'unknown']
    if not pending or len(pending) > 8:
        return False
    import multiprocessing
    ctx = multiprocessing.get_context('fork')
    with ctx.Pool(min(len(pending), 8)) as pl:
        outs = pl.map(solve_long, pending, chunksize=1)
    ok = all(o['status'] == 'unsat' for o in outs)
    if ok:
        rec.status = 'discharged'
        log('  second opinion (2x budgets): %s discharged' % rec.full)
    return ok


def contract_text_changed(res, contract, sha):
    """the recorded baseline knows this contract's function with another source hash (None: no baseline / unknown function -> not changed)"""
    b = res.baseline
    if not b or sha is None:
        return False
    info = b.get('functions', {}).get(contract)
    return info is not None and info.get('source_sha') != sha


def lost_by_code_change(res, full, it, eng):
    b = res.baseline
    if not b or full not in b.get('discharged', []):
        return False
    changed = False
    cur = dict((f['contract'], f['source_sha']) for f in res.functions)
    for c, info in b.get('functions', {}).items():
        if cur.get(c) is not None and cur[c] != info['source_sha']:
            changed = True
    return changed


def match_known_bounded(v, known):
    import re
    for k in known:
        pat = k.get('bounded_key')
        if pat and re.search(pat, v.get('key', '')):
            return k
    return None


def handle_refuted(res, rec, it, known):
    """a refuted obligation: known finding (then ask the solver for a counter-model outside the
    known witness class) or violation; the counter-model is replayed on the real code"""
    full = rec.full
    sat = [r for r in rec.results if r['status'] == 'sat']
    ks = [k for k in known if k.get('obligation') == full]
    if ks:
        jobs = [((0, qi, 'excl'), qx, True) for qi, (q, qx) in enumerate(rec.queries) if qx is not None]
        outside = [r for r in solve_all(jobs) if r['status'] != 'unsat'] if jobs else []
        for k in ks:
            res.known.append((k, dict(obligation=full, model=sat[0].get('model'))))
        if not outside:
            return
        new_sat = [r for r in outside if r['status'] == 'sat']
        if not new_sat:
            res.undecided.append((full, 'solver: undecided outside the known-finding witness class'))
            return
        sat = new_sat
    model = sat[0].get('model')
    rep = None
    replay = getattr(it, 'replay', None)
    if replay is not None:
        for r in sat[:8]:
            if r.get('model') is None:
                continue
            try:
                rep = replay(r['model'], rec.name)
            except Exception as e:
                rep = dict(confirmed=False, error='replay crashed: %s' % e, trace=traceback.format_exc())
            if rep and rep.get('confirmed'):
                model = r['model']
                break
    syntactic = rec.kind == 'defaults' or (isinstance(it, Custom) and getattr(it, 'targets', None))
    if syntactic and not (rep and rep.get('confirmed')):
        # a condition decided on the AST is a *sufficient* syntactic condition: when an edit makes it fail and the replay on the real code finds no
        # failing input, the condition has merely become uncheckable for the new text - reported as a stale contract, decided by the bounded tier
        res.stale.append((full, 'the AST-decided sufficient condition does not hold for the edited text and its replay found no failing input'))
        return
    res.violations.append(dict(kind='obligation', obligation=full, line=rec.line, model=model, replay=rep,
                               solver=[dict(backend=r['backend'], seconds=r['seconds']) for r in sat[:3]]))


def write_replay(prop, idx, v):
    d = os.environ.get('VERIF_REPLAY_DIR') or os.path.join(VERIF, 'replays')
    os.makedirs(d, exist_ok=True)
    name = v.get('obligation', v.get('key', 'case')).replace('/', '_').replace(' ', '_')
    for ch in '[]:@<>':
        name = name.replace(ch, '-')
    path = os.path.join(d, '%s-%s.json' % (prop, name[:120]))
    with open(path, 'w') as f:
        json.dump(v, f, indent=1, default=repr)
    return os.path.relpath(path, VERIF)


def finish(res, mod, tier, seed, level):
    prop = res.prop
    exit_code = 0
    for k, w in res.known:
        log('KNOWN-FINDING: property=%s %s' % (prop, k['what']))
    for full, why in res.undecided:
        log('UNDECIDED property=%s obligation=%s %s' % (prop, full, why))
        exit_code = max(exit_code, 2)
    for full, why in res.stale:
        log('STALE-CONTRACT property=%s contract=%s %s (the function text changed since the baseline; replay search and bounded tier decide)' % (prop, full, why))
    for i, v in enumerate(res.violations):
        path = write_replay(prop, i, v)
        tail = ''
        if v['kind'] == 'obligation' and not (v.get('replay') or {}).get('confirmed'):
            tail = ' no-failing-input-found'
        log('VIOLATION property=%s replay=%s%s' % (prop, path, tail))
        what = v.get('obligation') or v.get('key')
        log('  failed: %s' % what)
        if v.get('replay'):
            log('  replay: %s' % json.dumps(v['replay'], default=repr)[:600])
        exit_code = 1
    n_ob = len(res.obligs)
    n_dis = sum(1 for _, ob, _, _ in res.obligs if ob.status == 'discharged')
    n_q = sum(len(ob.queries) for _, ob, _, _ in res.obligs)
    samples = []
    for full, ob, it, eng in res.obligs[:400]:
        if len(samples) < 12 and ob.queries:
            samples.append(dict(obligation=full, kind=ob.kind, status=ob.status, queries=len(ob.queries),
                                smt2_bytes=len(ob.queries[0][0] or '')))
    cov = dict(
        obligations=n_ob, discharged=n_dis, queries=n_q,
        checker_cmd='./check %s --tier %s  (pyvc: AST of %s -> VCs -> z3 %s, cvc5 on unknown)' % (
            prop, tier, repo_root(), z3.get_version_string()),
        trusted_base=list(getattr(mod, 'TRUSTED', [])) + COMMON_TRUSTED,
        functions_under_contract=res.functions,
        obligations_by_kind=res.by_kind,
        queries_by_backend=res.by_backend,
        solver_seconds=round(res.solver_s, 3),
        slowest_queries=[dict(seconds=a, obligation=b, backend=c) for a, b, c in sorted(res.slowest, reverse=True)[:5]],
        crosscheck_vs_cpython=res.crosscheck,
        obligation_status=dict((full, ob.status) for full, ob, _, _ in res.obligs),
        samples=samples,
        known_findings=[k['what'] for k, _ in res.known],
        undecided=[list(u) for u in res.undecided],
        stale_contracts=[list(u) for u in res.stale],
    )
    if res.bounded is not None:
        b = res.bounded
        cov['bounded'] = dict((k, b[k]) for k in b if k != 'violations')
        cov['evaluations'] = int(b.get('evaluations', 0))
        cov['distinct_nontrivial'] = int(b.get('distinct_nontrivial', 0))
        cov['rule'] = b.get('rule', '')
        cov['exhaustive'] = bool(b.get('exhaustive', False))
        cov['samples'] = samples + [dict(bounded_case=s) for s in b.get('samples', [])[:8]]
    ev = dict(property_id=prop, tier=tier, seed=seed, level=level, coverage=cov,
              assumptions=res.assumptions, wall_s=round(res.wall, 2), violations=len(res.violations))
    evdir = os.environ.get('VERIF_EVIDENCE_DIR') or os.path.join(VERIF, 'evidence')
    os.makedirs(evdir, exist_ok=True)
    with open(os.path.join(evdir, '%s.json' % prop), 'w') as f:
        json.dump(ev, f, indent=1, default=repr)
    log('%s tier=%s: %d obligations (%d queries), %d discharged, %d undecided, %d violations, %d known; '
        'bounded evaluations=%s; solver %.1fs wall %.1fs'
        % (prop, tier, n_ob, n_q, n_dis, len(res.undecided), len(res.violations), len(res.known),
           cov.get('evaluations', 0), res.solver_s, res.wall))
    return exit_code


COMMON_TRUSTED = [
    'T1 pyvc encoding of the Python subset (ints as mathematical integers - exact for Python; floor //,%; '
    'short-circuit and/or; exceptions as path outcomes), cross-checked against CPython on seeded inputs every run',
    'T5 single thread: locks and `with` blocks are plain blocks',
    'T6 z3 %s and cvc5 1.0.3 are trusted; a discharged obligation needs unsat from one of them' % z3.get_version_string(),
    'D1-D4: logging calls, assert/raise message operands, docstrings are dropped from the verified text (listed per function)',
]


def main(argv):
    import argparse
    ap = argparse.ArgumentParser()
    ap.add_argument('prop')
    ap.add_argument('--tier', default=os.environ.get('VERIF_TIER', 'quick'))
    ap.add_argument('--only', default=None)
    ap.add_argument('--replay', default=None)
    ap.add_argument('--record-baseline', action='store_true')
    a = ap.parse_args(argv)
    seed = int(os.environ.get('VERIF_SEED', '0') or 0)
    sys.path.insert(0, VERIF)
    if a.replay:
        with open(a.replay) as f:
            v = json.load(f)
        print(json.dumps(v, indent=1)[:4000])
        mod = importlib.import_module('contracts.%s' % a.prop)
        if hasattr(mod, 'replay_file'):
            return mod.replay_file(v)
        return 0
    try:
        res, mod = check_property(a.prop, a.tier, seed, a.only)
        if a.record_baseline:
            b = write_baseline(res)
            log('baseline recorded: %d discharged obligations' % len(b['discharged']))
        return finish(res, mod, a.tier, seed, getattr(mod, 'LEVEL', 'proof'))
    except CheckerDefect as e:
        log('CHECKER-DEFECT property=%s %s' % (a.prop, e))
        return 3
    except Exception:
        traceback.print_exc()
        log('CHECKER-CRASH property=%s' % a.prop)
        return 3
