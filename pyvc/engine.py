"""The pyvc verification-condition generator: symbolic execution of one real function (AST read
from the working tree) against its sidecar contract; emits named obligations as z3 formulas."""
import ast
import itertools

import z3

from .vals import (V, IntV, BoolV, NoneV, NONE, ConstV, TupV, SeqV, ListV, PyListV, RefV, UnionV, OpaqueV,
                   FuncV, ExcV, Unsupported, IntSeq, USort, is_exc)
from .pure import (PureEval, truthy, to_int, is_intlike, lift, const_of, fresh, mk_union, SetV, SetSort, equal)
from .state import St, feasible
from .expr import ExprMixin, ModuleHandle
from .stmt import StmtMixin, contains_yield
from .calls import CallMixin, TypeName, SliceV
from .repoidx import Repo, ClassHandle, func_hash

BUILTINS = ['len', 'min', 'max', 'abs', 'bool', 'int', 'isinstance', 'type', 'hasattr', 'tuple', 'list',
            'bytes', 'bytearray', 'range', 'reversed', 'sorted', 'map', 'iter', 'next', 'str', 'repr', 'dict',
            'dotdict', 'slice', 'zip']
TYPE_NAMES = ['int', 'bool', 'bytes', 'bytearray', 'str', 'tuple', 'list', 'dict', 'float', 'slice', 'type_str_base']
MODULES = ['struct', 'random', 'logging', 'log', 'sys', 'traceback', 'misc']


class Oblig(object):
    """One named proof obligation; `queries` are (hyps, claim, meta) — the obligation is discharged
    iff every query `hyps and not claim` is unsat."""

    def __init__(self, name, kind):
        self.name = name
        self.kind = kind
        self.queries = []
        self.status = None
        self.results = []
        self.line = None

    def add(self, hyps, claim, meta):
        self.queries.append((list(hyps), claim, meta))


class Engine(ExprMixin, StmtMixin, CallMixin):
    def __init__(self, repo, spec, prune=True, max_steps=200000):
        self.repo = repo
        self.spec = spec
        self.prune = prune
        self.max_steps = max_steps
        self.mod, self.cls, self.fdef = repo.find_function(*spec.target)
        if spec.cls_name:
            self.cls = repo.find_class(spec.cls_name, prefer=self.mod)
        self.obligs = {}
        self.order = []
        self.nforks = 0
        self.nstmts = 0
        self._unparse = {}
        self._ids = itertools.count(1)
        self.env_keys = set(spec.env.keys())
        self.env_used = set()
        self.dropped = set()
        self.inlined = set()
        self.called = set()
        self.tracked_refs = set()
        self.digit_facts = []
        self.pending_facts = []
        self.loop_nodes = sorted([n for n in ast.walk(self.fdef) if isinstance(n, (ast.For, ast.While))],
                                 key=lambda n: (n.lineno, n.col_offset))
        self.is_generator = contains_yield(self.fdef.body) and spec.yields is not None
        self.paths = []       # terminal outcomes: (state, outcome)
        self.entry = None
        self.init_vals = {}

    def new_id(self):
        return next(self._ids)

    # ---------------------------------------------------------------- names
    def global_name(self, nm, n):
        if nm in self.spec.consts:
            return lift(self.spec.consts[nm])
        if nm in TYPE_NAMES:
            return ConstV(TypeName(nm))
        if nm in BUILTINS:
            return FuncV(nm, ('builtin', nm))
        if nm in ('True', 'False', 'None'):
            return lift({'True': True, 'False': False, 'None': None}[nm])
        if nm in MODULES:
            return ConstV(ModuleHandle(nm))
        if nm in EXC_NAMES:
            return ConstV(TypeName(nm))
        if nm in self.mod.funcs:
            return FuncV(nm, ('repofn', self.mod, self.mod.funcs[nm]))
        ch = self.repo.find_class(nm, prefer=self.mod)
        if ch is not None:
            return ConstV(ch)
        for rel in Repo.SEARCH:
            try:
                m = self.repo.module(rel)
            except (IOError, OSError):
                continue
            if nm in m.funcs:
                return FuncV(nm, ('repofn', m, m.funcs[nm]))
        try:
            return lift(self.repo.module_const(self.mod, nm))
        except Unsupported:
            pass
        raise Unsupported('unknown global name %r at line %s' % (nm, getattr(n, 'lineno', '?')))

    def env_value(self, key, st):
        text = self.spec.env[key]
        if callable(text):
            return text(self, st)
        val, facts = self.contract_value(text, st, init=True)
        st.pc.extend(facts)
        return val

    # ---------------------------------------------------------------- contract expressions
    def contract_funcs(self, st):
        eng = self

        def getattr_hook(base, attr):
            if isinstance(base, RefV):
                if base.kind == 'obj' and (base.id, attr) in st.heap:
                    v = st.heap[(base.id, attr)]
                    if isinstance(v, RefV) and v.kind == 'list':
                        return st.heap[(v.id, 'val')]
                    return v
                if base.kind == 'rec' and (base.id, attr) in st.heap:
                    v = st.heap[(base.id, attr)][1]
                    if isinstance(v, RefV) and v.kind == 'list':
                        return eng.deref_for_contract(v, st)
                    return v
            if isinstance(base, RefV) and base.kind == 'rec':
                # a field the path never assigned: an unknown value (nothing can be proved about it)
                return OpaqueV(fresh('absent_' + attr, USort), 'absent field ' + attr)
            if isinstance(base, (OpaqueV, NoneV, BoolV, IntV)):
                # (an attribute of a scalar only occurs in a clause under a guard that excludes it: unknown value, nothing can be proved from it)
                return OpaqueV(fresh('absent_' + attr, USort), 'field of unknown')
            raise Unsupported('contract attribute .%s of %r' % (attr, base))

        def has(pe, rec, key):
            return BoolV(eng.rec_has(st, rec, key.py))

        def OUT(pe, j):
            jj = to_int(j)
            if len(st.out_arr) == 1:
                return IntV(z3.Select(st.out_arr[0], jj))
            return TupV([IntV(z3.Select(a, jj)) for a in st.out_arr])
        def rest(pe, it):
            if not (isinstance(it, RefV) and it.kind == 'iter'):
                raise Unsupported('rest() of %r' % (it,))
            seq = st.heap[(it.id, 'seq')]
            pos = to_int(st.heap[(it.id, 'pos')])
            return SeqV(z3.SubSeq(seq.t, pos, z3.Length(seq.t) - pos), 'list')
        fs = {'__getattr__': getattr_hook, 'has': has, 'OUT': OUT, 'rest': rest}
        fs.update(self.spec.hints.get('funcs', {}))
        return fs

    def contract_ns(self, st, extra=None, init=False):
        """namespace for contract expressions: in `init` mode (requires / ensures / raises / env)
        bare names denote the initial parameter values; otherwise the current locals."""
        ns = {}
        if not init:
            for k, v in st.loc.items():
                ns[k] = self.deref_for_contract(v, st)
            for k, v in self.init_vals.items():
                ns['old(%s)' % k] = v
                ns.setdefault(k, v)
        else:
            for k, v in self.init_vals.items():
                ns[k] = v
                ns['old(%s)' % k] = v
        for k, v in st.ghost.items():
            ns[k] = v
        for k, v in self.init_heap_ns.items():
            ns['old(%s)' % k] = v
        if st.out_n is not None:
            ns['NOUT'] = IntV(st.out_n)
        if extra:
            for k, v in extra.items():
                ns[k] = self.deref_for_contract(v, st) if isinstance(v, V) else v
        return ns

    def deref_for_contract(self, v, st):
        if isinstance(v, RefV) and v.kind == 'list':
            cur = st.heap.get((v.id, 'val'))
            if isinstance(cur, PyListV) and cur.items and all(is_intlike(i) for i in cur.items):
                return SeqV(self.seq_of_items(cur.items), 'list')
            if isinstance(cur, PyListV) and not cur.items:
                return SeqV(z3.Empty(IntSeq), 'list')
            return cur
        return v

    def old_evaluator(self, st0, defs):
        """old(expr): expr evaluated in the (entry / pre-call) state st0"""
        def ev_old(node):
            pe = PureEval(self.contract_ns(st0, None, init=True), defs=defs, funcs=self.contract_funcs(st0))
            return pe.ev(node)
        return ev_old

    def contract_value(self, text, st, extra=None, init=False):
        pe = PureEval(self.contract_ns(st, extra, init), defs=self.spec.defs, funcs=self.contract_funcs(st),
                      old_eval=self.old_evaluator(self.entry, self.spec.defs) if getattr(self, 'entry', None) is not None else None)
        v = pe.text(text)
        return v, pe.facts

    def contract_bool(self, text, st, extra=None, init=False):
        v, facts = self.contract_value(text, st, extra, init)
        return truthy(v), facts

    # ---------------------------------------------------------------- obligations
    def add_oblig(self, name, kind, st, claim, facts=(), line=None):
        c = z3.simplify(claim)
        ob = self.obligs.get(name)
        if ob is None:
            ob = self.obligs[name] = Oblig(name, kind)
            ob.line = line
            self.order.append(name)
        if z3.is_true(c):
            ob.add([], z3.BoolVal(True), dict(trivial=True, trace=list(st.trace)))
            return
        ob.add(list(st.pc) + list(facts), claim, dict(trace=list(st.trace), line=line))

    # ---------------------------------------------------------------- parameters
    def fresh_of_sort(self, sort, name, st):
        """returns (value, state) — the state may gain side facts (ranges, lengths)"""
        if callable(sort):
            return sort(self, name, st)
        if isinstance(sort, tuple):
            tag = sort[0]
            if tag == 'Rec':
                flds = {}
                s = st
                rid = self.new_id()
                s = s.clone()
                for k, fsort in sort[1].items():
                    optional = k.endswith('?')
                    key = k.rstrip('?')
                    v, s = self.fresh_of_sort(fsort, '%s.%s' % (name, key), s)
                    present = fresh('has_%s.%s' % (name, key), 'Bool') if optional else z3.BoolVal(True)
                    s.heap[(rid, key)] = (present, v)
                s.heap[(rid, '__closed__')] = True
                s.heap[(rid, '__keys__')] = tuple(k.rstrip('?') for k in sort[1])
                return RefV(rid, 'rec'), s
            if tag == 'Tuple':
                items = []
                s = st
                for i, fs in enumerate(sort[1]):
                    v, s = self.fresh_of_sort(fs, '%s.%d' % (name, i), s)
                    items.append(v)
                return TupV(items), s
            if tag == 'Union':
                alts = []
                s = st
                gs = []
                for i, fs in enumerate(sort[1]):
                    v, s = self.fresh_of_sort(fs, '%s_alt%d' % (name, i), s)
                    alts.append(v)
                sel = fresh('which_' + name)
                s = s.clone()
                s.pc += [sel >= 0, sel < len(alts)]
                return UnionV([(sel == i, a) for i, a in enumerate(alts)]), s
            if tag == 'Const':
                return lift(sort[1]), st
            if tag == 'Obj':
                return self.fresh_obj(sort[1], sort[2], name, st)
        if sort == 'Int':
            return IntV(z3.Int(name)), st
        if sort == 'Nat':
            t = z3.Int(name)
            s = st.clone()
            s.pc.append(t >= 0)
            return IntV(t), s
        if sort == 'Real':
            return IntV(z3.Real(name)), st          # T8: a float treated as an exact real
        if sort == 'Bool':
            return BoolV(z3.Bool(name)), st
        if sort == 'None':
            return NONE, st
        if sort == 'OptInt':
            isn = z3.Bool(name + '.is_none')
            return UnionV([(isn, NONE), (z3.Not(isn), IntV(z3.Int(name)))]), st
        if sort in ('Bytes', 'Str', 'IntList', 'ByteArray', 'ByteList'):
            t = z3.Const(name, IntSeq)
            kind = {'Bytes': 'bytes', 'Str': 'str', 'IntList': 'list', 'ByteArray': 'bytearray', 'ByteList': 'list'}[sort]
            s = st
            if sort in ('Bytes', 'ByteArray', 'ByteList'):
                j = fresh('bj')
                s = st.clone()
                s.pc.append(z3.ForAll([j], z3.Implies(z3.And(0 <= j, j < z3.Length(t)), z3.And(t[j] >= 0, t[j] <= 255))))
            if sort == 'Str':
                j = fresh('bj')
                s = st.clone()
                s.pc.append(z3.ForAll([j], z3.Implies(z3.And(0 <= j, j < z3.Length(t)), z3.And(t[j] >= 0, t[j] <= 0x10ffff))))
            return SeqV(t, kind), s
        if sort == 'MutIntList':
            t = z3.Const(name, IntSeq)
            s = st.clone()
            rid = self.new_id()
            s.heap[(rid, 'val')] = SeqV(t, 'list')
            return RefV(rid, 'list'), s
        if sort == 'Iter':
            seq = z3.Const(name + '.seq', IntSeq)
            pos = z3.Int(name + '.pos')
            s = st.clone()
            rid = self.new_id()
            s.heap[(rid, 'seq')] = SeqV(seq, 'list')
            s.heap[(rid, 'pos')] = IntV(pos)
            s.pc += [pos >= 0, pos <= z3.Length(seq)]
            self.tracked_refs.add(rid)
            return RefV(rid, 'iter'), s
        if sort == 'PairList':
            n = z3.Int(name + '.len')
            fa = z3.Function(name + '.a', z3.IntSort(), z3.IntSort())
            fc = z3.Function(name + '.c', z3.IntSort(), z3.IntSort())
            s = st.clone()
            s.pc.append(n >= 0)
            return ListV(n, lambda i: TupV([IntV(fa(i)), IntV(fc(i))]), tag=name), s
        if sort == 'Set':
            return SetV(z3.Const(name, SetSort)), st
        if sort == 'Opaque':
            return OpaqueV(z3.Const(name, USort), name), st
        raise Unsupported('unknown sort %r for %s' % (sort, name))

    def fresh_obj(self, cls_name, fields, name, st):
        ch = self.repo.find_class(cls_name, prefer=self.mod)
        if ch is None:
            raise Unsupported('stale contract: class %s not found' % cls_name)
        s = st.clone()
        rid = self.new_id()
        for f, fs in fields.items():
            v, s = self.fresh_of_sort(fs, '%s.%s' % (name, f), s)
            s.heap[(rid, f)] = v
            if isinstance(v, RefV):
                self.tracked_refs.add(v.id)
        self.tracked_refs.add(rid)
        return RefV(rid, 'obj', ch), s

    def resolve_field(self, path, st):
        """'self._x' -> (ref, field)"""
        parts = path.split('.')
        v = st.loc.get(parts[0]) if parts[0] in st.loc else self.init_vals.get(parts[0])
        for p in parts[1:-1]:
            v = st.heap[(v.id, p)]
        return v, parts[-1]

    # ---------------------------------------------------------------- run
    def run(self):
        spec = self.spec
        st = St()
        names = [a.arg for a in self.fdef.args.args]
        if self.fdef.args.kwonlyargs:
            names += [a.arg for a in self.fdef.args.kwonlyargs]
        for nm in spec.params:
            if nm not in names and not nm.startswith('_g_'):
                raise Unsupported('stale contract: %s has no parameter %r' % (spec.name, nm))
        for nm, sort in spec.params.items():
            v, st = self.fresh_of_sort(sort, nm, st)
            if not nm.startswith('_g_'):
                st.loc[nm] = v
            self.init_vals[nm] = v
        if self.fdef.args.kwarg is not None and self.fdef.args.kwarg.arg not in st.loc:
            st, v = self.new_rec(st, {}, closed=True)          # **kwds: no extra keywords
            st.loc[self.fdef.args.kwarg.arg] = v
            self.init_vals[self.fdef.args.kwarg.arg] = v
        # parameters without a declared sort: defaults from the signature, else opaque
        defaults = self.fdef.args.defaults
        dnames = names[len(names) - len(defaults):] if defaults else []
        for nm in names:
            if nm in st.loc:
                continue
            if nm in ('self', 'cls') and self.cls is not None and nm == names[0]:
                if nm == 'cls' or any(isinstance(d, ast.Name) and d.id == 'classmethod' for d in self.fdef.decorator_list):
                    st.loc[nm] = ConstV(self.cls)
                else:
                    v, st = self.fresh_obj(self.cls.name, spec.fields, 'self', st)
                    st.loc[nm] = v
                self.init_vals[nm] = st.loc[nm]
                continue
            if nm in dnames:
                st.loc[nm] = lift(self.repo.const_eval(defaults[dnames.index(nm)], self.mod, None))
                self.init_vals[nm] = st.loc[nm]
                continue
            st.loc[nm] = OpaqueV(z3.Const(nm, USort), nm)
            self.init_vals[nm] = st.loc[nm]
        for nm, sort in spec.hints.get('locals', {}).items():
            v, st = self.fresh_of_sort(sort, nm, st)
            st.loc[nm] = v
            self.init_vals[nm] = v
        for r in list(self.init_vals.values()):
            if isinstance(r, RefV):
                self.tracked_refs.add(r.id)
        # snapshot of the initial heap for old(self.f)
        self.init_heap_ns = {}
        for nm, v in self.init_vals.items():
            if isinstance(v, RefV) and v.kind == 'obj':
                for (rid, f), fv in st.heap.items():
                    if rid == v.id:
                        self.init_heap_ns['%s.%s' % (nm, f)] = self.deref_for_contract(fv, st)
            if isinstance(v, RefV) and v.kind == 'list':
                self.init_heap_ns[nm] = st.heap[(v.id, 'val')]
        # ghost + generator output
        if self.is_generator or spec.yields is not None:
            st.out_n = z3.IntVal(0)
            st.out_arr = [z3.K(z3.IntSort(), z3.IntVal(0)) for _ in range(spec.yields)]
        self.init_ghost_done = False
        st.ghost = {}
        # requires
        req, facts = self.contract_bool(spec.requires, st, init=True)
        st.pc.extend(facts)
        st.pc.append(req)
        for f in spec.facts:
            fv, facts = self.contract_bool(f, st, init=True)
            st.pc.extend(facts)
            st.pc.append(fv)
        for g, (sort, init) in spec.ghost.items():
            v, facts = self.contract_value(init, st, init=True)
            st.pc.extend(facts)
            st.ghost[g] = v
        self.entry = st
        # vacuity: requires must be satisfiable
        self.requires_sat = feasible(st, 5000)
        body = self.fdef.body
        if spec.fragment is not None:
            body = spec.fragment(self, self.fdef)
        for s1, out in self.ex(body, st):
            if out[0] == 'next':
                out = ('return', NONE)
            if out[0] in ('break', 'continue'):
                raise Unsupported('break/continue escaped the function body')
            self.paths.append((s1, out))
            self.finish_path(s1, out)
        # an env entry the code (no longer) reads: the contract is stale for that path; reported as
        # undecided by the driver, after the obligations that could be generated
        self.stale_env = sorted(self.env_keys - self.env_used)
        return self

    def finish_path(self, st, out):
        spec = self.spec
        if out[0] == 'return':
            res = out[1]
            extra = {'result': res}
            for k, v in st.loc.items():
                extra['_f_' + k] = v           # final value of local k (used by fragment contracts)
            for label, text in spec.ensures:
                val, facts = self.contract_bool(text, st, extra, init=True)
                self.add_oblig('post[%s]' % label, 'post', st, val, facts)
            for label, text in spec.refuses:
                val, facts = self.contract_bool(text, st, None, init=True)
                self.add_oblig('refuses[%s]' % label, 'refuse', st, z3.Not(val), facts)
            # frame
            allowed = set(spec.modifies)
            for rid, fld, line in st.writes:
                path = self.path_of(rid, fld)
                if path not in allowed:
                    self.add_oblig('frame[%s]' % path, 'frame', st, z3.BoolVal(False), [], line=line)
            if spec.modifies or st.writes:
                self.obligs.setdefault('frame', None)
                if self.obligs['frame'] is None:
                    ob = Oblig('frame', 'frame')
                    ob.add([], z3.BoolVal(True), dict(trivial=True, syntactic=True))
                    self.obligs['frame'] = ob
                    self.order.append('frame')
        else:
            exc = out[1]
            cond = None
            for cls_name, text in spec.raises.items():
                from .stmt import exc_isa
                if exc_isa(exc.cls, cls_name):
                    cond = text
                    break
            if cond is None:
                self.add_oblig('noexc[%s]' % exc.cls, 'noexc', st, z3.BoolVal(False), [], line=exc.line)
            else:
                val, facts = self.contract_bool(cond, st, None, init=True)
                self.add_oblig('raises-only-if[%s]' % exc.cls, 'raises', st, val, facts, line=exc.line)
            for label, text in spec.accepts:
                val, facts = self.contract_bool(text, st, None, init=True)
                self.add_oblig('accepts[%s]' % label, 'accept', st, z3.Not(val), facts, line=exc.line)
            if spec.pure_on_raise:
                for rid, fld, line in st.writes:
                    self.add_oblig('pure-on-raise[%s]' % self.path_of(rid, fld), 'frame', st, z3.BoolVal(False), [], line=line)

    def path_of(self, rid, fld):
        for nm, v in self.init_vals.items():
            if isinstance(v, RefV) and v.id == rid:
                return '%s.%s' % (nm, fld)
            if isinstance(v, RefV) and v.kind == 'obj':
                for (r2, f2), fv in self.entry.heap.items():
                    if r2 == v.id and isinstance(fv, RefV) and fv.id == rid:
                        return '%s.%s' % (nm, f2)
        return '#%s.%s' % (rid, fld)

    def ensure_declared(self):
        """make sure every declared clause exists as an obligation even if no path reached it
        (then it is vacuous — reported, see cover)"""
        for label, _ in self.spec.ensures:
            nm = 'post[%s]' % label
            if nm not in self.obligs:
                self.obligs[nm] = Oblig(nm, 'post')
                self.order.append(nm)


EXC_NAMES = ['Exception', 'AssertionError', 'KeyError', 'IndexError', 'ValueError', 'TypeError', 'StopIteration',
             'AttributeError', 'RuntimeError', 'GeneratorExit', 'NotImplementedError']
