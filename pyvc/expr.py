"""Expression evaluation of the code executor (forking; Python semantics incl. exceptions).

`ev(node, st)` is a generator of (state, value); an exceptional outcome is an ExcV value.
"""
import ast

import z3

from .vals import (V, IntV, BoolV, NoneV, NONE, ConstV, TupV, SeqV, ListV, PyListV, RefV, UnionV, OpaqueV,
                   FuncV, ExcV, Unsupported, IntSeq, is_exc, z3_true, z3_false)
from .pure import (arith, compare, truthy, equal, to_int, is_intlike, lift, const_of, pmap, mk_union, alts_of,
                   seq_index, seq_slice, clamp_slice, fresh, contains, SetV, lift_seq_const, REP_FACTS)
from .state import feasible
from .repoidx import ClassHandle


class ExprMixin(object):

    # ---------------------------------------------------------------- forking helpers
    def fork(self, st, cond, label=None):
        """yield (state, True) and (state, False) for the feasible sides of z3 Bool `cond`"""
        c = z3.simplify(cond)
        if z3.is_true(c):
            yield st, True
            return
        if z3.is_false(c):
            yield st, False
            return
        for side, f in ((True, cond), (False, z3.Not(cond))):
            s = st.assume(f, label=None if label is None else '%s%s' % ('' if side else '!', label))
            if s is None:
                continue
            self.nforks += 1
            if self.prune and not feasible(s):
                continue
            yield s, side

    def split(self, st, v):
        """yield (state, definite-tag value) for every feasible alternative of v"""
        if not isinstance(v, UnionV):
            yield st, v
            return
        for g, a in v.alts:
            for s, side in self.fork(st, g):
                if side:
                    yield from self.split(s, a)

    def evs(self, nodes, st):
        """evaluate a list of expressions left to right; yields (state, [values]) or (state, ExcV)"""
        if not nodes:
            yield st, []
            return
        for s1, v in self.ev(nodes[0], st):
            if is_exc(v):
                yield s1, v
                continue
            for s2, rest in self.evs(nodes[1:], s1):
                if is_exc(rest):
                    yield s2, rest
                else:
                    yield s2, [v] + rest

    def truth(self, st, v, label=None):
        """fork on the Python truth value of v: yields (state, bool)"""
        for s, a in self.split(st, v):
            if isinstance(a, RefV) and a.kind == 'rec' and s.heap.get((a.id, '__closed__'), False) and (a.id, '__keys__') in s.heap:
                # a mapping is true exactly when it has at least one key (closed record: the declared optional fields)
                flags = [s.heap[(a.id, k)][0] for k in s.heap[(a.id, '__keys__')]]
                yield from self.fork(s, z3.Or(*flags) if flags else z3.BoolVal(False), label)
                continue
            hook = self.spec.hints.get('truthy')
            t = hook(self, a, s) if hook is not None else None
            yield from self.fork(s, t if t is not None else truthy(self.deref_list(a, s)), label)

    # ---------------------------------------------------------------- dispatch
    def ev(self, n, st):
        if isinstance(n, (ast.Call, ast.Attribute, ast.Subscript, ast.Name, ast.IfExp, ast.Compare, ast.ListComp)) and self.env_keys:
            key = self.unparse(n)
            if key in self.env_keys:
                self.env_used.add(key)
                yield st, self.env_value(key, st)
                return
        m = getattr(self, 'ev_' + type(n).__name__, None)
        if m is None:
            raise Unsupported('expression construct %s at line %s' % (type(n).__name__, getattr(n, 'lineno', '?')))
        yield from m(n, st)

    def unparse(self, n):
        k = id(n)
        if k not in self._unparse:
            self._unparse[k] = ast.unparse(n)
        return self._unparse[k]

    def ev_Constant(self, n, st):
        yield st, lift(n.value)

    def ev_Name(self, n, st):
        nm = n.id
        if nm in st.loc:
            yield st, st.loc[nm]
            return
        yield st, self.global_name(nm, n)

    def ev_Tuple(self, n, st):
        for s, vs in self.evs(n.elts, st):
            yield s, (vs if is_exc(vs) else TupV(vs))

    def ev_List(self, n, st):
        for s, vs in self.evs(n.elts, st):
            if is_exc(vs):
                yield s, vs
            else:
                yield self.new_list(s, PyListV(vs))

    def ev_Set(self, n, st):
        # a set display is only used for membership tests in the code under contract
        for s, vs in self.evs(n.elts, st):
            yield s, (vs if is_exc(vs) else TupV(vs))

    def ev_Dict(self, n, st):
        if not n.keys and self.spec.hints.get('empty_dict') is not None:
            yield self.spec.hints['empty_dict'](self, st)      # a sidecar map model for a dict keyed by symbolic strings
            return
        if all(isinstance(k, ast.Constant) for k in n.keys):
            for s, vs in self.evs(n.values, st):
                if is_exc(vs):
                    yield s, vs
                    continue
                yield self.new_rec(s, dict((k.value, v) for k, v in zip(n.keys, vs)), closed=True)
            return
        # a dict display whose keys are class constants: evaluate as a constant
        try:
            yield st, ConstV(self.repo.const_eval(n, self.mod, self.cls))
            return
        except Unsupported:
            pass
        raise Unsupported('dict display with computed keys at line %d' % n.lineno)

    def ev_UnaryOp(self, n, st):
        for s, v in self.ev(n.operand, st):
            if is_exc(v):
                yield s, v
                continue
            if isinstance(n.op, ast.Not):
                for s2, t in self.truth(s, v):
                    yield s2, BoolV(not t)
            elif isinstance(n.op, ast.USub):
                for s2, a in self.split(s, v):
                    yield s2, IntV(-to_int(a))
            elif isinstance(n.op, ast.UAdd):
                yield s, v
            elif isinstance(n.op, ast.Invert):
                for s2, a in self.split(s, v):
                    yield s2, IntV(-to_int(a) - 1)
            else:
                raise Unsupported('unary operator')

    def ev_BinOp(self, n, st):
        for s, vs in self.evs([n.left, n.right], st):
            if is_exc(vs):
                yield s, vs
                continue
            yield from self.binop(n.op, vs[0], vs[1], s, n)

    def binop(self, op, a, b, st, n=None):
        line = getattr(n, 'lineno', None)
        for s1, x in self.split(st, a):
            for s2, y in self.split(s1, b):
                if isinstance(op, (ast.FloorDiv, ast.Mod)) and is_intlike(x) and is_intlike(y):
                    for s3, zero in self.fork(s2, to_int(y) == 0):
                        if zero:
                            yield s3, ExcV('ZeroDivisionError', 'division by zero', line)
                        else:
                            yield s3, arith(op, x, y)
                    continue
                if isinstance(op, ast.Mod) and isinstance(x, ConstV) and isinstance(x.py, (str, bytes)):
                    yield from self.str_format(x, y, s2, n)
                    continue
                if isinstance(op, ast.Add) and isinstance(x, RefV) and x.kind == 'list':
                    x = s2.heap[(x.id, 'val')]
                    if isinstance(y, RefV) and y.kind == 'list':
                        y = s2.heap[(y.id, 'val')]
                    r = self.list_concat(x, y)
                    yield self.new_list(s2, r)
                    continue
                if isinstance(op, ast.Add) and isinstance(x, SeqV) and isinstance(y, ConstV) and isinstance(y.py, (bytes, str)):
                    y = lift_seq_const(y.py)
                if isinstance(op, ast.Add) and isinstance(y, SeqV) and isinstance(x, ConstV) and isinstance(x.py, (bytes, str)):
                    x = lift_seq_const(x.py)
                if isinstance(op, ast.Mult) and isinstance(x, ConstV) and isinstance(x.py, (bytes, str)) and is_intlike(y):
                    x = lift_seq_const(x.py)
                r = arith(op, x, y)
                s2 = self.absorb_rep_facts(s2)
                yield s2, r

    def absorb_rep_facts(self, st):
        if REP_FACTS:
            st = st.clone()
            while REP_FACTS:
                _, facts = REP_FACTS.pop()
                st.pc.extend(facts)
        return st

    def list_concat(self, x, y):
        if isinstance(x, ListV) or isinstance(y, ListV):
            def as_fl(v):
                if isinstance(v, ListV):
                    return v
                if isinstance(v, PyListV):
                    items = v.items

                    def get(i, items=items):
                        if not items:
                            return IntV(0)
                        return mk_union([(i == k, it) for k, it in enumerate(items[:-1])] + [(z3.And(*[i != k for k in range(len(items) - 1)]) if len(items) > 1 else z3.BoolVal(True), items[-1])])
                    return ListV(z3.IntVal(len(items)), get, tag='flist')
                if isinstance(v, SeqV):
                    return ListV(z3.Length(v.t), lambda i: IntV(v.t[i]), tag='flist')
                raise Unsupported('list + on %r' % (v,))
            a, b = as_fl(x), as_fl(y)
            return ListV(a.n + b.n, lambda i: mk_union([(i < a.n, a.get(i)), (z3.Not(i < a.n), b.get(i - a.n))]), tag='flist')
        if isinstance(x, PyListV) and isinstance(y, PyListV):
            return PyListV(x.items + y.items)
        if isinstance(x, SeqV) and isinstance(y, SeqV):
            return SeqV(z3.Concat(x.t, y.t), x.kind)
        if isinstance(x, PyListV) and isinstance(y, SeqV) and all(is_intlike(i) for i in x.items):
            return SeqV(z3.Concat(self.seq_of_items(x.items), y.t), 'list')
        if isinstance(x, SeqV) and isinstance(y, PyListV) and all(is_intlike(i) for i in y.items):
            if not y.items:
                return x
            return SeqV(z3.Concat(x.t, self.seq_of_items(y.items)), 'list')
        raise Unsupported('list + on %r, %r' % (x, y))

    def seq_of_items(self, items):
        if not items:
            return z3.Empty(IntSeq)
        us = [z3.Unit(to_int(i)) for i in items]
        return us[0] if len(us) == 1 else z3.Concat(*us)

    def str_format(self, fmt, arg, st, n):
        """'%d' % n and friends: only the forms with an axiomatised meaning are supported"""
        f = fmt.py
        if isinstance(f, bytes):
            raise Unsupported('bytes %-formatting')
        if f in ('%d', '%d:') and is_intlike(arg):
            digs = self.digits(to_int(arg))
            st = st.clone()
            st.pc.extend(self.digit_facts)
            self.digit_facts = []
            r = digs if f == '%d' else z3.Concat(digs, z3.Unit(z3.IntVal(ord(':'))))
            yield st, SeqV(r, 'str')
            return
        raise Unsupported('string formatting %r at line %s' % (f, getattr(n, 'lineno', '?')))

    def ev_BoolOp(self, n, st):
        b = self.pure_bool(n, st)
        if b is not None:
            yield st, BoolV(b)              # comparisons of integer locals joined by and / or / not: one value, no fork per operand
            return
        yield from self.boolop(n.op, n.values, st)

    def pure_int(self, n, st):
        """z3 integer term of an expression that cannot raise and has no effect: integer constants, locals bound to plain integers, + - * and
        unary minus of those; None for anything else"""
        if isinstance(n, ast.Constant) and isinstance(n.value, int) and not isinstance(n.value, bool):
            return z3.IntVal(n.value)
        if isinstance(n, ast.Name):
            v = st.loc.get(n.id)
            if isinstance(v, IntV) and not isinstance(v, BoolV) and z3.is_int(v.t):
                return v.t
            return None
        if isinstance(n, ast.BinOp) and isinstance(n.op, (ast.Add, ast.Sub, ast.Mult)):
            a, b = self.pure_int(n.left, st), self.pure_int(n.right, st)
            if a is None or b is None:
                return None
            return a + b if isinstance(n.op, ast.Add) else a - b if isinstance(n.op, ast.Sub) else a * b
        if isinstance(n, ast.UnaryOp) and isinstance(n.op, ast.USub):
            a = self.pure_int(n.operand, st)
            return None if a is None else -a
        return None

    def pure_bool(self, n, st):
        """z3 Bool of a condition built only from comparison chains of pure integer expressions, and / or / not; None otherwise.
        Python's and / or return operands, which here are all bools, so the value is the boolean combination."""
        if isinstance(n, ast.BoolOp):
            parts = [self.pure_bool(v, st) for v in n.values]
            if any(p is None for p in parts):
                return None
            return z3.And(*parts) if isinstance(n.op, ast.And) else z3.Or(*parts)
        if isinstance(n, ast.UnaryOp) and isinstance(n.op, ast.Not):
            a = self.pure_bool(n.operand, st)
            return None if a is None else z3.Not(a)
        if isinstance(n, ast.Compare):
            terms = [self.pure_int(x, st) for x in [n.left] + list(n.comparators)]
            if any(t is None for t in terms):
                return None
            out = []
            for op, a, b in zip(n.ops, terms, terms[1:]):
                if isinstance(op, ast.Lt):
                    out.append(a < b)
                elif isinstance(op, ast.LtE):
                    out.append(a <= b)
                elif isinstance(op, ast.Gt):
                    out.append(a > b)
                elif isinstance(op, ast.GtE):
                    out.append(a >= b)
                elif isinstance(op, ast.Eq):
                    out.append(a == b)
                elif isinstance(op, ast.NotEq):
                    out.append(a != b)
                else:
                    return None
            return z3.And(*out) if len(out) > 1 else out[0]
        return None

    def boolop(self, op, values, st):
        if len(values) == 1:
            yield from self.ev(values[0], st)
            return
        for s, v in self.ev(values[0], st):
            if is_exc(v):
                yield s, v
                continue
            for s2, t in self.truth(s, v, label='L%d' % values[0].lineno):
                stop = (not t) if isinstance(op, ast.And) else t
                if stop:
                    yield s2, self.narrow(v, t)
                else:
                    yield from self.boolop(op, values[1:], s2)

    def narrow(self, v, t):
        """the operand value returned by and/or given its truth value is known"""
        if isinstance(v, BoolV):
            return BoolV(bool(t))
        return v

    def ev_IfExp(self, n, st):
        for s, c in self.ev(n.test, st):
            if is_exc(c):
                yield s, c
                continue
            for s2, t in self.truth(s, c, label='L%d' % n.lineno):
                yield from self.ev(n.body if t else n.orelse, s2)

    def ev_Compare(self, n, st):
        # operands are evaluated left to right; a later operand is only evaluated when the chain has
        # not already failed (Python short-circuit)
        for s, left in self.ev(n.left, st):
            if is_exc(left):
                yield s, left
                continue
            yield from self.cmp_chain(left, list(zip(n.ops, n.comparators)), s, n)

    def cmp_chain(self, left, rest, st, n):
        op, rn = rest[0]
        for s, right in self.ev(rn, st):
            if is_exc(right):
                yield s, right
                continue
            for s1, a in self.split(s, left):
                for s2, b in self.split(s1, right):
                    for s3, c in self.compare_v(op, a, b, s2, n):
                        if is_exc(c):
                            yield s3, c
                            continue
                        if len(rest) == 1:
                            yield s3, BoolV(c)
                        else:
                            for s4, t in self.fork(s3, c):
                                if not t:
                                    yield s4, BoolV(False)
                                else:
                                    yield from self.cmp_chain(b, rest[1:], s4, n)

    def compare_v(self, op, a, b, st, n):
        """yields (state, z3 Bool | ExcV)"""
        if isinstance(op, (ast.In, ast.NotIn)) and isinstance(b, RefV) and b.kind == 'obj' and b.cls is not None and b.cls.find_method('__contains__')[1] is not None:
            # membership in an object of a repository class: its own __contains__ (by contract or body)
            c, m = b.cls.find_method('__contains__')
            for s2, r in self.call_repo(None, ('method', b, c, m), [a], {}, st, n):
                if is_exc(r):
                    yield s2, r
                else:
                    t = truthy(r)
                    yield s2, (t if isinstance(op, ast.In) else z3.Not(t))
            return
        if isinstance(op, (ast.In, ast.NotIn)):
            r = self.contains_v(b, a, st, n)
            yield st, (r if isinstance(op, ast.In) else z3.Not(r))
            return
        a = self.deref_list(a, st)
        b = self.deref_list(b, st)
        if isinstance(op, (ast.Lt, ast.LtE, ast.Gt, ast.GtE)) and \
                (isinstance(a, NoneV) or isinstance(b, NoneV)):
            yield st, ExcV('TypeError', 'ordering with None', getattr(n, 'lineno', None))
            return
        yield st, compare(op, a, b)

    def deref_list(self, v, st):
        if isinstance(v, RefV) and v.kind == 'list':
            return st.heap[(v.id, 'val')]
        return v

    def contains_v(self, box, x, st, n):
        if isinstance(box, RefV):
            if box.kind == 'rec':
                if isinstance(x, ConstV) and isinstance(x.py, str):
                    if '.' in x.py:
                        # dotdict: 'a.b' in d  ==  'a' in d and 'b' in d.a
                        cur, conds = box, []
                        for part in x.py.split('.'):
                            if not (isinstance(cur, RefV) and cur.kind == 'rec'):
                                return z3.BoolVal(False)
                            conds.append(self.rec_has(st, cur, part))
                            cur = st.heap.get((cur.id, part), (None, None))[1]
                        return z3.And(*conds)
                    return self.rec_has(st, box, x.py)
                raise Unsupported('`in` record with a symbolic key')
            if box.kind == 'list':
                hook = self.spec.hints.get('contains')
                r = hook(self, st.heap[(box.id, 'val')], x, st) if hook is not None else None
                if r is not None:                 # a sidecar model of the container (e.g. a map keyed by symbolic integers)
                    return r
                return contains(st.heap[(box.id, 'val')], x)
        return contains(box, x)

    # ---------------------------------------------------------------- subscripts and attributes
    def ev_Subscript(self, n, st):
        for s, base in self.ev(n.value, st):
            if is_exc(base):
                yield s, base
                continue
            if isinstance(n.slice, ast.Slice):
                parts = [n.slice.lower, n.slice.upper, n.slice.step]
                present = [p for p in parts if p is not None]
                for s2, vs in self.evs(present, s):
                    if is_exc(vs):
                        yield s2, vs
                        continue
                    it = iter(vs)
                    lo, hi, step = [(next(it) if p is not None else None) for p in parts]
                    if step is not None:
                        raise Unsupported('slice step at line %d' % n.lineno)
                    for s3, b in self.split(s2, base):
                        yield from self.get_slice(b, lo, hi, s3, n)
            else:
                for s2, idx in self.ev(n.slice, s):
                    if is_exc(idx):
                        yield s2, idx
                        continue
                    for s3, b in self.split(s2, base):
                        for s4, i in self.split(s3, idx):
                            yield from self.get_item(b, i, s4, n)

    def opt_int(self, v):
        if v is None or isinstance(v, NoneV):
            return None
        return to_int(v)

    def get_slice(self, b, lo, hi, st, n):
        if isinstance(lo, UnionV) or isinstance(hi, UnionV):
            for s1, l1 in self.split(st, lo if lo is not None else NONE):
                for s2, h1 in self.split(s1, hi if hi is not None else NONE):
                    yield from self.get_slice(b, l1, h1, s2, n)
            return
        if isinstance(b, RefV) and b.kind == 'obj' and b.cls is not None:
            from .calls import SliceV
            c, m = b.cls.find_method('__getitem__')
            if m is None:
                yield st, ExcV('TypeError', 'object is not subscriptable', getattr(n, 'lineno', None))
            else:
                key = ConstV(SliceV(NONE if lo is None else lo, NONE if hi is None else hi, NONE))
                yield from self.call_repo(None, ('method', b, c, m), [key], {}, st, n)
            return
        b = self.deref_list(b, st)
        if isinstance(b, ConstV) and isinstance(b.py, (bytes, str)):
            b = lift_seq_const(b.py)
        if isinstance(b, SeqV):
            yield st, seq_slice(b, self.opt_int(lo), self.opt_int(hi))
            return
        if isinstance(b, (TupV, PyListV)):
            cl = None if lo is None or isinstance(lo, NoneV) else const_of(to_int(lo))
            ch = None if hi is None or isinstance(hi, NoneV) else const_of(to_int(hi))
            if (lo is not None and not isinstance(lo, NoneV) and cl is None) or \
                    (hi is not None and not isinstance(hi, NoneV) and ch is None):
                raise Unsupported('symbolic slice of fixed-length list at line %d' % n.lineno)
            yield st, type(b)(b.items[cl:ch])
            return
        raise Unsupported('slice of %r at line %d' % (b, n.lineno))

    def slice_hook(self, b, st):
        return None

    def get_item(self, b, i, st, n):
        line = getattr(n, 'lineno', None)
        if isinstance(b, RefV) and b.kind == 'obj' and b.cls is not None:
            c, m = b.cls.find_method('__getitem__')
            if m is None:
                yield st, ExcV('TypeError', 'object is not subscriptable', line)
            else:
                yield from self.call_repo(None, ('method', b, c, m), [i], {}, st, n)
            return
        if isinstance(i, ConstV) and type(i.py).__name__ == 'SliceV':
            if not isinstance(i.py.step, NoneV):
                raise Unsupported('slice object with a step at line %s' % line)
            yield from self.get_slice(b, i.py.start, i.py.stop, st, n)
            return
        if isinstance(b, RefV):
            if b.kind == 'rec':
                if isinstance(i, ConstV) and isinstance(i.py, str):
                    yield from self.rec_get(st, b, i.py, 'KeyError', line)
                    return
                raise Unsupported('record subscript with symbolic key at line %s' % line)
            if b.kind == 'list':
                b = st.heap[(b.id, 'val')]
        if isinstance(b, ConstV) and isinstance(b.py, (bytes, str)):
            b = lift_seq_const(b.py)
        if isinstance(b, SeqV):
            ii = to_int(i)
            ln = z3.Length(b.t)
            for s, ok in self.fork(st, z3.And(-ln <= ii, ii < ln)):
                if ok:
                    if b.kind == 'str':
                        idx = z3.If(ii < 0, ii + ln, ii)
                        yield s, SeqV(z3.SubSeq(b.t, idx, 1), 'str')
                    else:
                        yield s, seq_index(b, ii)
                else:
                    yield s, ExcV('IndexError', 'sequence index out of range', line)
            return
        if isinstance(b, (TupV, PyListV)):
            ci = const_of(to_int(i))
            if ci is None:
                ii = to_int(i)
                nitems = len(b.items)
                for s, ok in self.fork(st, z3.And(-nitems <= ii, ii < nitems)):
                    if not ok:
                        yield s, ExcV('IndexError', 'tuple index out of range', line)
                        continue
                    idx = z3.If(ii < 0, ii + nitems, ii)
                    yield s, mk_union([(idx == k, b.items[k]) for k in range(nitems)])
                return
            if -len(b.items) <= ci < len(b.items):
                yield st, b.items[ci]
            else:
                yield st, ExcV('IndexError', 'tuple index out of range', line)
            return
        if isinstance(b, ListV):
            ii = to_int(i)
            for s, ok in self.fork(st, z3.And(-b.n <= ii, ii < b.n)):
                if ok:
                    yield s, b.get(z3.If(ii < 0, ii + b.n, ii))
                else:
                    yield s, ExcV('IndexError', 'list index out of range', line)
            return
        if isinstance(b, ConstV) and isinstance(b.py, dict):
            if isinstance(i, ConstV):
                if i.py in b.py:
                    yield st, lift(b.py[i.py])
                else:
                    yield st, ExcV('KeyError', repr(i.py), line)
                return
            ii = to_int(i)
            keys = [k for k in b.py if isinstance(k, int)]
            for s, hit in self.fork(st, z3.Or(*[ii == k for k in keys]) if keys else z3.BoolVal(False)):
                if hit:
                    yield s, mk_union([(ii == k, lift(b.py[k])) for k in keys])
                else:
                    yield s, ExcV('KeyError', 'dict key', line)
            return
        if isinstance(b, ConstV) and isinstance(b.py, (tuple, list)):
            ci = const_of(to_int(i))
            if ci is not None and -len(b.py) <= ci < len(b.py):
                yield st, lift(b.py[ci])
                return
        raise Unsupported('subscript of %r at line %s' % (b, line))

    def ev_Attribute(self, n, st):
        for s, base in self.ev(n.value, st):
            if is_exc(base):
                yield s, base
                continue
            for s2, b in self.split(s, base):
                yield from self.get_attr(b, n.attr, s2, n)

    def get_attr(self, b, attr, st, n):
        line = getattr(n, 'lineno', None)
        if isinstance(b, RefV):
            if b.kind == 'rec':
                yield from self.rec_get(st, b, attr, 'AttributeError', line)
                return
            if b.kind == 'obj':
                if attr == '__class__' and b.cls is not None:
                    yield st, ConstV(b.cls)
                    return
                if (b.id, attr) in st.heap:
                    yield st, st.heap[(b.id, attr)]
                    return
                # property / class constant / method
                cls = b.cls
                if cls is not None:
                    c, m = cls.find_method(attr)
                    if m is not None:
                        if any(isinstance(d, ast.Name) and d.id == 'property' for d in m.decorator_list):
                            yield from self.inline_property(b, c, m, st, n)
                            return
                        yield st, FuncV('%s.%s' % (cls.name, attr), ('method', b, c, m))
                        return
                    try:
                        yield st, lift(cls.const(attr))
                        return
                    except (KeyError, Unsupported):
                        pass
                raise Unsupported('attribute %s.%s (not a declared field) at line %s' % (b.cls, attr, line))
        if isinstance(b, ConstV) and isinstance(b.py, ClassHandle):
            if attr == '__name__':
                yield st, lift(b.py.name)
                return
            c, m = b.py.find_method(attr)
            if m is not None:
                yield st, FuncV('%s.%s' % (b.py.name, attr), ('classfn', b.py, c, m))
                return
            try:
                yield st, lift(b.py.const(attr))
                return
            except KeyError:
                raise Unsupported('class attribute %s.%s at line %s' % (b.py.name, attr, line))
        if isinstance(b, ConstV) and isinstance(b.py, ModuleHandle) and b.py.name == 'sys' and attr == 'version_info':
            import sys as _sys
            yield st, ConstV(tuple(_sys.version_info[:3]))      # the interpreter the repository runs on
            return
        if isinstance(b, ConstV) and isinstance(b.py, ModuleHandle):
            yield st, FuncV('%s.%s' % (b.py.name, attr), ('modfn', b.py.name, attr))
            return
        if isinstance(b, ConstV) and type(b.py).__name__ == 'SliceV' and attr in ('start', 'stop', 'step'):
            yield st, getattr(b.py, attr)
            return
        # method on a value
        yield st, FuncV('.%s' % attr, ('valmethod', b, attr))

    def inline_property(self, obj, cls, m, st, n):
        body = [s for s in m.body if not (isinstance(s, ast.Expr) and isinstance(s.value, ast.Constant))]
        if len(body) == 1 and isinstance(body[0], ast.Return):
            sub = st.clone()
            saved = sub.loc
            sub.loc = {m.args.args[0].arg: obj}
            for s2, v in self.ev(body[0].value, sub):
                s2.loc = saved
                yield s2, v
            return
        raise Unsupported('property %s is not a single return' % m.name)

    # ---------------------------------------------------------------- records
    def new_rec(self, st, fields, closed=True, optional=()):
        st = st.clone()
        rid = self.new_id()
        for k, v in fields.items():
            st.heap[(rid, k)] = (z3.BoolVal(True), v)
        st.heap[(rid, '__closed__')] = closed
        st.heap[(rid, '__keys__')] = tuple(fields.keys())
        return st, RefV(rid, 'rec')

    def new_list(self, st, val):
        st = st.clone()
        rid = self.new_id()
        st.heap[(rid, 'val')] = val
        return st, RefV(rid, 'list')

    def rec_has(self, st, ref, key):
        if (ref.id, key) in st.heap:
            return st.heap[(ref.id, key)][0]
        if st.heap.get((ref.id, '__closed__'), False):
            return z3.BoolVal(False)
        raise Unsupported('record field %r is not in the declared schema' % key)

    def rec_get(self, st, ref, key, exc, line):
        if (ref.id, key) not in st.heap:
            if st.heap.get((ref.id, '__closed__'), False):
                # dict methods reached through attribute syntax
                if exc == 'AttributeError' and key in ('get', 'setdefault', 'pop', 'items', 'keys', 'values', 'update'):
                    yield st, FuncV('.%s' % key, ('valmethod', ref, key))
                    return
                yield st, ExcV(exc, key, line)
                return
            if exc == 'AttributeError' and key in ('get', 'setdefault', 'pop', 'items', 'keys', 'values', 'update'):
                yield st, FuncV('.%s' % key, ('valmethod', ref, key))
                return
            raise Unsupported('record field %r is not in the declared schema (line %s)' % (key, line))
        present, val = st.heap[(ref.id, key)]
        for s, ok in self.fork(st, present):
            if ok:
                yield s, val
            else:
                yield s, ExcV(exc, key, line)

    def rec_set(self, st, ref, key, val, line):
        st = st.clone()
        st.heap[(ref.id, key)] = (z3.BoolVal(True), val)
        if (ref.id, '__keys__') in st.heap and key not in st.heap[(ref.id, '__keys__')]:
            st.heap[(ref.id, '__keys__')] = st.heap[(ref.id, '__keys__')] + (key,)
        if ref.id in self.tracked_refs:
            st.writes.append((ref.id, key, line))
        return st

    # ---------------------------------------------------------------- comprehension / lambda / misc
    def ev_Lambda(self, n, st):
        yield st, FuncV('<lambda>', ('lambda', n, dict(st.loc)))

    def ev_JoinedStr(self, n, st):
        raise Unsupported('f-string at line %d' % n.lineno)

    def ev_ListComp(self, n, st):
        yield from self.comprehension(n, st, as_list=True)

    def ev_GeneratorExp(self, n, st):
        yield from self.comprehension(n, st, as_list=False)

    def comprehension(self, n, st, as_list):
        g = n.generators[0]
        tuple_target = isinstance(g.target, ast.Tuple) and all(isinstance(e, ast.Name) for e in g.target.elts)
        if len(n.generators) != 1 or g.ifs or not (isinstance(g.target, ast.Name) or tuple_target):
            raise Unsupported('comprehension form at line %d' % n.lineno)
        var = tuple([e.id for e in g.target.elts]) if tuple_target else g.target.id
        for s, it in self.ev(g.iter, st):
            if is_exc(it):
                yield s, it
                continue
            it = self.deref_list(it, s)
            if isinstance(var, tuple) and not isinstance(it, ListV):
                raise Unsupported('comprehension with a tuple target over %r at line %d' % (it, n.lineno))
            if isinstance(it, (PyListV, TupV)):
                yield from self.comp_unroll(n.elt, var, it.items, s, [], as_list)
            elif isinstance(it, SeqV) and it.kind in ('list', 'bytes', 'bytearray'):
                yield from self.comp_map_seq(n, var, it, s, as_list)
            elif isinstance(it, ListV):
                yield from self.comp_map_list(n, var, it, s, as_list)
            else:
                raise Unsupported('comprehension over %r at line %d' % (it, n.lineno))

    def comp_unroll(self, elt, var, items, st, acc, as_list):
        if not items:
            r = PyListV(acc)
            if as_list:
                yield self.new_list(st, r)
            else:
                yield st, r
            return
        s = st.clone()
        had = var in s.loc
        saved = s.loc.get(var)
        s.loc[var] = items[0]
        for s2, v in self.ev(elt, s):
            if is_exc(v):
                yield s2, v
                continue
            if had:
                s2.loc[var] = saved
            else:
                s2.loc.pop(var, None)
            yield from self.comp_unroll(elt, var, items[1:], s2, acc + [v], as_list)

    def comp_map_seq(self, n, var, seq, st, as_list):
        """[f(o) for o in xs] over a symbolic int sequence: fresh sequence r, |r| = |xs|,
        r[j] == f(xs[j]) for every j (f a pure integer expression); or, when f yields a byte string of
        constant length L (possibly raising for some elements), the flat concatenation of the chunks."""
        j = fresh('cj')
        s = st.clone()
        s.loc = dict(s.loc)
        s.loc[var] = IntV(seq.t[j])
        yield from self.map_over(lambda s_: self.ev(n.elt, s_), s, j, seq, st, as_list, n)

    def map_over(self, body_fn, s, j, seq, st, as_list, n):
        base = len(s.pc)
        outs = list(body_fn(s))
        line = getattr(n, 'lineno', '?')
        normal = [(s_, v) for s_, v in outs if not is_exc(v)]
        excs = [(s_, v) for s_, v in outs if is_exc(v)]
        if len(normal) != 1:
            raise Unsupported('comprehension element has %d normal outcomes at line %s' % (len(normal), line))
        s_ok, v = normal[0]
        cond = z3.And(*s_ok.pc[base:]) if len(s_ok.pc) > base else z3.BoolVal(True)
        ln = z3.Length(seq.t)
        if is_intlike(v):
            if excs:
                raise Unsupported('comprehension element may raise at line %s' % line)
            body = to_int(v)
            r = fresh('comp', IntSeq)
            s2 = st.clone()
            s2.pc.append(z3.Length(r) == ln)
            s2.pc.append(z3.ForAll([j], z3.Implies(z3.And(0 <= j, j < ln), r[j] == body)))
            rv = SeqV(r, 'list')
            if as_list:
                yield self.new_list(s2, rv)
            else:
                yield s2, rv
            return
        if isinstance(v, SeqV) and const_of(z3.Length(v.t)) is not None:
            L = const_of(z3.Length(v.t))
            r = fresh('chunks', IntSeq)
            all_ok = z3.ForAll([j], z3.Implies(z3.And(0 <= j, j < ln), cond))
            for s3, ok in self.fork(st, all_ok):
                if ok:
                    s3 = s3.clone()
                    s3.pc.append(z3.Length(r) == L * ln)
                    s3.pc.append(z3.ForAll([j], z3.Implies(z3.And(0 <= j, j < ln), z3.SubSeq(r, L * j, L) == v.t)))
                    yield s3, SeqV(r, 'chunks:' + v.kind)
                else:
                    cls = excs[0][1].cls if excs else 'Exception'
                    yield s3, ExcV(cls, 'raised for some element', line if isinstance(line, int) else None)
            return
        raise Unsupported('comprehension element %r at line %s' % (v, line))

    def comp_map_list(self, n, var, lst, st, as_list):
        """[f(o) for o in xs] over a functional list: the element-wise image (f a pure int expression)"""
        j = fresh('cj')
        s = st.clone()
        s.loc = dict(s.loc)
        if isinstance(var, tuple):
            e = lst.get(j)
            if not (isinstance(e, TupV) and len(e.items) == len(var)):
                raise Unsupported('comprehension tuple target over elements %r at line %d' % (e, n.lineno))
            for nm, x in zip(var, e.items):
                s.loc[nm] = x
        else:
            s.loc[var] = lst.get(j)
        outs = list(self.ev(n.elt, s))
        if len(outs) == 1 and isinstance(outs[0][1], SeqV) and len(outs[0][0].pc) == len(s.pc):
            # a byte-string valued pure element expression: the element-wise image, as a functional list of sequences
            sb, kind = outs[0][1].t, outs[0][1].kind
            rv = ListV(lst.n, lambda i: SeqV(z3.substitute(sb, (j, i if z3.is_expr(i) else z3.IntVal(i))), kind), tag='fseq')
            if as_list:
                yield self.new_list(st, rv)
            else:
                yield st, rv
            return
        if len(outs) != 1 or is_exc(outs[0][1]) or not is_intlike(outs[0][1]):
            raise Unsupported('comprehension element is not a pure integer expression at line %d' % n.lineno)
        body = to_int(outs[0][1])
        rv = ListV(lst.n, lambda i: IntV(z3.substitute(body, (j, i if z3.is_expr(i) else z3.IntVal(i)))), tag='flist')
        if as_list:
            yield self.new_list(st, rv)
        else:
            yield st, rv


class ModuleHandle(object):
    def __init__(self, name):
        self.name = name

    def __repr__(self):
        return '<module %s>' % self.name
