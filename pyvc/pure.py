"""Pure (non-forking) evaluation of contract expression texts to z3, and the value-level operations
shared with the code executor (arithmetic, comparison, truthiness with Python semantics).

The same expression texts are evaluated natively on concrete values by pyvc.native (replay,
differential cross-check, bounded tier): one text, two interpretations.
"""
import ast
import itertools

import z3

from .vals import (USort, V, IntV, BoolV, NoneV, NONE, ConstV, TupV, SeqV, ListV, PyListV, RefV, UnionV, OpaqueV,
                   FuncV, Unsupported, IntSeq, z3_true, z3_false)

_fresh = itertools.count()


def fresh(prefix, sort=None):
    nm = '%s!%d' % (prefix, next(_fresh))
    if sort is None or (isinstance(sort, str) and sort == 'Int'):
        return z3.Int(nm)
    if isinstance(sort, str) and sort == 'Bool':
        return z3.Bool(nm)
    return z3.Const(nm, sort)


class SetV(V):
    """A set of integers: z3 Array(Int, Bool)."""
    __slots__ = ('t',)

    def __init__(self, t):
        self.t = t


SetSort = z3.ArraySort(z3.IntSort(), z3.BoolSort())


# ------------------------------------------------------------------ python int semantics
def py_floordiv(a, b):
    if z3.is_int_value(b) and b.as_long() > 0:
        return a / b
    return z3.If(b > 0, a / b, (-a) / (-b))


def py_mod(a, b):
    if z3.is_int_value(b) and b.as_long() > 0:
        return a % b
    return a - b * py_floordiv(a, b)


def bit_of(x, i):
    """bit i (0/1) of the infinite two's complement representation of x"""
    return (x / z3.IntVal(2 ** i)) % 2


def const_of(t):
    t = z3.simplify(t)
    if z3.is_int_value(t):
        return t.as_long()
    return None


def to_int(v):
    if isinstance(v, IntV):
        return v.t
    if isinstance(v, BoolV):
        return z3.If(v.t, z3.IntVal(1), z3.IntVal(0))
    if isinstance(v, ConstV) and isinstance(v.py, (int, bool)):
        return z3.IntVal(int(v.py))
    raise Unsupported('integer expected, got %r' % (v,))


def is_intlike(v):
    return isinstance(v, (IntV, BoolV)) or (isinstance(v, ConstV) and isinstance(v.py, (int, bool)))


def lift(py):
    """Python constant -> symbolic value"""
    if py is None:
        return NONE
    if isinstance(py, bool):
        return BoolV(py)
    if isinstance(py, int):
        return IntV(py)
    if isinstance(py, float):
        # T8: floats are treated as exact reals
        from fractions import Fraction
        fr = Fraction(repr(py)) if py == py and abs(py) != float('inf') else None
        if fr is None:
            return ConstV(py)
        return IntV(z3.RealVal(str(fr)))
    if isinstance(py, (bytes, bytearray)):
        return SeqV(seq_lit(list(py)), 'bytes' if isinstance(py, bytes) else 'bytearray')
    if isinstance(py, tuple):
        return TupV([lift(x) for x in py])
    if isinstance(py, V):
        return py
    return ConstV(py)


def seq_lit(ints):
    if not ints:
        return z3.Empty(IntSeq)
    units = [z3.Unit(z3.IntVal(i)) for i in ints]
    return units[0] if len(units) == 1 else z3.Concat(*units)


def mk_union(alts):
    """Collapse alternatives [(guard, V)] into one value when tags agree."""
    alts = [(g, v) for g, v in alts if not z3_false(g)]
    flat = []
    for g, v in alts:
        if isinstance(v, UnionV):
            for g2, v2 in v.alts:
                flat.append((z3.And(g, g2), v2))
        else:
            flat.append((g, v))
    alts = [(g, v) for g, v in flat if not z3_false(g)]
    if not alts:
        raise Unsupported('empty union')
    if len(alts) == 1:
        return alts[0][1]
    if all(isinstance(v, IntV) for _, v in alts):
        t = alts[-1][1].t
        for g, v in reversed(alts[:-1]):
            t = z3.If(g, v.t, t)
        return IntV(t)
    if all(isinstance(v, BoolV) for _, v in alts):
        t = alts[-1][1].t
        for g, v in reversed(alts[:-1]):
            t = z3.If(g, v.t, t)
        return BoolV(t)
    if all(isinstance(v, NoneV) for _, v in alts):
        return NONE
    if all(isinstance(v, SeqV) and v.kind == alts[0][1].kind for _, v in alts):
        t = alts[-1][1].t
        for g, v in reversed(alts[:-1]):
            t = z3.If(g, v.t, t)
        return SeqV(t, alts[0][1].kind)
    if all(isinstance(v, TupV) and len(v.items) == len(alts[0][1].items) for _, v in alts):
        n = len(alts[0][1].items)
        return TupV([mk_union([(g, v.items[i]) for g, v in alts]) for i in range(n)])
    # merge alternatives with identical constant payload
    return UnionV(alts)


def part_by_truth(v, want):
    """the alternatives of v whose truth value can be `want` (statically impossible ones dropped)"""
    if not isinstance(v, UnionV):
        return v
    keep = []
    for g, a in v.alts:
        t = z3.simplify(truthy(a))
        if (want and z3.is_false(t)) or (not want and z3.is_true(t)):
            continue
        keep.append((g, a))
    if not keep:
        return None
    return keep[0][1] if len(keep) == 1 else UnionV(keep)


def alts_of(v):
    if isinstance(v, UnionV):
        return v.alts
    return [(z3.BoolVal(True), v)]


def pmap(f, *vals):
    """apply f to every combination of alternatives; result guarded accordingly"""
    out = []
    for combo in itertools.product(*[alts_of(v) for v in vals]):
        g = z3.And(*[c[0] for c in combo]) if len(combo) > 1 else combo[0][0]
        out.append((g, f(*[c[1] for c in combo])))
    return mk_union(out)


def truthy(v):
    """z3 Bool: Python truth value of v"""
    if isinstance(v, BoolV):
        return v.t
    if isinstance(v, IntV):
        return v.t != 0
    if isinstance(v, NoneV):
        return z3.BoolVal(False)
    if isinstance(v, ConstV):
        return z3.BoolVal(bool(v.py))
    if isinstance(v, SeqV):
        return z3.Length(v.t) > 0
    if isinstance(v, TupV):
        return z3.BoolVal(len(v.items) > 0)
    if isinstance(v, PyListV):
        return z3.BoolVal(len(v.items) > 0)
    if isinstance(v, ListV):
        return v.n > 0
    if isinstance(v, UnionV):
        return z3.Or(*[z3.And(g, truthy(a)) for g, a in v.alts])
    if isinstance(v, FuncV):
        return z3.BoolVal(True)
    if isinstance(v, SetV):
        raise Unsupported('truth of a set')
    raise Unsupported('truth value of %r' % (v,))


def arith(op, a, b):
    """binary operator on definite-tag values"""
    if isinstance(a, UnionV) or isinstance(b, UnionV):
        return pmap(lambda x, y: arith(op, x, y), a, b)
    T = type(op)
    if (isinstance(a, NoneV) and is_intlike(b)) or (isinstance(b, NoneV) and is_intlike(a)):
        # Python raises TypeError; in a contract text this only occurs under a guard that excludes
        # it: the value is left unspecified (a fresh unknown), so nothing can be proved from it
        return IntV(fresh('undef'))
    if is_intlike(a) and is_intlike(b):
        x, y = to_int(a), to_int(b)
        if T is ast.Add:
            return IntV(x + y)
        if T is ast.Sub:
            return IntV(x - y)
        if T is ast.Mult:
            return IntV(x * y)
        if T is ast.Div:
            # true division: a real (T8)
            xr = x if x.sort() == z3.RealSort() else z3.ToReal(x)
            yr = y if y.sort() == z3.RealSort() else z3.ToReal(y)
            return IntV(xr / yr)
        if T is ast.FloorDiv:
            return IntV(py_floordiv(x, y))
        if T is ast.Mod:
            return IntV(py_mod(x, y))
        if T is ast.Pow:
            cy = const_of(y)
            cx = const_of(x)
            if cy is not None and cy >= 0 and cx is not None:
                return IntV(cx ** cy)
            if cy is not None and 0 <= cy <= 4:
                r = z3.IntVal(1)
                for _ in range(cy):
                    r = r * x
                return IntV(r)
            raise Unsupported('symbolic **')
        if T is ast.LShift:
            cy = const_of(y)
            if cy is None or cy < 0:
                raise Unsupported('shift by a symbolic amount')
            return IntV(x * z3.IntVal(2 ** cy))
        if T is ast.RShift:
            cy = const_of(y)
            if cy is None or cy < 0:
                raise Unsupported('shift by a symbolic amount')
            return IntV(x / z3.IntVal(2 ** cy))
        if T in (ast.BitAnd, ast.BitOr, ast.BitXor):
            cx, cy = const_of(x), const_of(y)
            if cx is not None and cy is not None:
                return IntV({ast.BitAnd: cx & cy, ast.BitOr: cx | cy, ast.BitXor: cx ^ cy}[T])
            if cy is None and cx is not None:
                x, y, cx, cy = y, x, cy, cx
            if cy is None:
                raise Unsupported('bit operation on two symbolic operands (declare a range and use int2bv)')
            if cy < 0:
                raise Unsupported('bit operation with a negative constant')
            if T is ast.BitAnd:
                if cy & (cy + 1) == 0:                      # 2**k - 1
                    return IntV(x % z3.IntVal(cy + 1))
                terms = [bit_of(x, i) * z3.IntVal(2 ** i) for i in range(cy.bit_length()) if cy >> i & 1]
                return IntV(z3.Sum(terms) if terms else z3.IntVal(0))
            if T is ast.BitOr:
                terms = [(1 - bit_of(x, i)) * z3.IntVal(2 ** i) for i in range(cy.bit_length()) if cy >> i & 1]
                return IntV(x + (z3.Sum(terms) if terms else z3.IntVal(0)))
            if T is ast.BitXor:
                terms = [(1 - 2 * bit_of(x, i)) * z3.IntVal(2 ** i) for i in range(cy.bit_length()) if cy >> i & 1]
                return IntV(x + (z3.Sum(terms) if terms else z3.IntVal(0)))
        raise Unsupported('int operator %s' % T.__name__)
    if T is ast.Add and (isinstance(a, SeqV) or isinstance(b, SeqV)):
        a, b = as_seq(a), as_seq(b)
    if isinstance(a, SeqV) and isinstance(b, SeqV) and T is ast.Add:
        return SeqV(z3.Concat(a.t, b.t), a.kind)
    if isinstance(a, SeqV) and is_intlike(b) and T is ast.Mult:
        return seq_repeat(a, to_int(b))
    if isinstance(a, TupV) and isinstance(b, TupV) and T is ast.Add:
        return TupV(a.items + b.items)
    if isinstance(a, PyListV) and isinstance(b, PyListV) and T is ast.Add:
        return PyListV(a.items + b.items)
    if isinstance(a, ConstV) and isinstance(b, ConstV):
        import operator
        ops = {ast.Add: operator.add, ast.Mod: operator.mod, ast.Mult: operator.mul}
        if T in ops:
            try:
                return lift(ops[T](a.py, b.py))
            except Exception as e:
                raise Unsupported('constant op failed: %s' % e)
    if isinstance(a, SetV) and isinstance(b, SetV) and T is ast.BitOr:
        return SetV(z3.Map(z3.Or(z3.BoolVal(True), z3.BoolVal(True)).decl(), a.t, b.t))
    raise Unsupported('operator %s on %r, %r' % (T.__name__, a, b))


_rep_cache = {}
REP_FACTS = []      # definitional facts of seq_repeat terms created so far (consumed by the executor)


def seq_repeat(a, n):
    """b'\\0' * n : fresh sequence r with |r| = max(n,0)*|a| and, for a unit sequence, every
    element equal to that unit.  Only unit / empty operands are supported."""
    base = z3.simplify(a.t)
    cn = const_of(n)
    if cn is not None and 0 <= cn <= 64:
        parts = [a.t] * cn
        return SeqV(z3.Concat(*parts) if len(parts) > 1 else (parts[0] if parts else z3.Empty(IntSeq)), a.kind)
    ln = const_of(z3.Length(base))
    if ln != 1:
        raise Unsupported('sequence repetition of a non-unit sequence by a symbolic count')
    elem = z3.simplify(base[0])
    r = REP(elem, n)
    j = fresh('j')
    facts = [z3.Length(r) == z3.If(n > 0, n, 0),
             z3.ForAll([j], z3.Implies(z3.And(0 <= j, j < z3.Length(r)), r[j] == elem))]
    REP_FACTS.append((r, facts))
    return SeqV(r, a.kind)


REP = z3.Function('REP', z3.IntSort(), z3.IntSort(), IntSeq)       # REP(e, n): n copies of e (empty for n <= 0)


def as_seq(v):
    """a fixed-length list of ints as a z3 sequence"""
    if isinstance(v, (PyListV, TupV)) and all(is_intlike(i) for i in v.items):
        if not v.items:
            return SeqV(z3.Empty(IntSeq), 'list')
        us = [z3.Unit(to_int(i)) for i in v.items]
        return SeqV(us[0] if len(us) == 1 else z3.Concat(*us), 'list' if isinstance(v, PyListV) else 'tuple')
    if isinstance(v, ConstV) and isinstance(v.py, (bytes, str)):
        return lift_seq_const(v.py)
    return v


def same_const(a, b):
    try:
        return a.py == b.py and type(a.py) == type(b.py) or (a.py == b.py)
    except Exception:
        return a.py is b.py


def equal(a, b):
    """z3 Bool for Python `a == b`"""
    if isinstance(a, UnionV) or isinstance(b, UnionV):
        alts = []
        for (g1, x), (g2, y) in itertools.product(alts_of(a), alts_of(b)):
            alts.append(z3.And(g1, g2, equal(x, y)))
        return z3.Or(*alts)
    if is_intlike(a) and is_intlike(b):
        if isinstance(a, BoolV) and isinstance(b, BoolV):
            return a.t == b.t
        return to_int(a) == to_int(b)
    if isinstance(a, NoneV) or isinstance(b, NoneV):
        return z3.BoolVal(isinstance(a, NoneV) and isinstance(b, NoneV))
    if isinstance(a, SeqV) and isinstance(b, (PyListV, TupV)) or isinstance(b, SeqV) and isinstance(a, (PyListV, TupV)):
        a, b = as_seq(a), as_seq(b)
    if isinstance(a, SeqV) and isinstance(b, SeqV):
        ka = 'bytes' if a.kind == 'bytearray' else a.kind
        kb = 'bytes' if b.kind == 'bytearray' else b.kind
        if ka != kb:
            return z3.BoolVal(False)
        return a.t == b.t
    if isinstance(a, SeqV) and isinstance(b, ConstV) and isinstance(b.py, (bytes, str)):
        return equal(a, lift_seq_const(b.py))
    if isinstance(b, SeqV) and isinstance(a, ConstV) and isinstance(a.py, (bytes, str)):
        return equal(lift_seq_const(a.py), b)
    if isinstance(a, TupV) and isinstance(b, TupV):
        if len(a.items) != len(b.items):
            return z3.BoolVal(False)
        if not a.items:
            return z3.BoolVal(True)
        return z3.And(*[equal(x, y) for x, y in zip(a.items, b.items)])
    if isinstance(a, PyListV) and isinstance(b, PyListV):
        if len(a.items) != len(b.items):
            return z3.BoolVal(False)
        if not a.items:
            return z3.BoolVal(True)
        return z3.And(*[equal(x, y) for x, y in zip(a.items, b.items)])
    if isinstance(a, ConstV) and isinstance(b, ConstV):
        return z3.BoolVal(bool(same_const(a, b)))
    if isinstance(a, ConstV) and is_intlike(b) or isinstance(b, ConstV) and is_intlike(a):
        return z3.BoolVal(False)
    if isinstance(a, RefV) and isinstance(b, RefV):
        return z3.BoolVal(a.id == b.id)
    if isinstance(a, SetV) and isinstance(b, SetV):
        return a.t == b.t
    if isinstance(a, OpaqueV) and isinstance(b, OpaqueV):
        return a.t == b.t
    if isinstance(a, OpaqueV) or isinstance(b, OpaqueV):
        return fresh('unknown_eq', 'Bool')
    if isinstance(a, (SeqV, TupV, PyListV)) and (is_intlike(b) or isinstance(b, ConstV)):
        return z3.BoolVal(False)
    if isinstance(b, (SeqV, TupV, PyListV)) and (is_intlike(a) or isinstance(a, ConstV)):
        return z3.BoolVal(False)
    raise Unsupported('== on %r, %r' % (a, b))


def lift_seq_const(py):
    if isinstance(py, bytes):
        return SeqV(seq_lit(list(py)), 'bytes')
    if isinstance(py, str):
        return SeqV(seq_lit([ord(c) for c in py]), 'str')
    raise Unsupported('sequence constant %r' % (py,))


def compare(op, a, b):
    """z3 Bool for a single comparison operator"""
    T = type(op)
    if T is ast.Eq:
        return equal(a, b)
    if T is ast.NotEq:
        return z3.Not(equal(a, b))
    if T in (ast.Is, ast.IsNot):
        if isinstance(a, UnionV) or isinstance(b, UnionV):
            alts = []
            for (g1, x), (g2, y) in itertools.product(alts_of(a), alts_of(b)):
                alts.append(z3.And(g1, g2, compare(ast.Is(), x, y)))
            r = z3.Or(*alts)
        elif isinstance(a, NoneV) or isinstance(b, NoneV):
            r = z3.BoolVal(isinstance(a, NoneV) and isinstance(b, NoneV))
        elif isinstance(a, ConstV) and isinstance(b, ConstV):
            r = z3.BoolVal(a.py is b.py or (type(a.py).__name__ in ('bool', 'TypeName', 'ClassHandle', 'type') and a.py == b.py))
        elif isinstance(a, BoolV) and isinstance(b, BoolV):
            r = a.t == b.t
        elif isinstance(a, BoolV) and isinstance(b, ConstV) and isinstance(b.py, bool):
            r = a.t == z3.BoolVal(b.py)
        elif isinstance(a, RefV) and isinstance(b, RefV):
            r = z3.BoolVal(a.id == b.id)
        elif (isinstance(a, ConstV) and isinstance(a.py, bool) and not isinstance(b, (BoolV, ConstV))) or \
                (isinstance(b, ConstV) and isinstance(b.py, bool) and not isinstance(a, (BoolV, ConstV))):
            r = z3.BoolVal(False)          # `x is True` for a non-bool x
        elif (isinstance(a, IntV) and isinstance(b, BoolV)) or (isinstance(a, BoolV) and isinstance(b, IntV)):
            r = z3.BoolVal(False)          # an int is never the object True / False
        elif isinstance(a, IntV) and isinstance(b, IntV) and \
                any(const_of(x.t) is not None and -5 <= const_of(x.t) <= 256 for x in (a, b)):
            # T10: CPython keeps the integers -5..256 as singletons, so identity with such a constant is equality
            r = a.t == b.t
        else:
            raise Unsupported('`is` on %r, %r' % (a, b))
        return r if T is ast.Is else z3.Not(r)
    if T in (ast.Lt, ast.LtE, ast.Gt, ast.GtE):
        if isinstance(a, UnionV) or isinstance(b, UnionV):
            alts = []
            for (g1, x), (g2, y) in itertools.product(alts_of(a), alts_of(b)):
                alts.append(z3.And(g1, g2, compare(op, x, y)))
            return z3.Or(*alts)
        if is_intlike(a) and is_intlike(b):
            x, y = to_int(a), to_int(b)
            return {ast.Lt: x < y, ast.LtE: x <= y, ast.Gt: x > y, ast.GtE: x >= y}[T]
        if isinstance(a, TupV) and isinstance(b, TupV) and len(a.items) == len(b.items) and a.items:
            # lexicographic
            x0, y0 = a.items[0], b.items[0]
            rest_a, rest_b = TupV(a.items[1:]), TupV(b.items[1:])
            if len(a.items) == 1:
                return compare(op, x0, y0)
            strict = ast.Lt() if T in (ast.Lt, ast.LtE) else ast.Gt()
            return z3.Or(compare(strict, x0, y0), z3.And(equal(x0, y0), compare(op, rest_a, rest_b)))
        if isinstance(a, NoneV) or isinstance(b, NoneV):
            # only reached under a guard that short-circuit evaluation would have excluded
            return z3.BoolVal(False)
        raise Unsupported('ordering on %r, %r' % (a, b))
    if T in (ast.In, ast.NotIn):
        r = contains(b, a)
        return r if T is ast.In else z3.Not(r)
    raise Unsupported('comparison %s' % T.__name__)


def contains(box, x):
    if isinstance(box, UnionV):
        return z3.Or(*[z3.And(g, contains(a, x)) for g, a in box.alts])
    if isinstance(box, (TupV, PyListV)):
        if not box.items:
            return z3.BoolVal(False)
        return z3.Or(*[equal(x, it) for it in box.items])
    if isinstance(box, ConstV) and isinstance(box.py, (tuple, list, set, frozenset, dict)):
        items = list(box.py)
        if not items:
            return z3.BoolVal(False)
        return z3.Or(*[equal(x, lift(it)) for it in items])
    if isinstance(box, SeqV):
        if is_intlike(x):
            return z3.Contains(box.t, z3.Unit(to_int(x)))
        if isinstance(x, SeqV):
            return z3.Contains(box.t, x.t)
        if isinstance(x, ConstV) and isinstance(x.py, (bytes, str)):
            return z3.Contains(box.t, lift_seq_const(x.py).t)
    if isinstance(box, SetV) and is_intlike(x):
        return z3.Select(box.t, to_int(x))
    raise Unsupported('`in` on %r' % (box,))


def seq_index(s, i):
    """s[i] with Python negative-index semantics, no bounds obligation (pure)"""
    n = z3.Length(s.t)
    ci = const_of(i)
    if ci is not None and ci >= 0:
        idx = i
    else:
        idx = z3.If(i < 0, i + n, i)
    return IntV(s.t[idx])


def clamp_slice(lo, hi, n):
    """Python slice.indices for step 1: returns (start, stop) z3 terms given optional lo/hi
    (None or z3 Int) and length n."""
    def norm(x, dflt):
        if x is None:
            return dflt
        cx = const_of(x)
        if cx is not None and cx >= 0:
            return z3.If(x > n, n, x)
        return z3.If(x < 0, z3.If(x + n < 0, z3.IntVal(0), x + n), z3.If(x > n, n, x))
    return norm(lo, z3.IntVal(0)), norm(hi, n)


def seq_slice(s, lo, hi):
    n = z3.Length(s.t)
    b, e = clamp_slice(lo, hi, n)
    ln = z3.If(e > b, e - b, z3.IntVal(0))
    return SeqV(z3.SubSeq(s.t, b, ln), s.kind)


# ------------------------------------------------------------------ the pure evaluator
class PureEval(object):
    """Evaluates a contract expression (ast) to a single symbolic value.  `ns` maps names to values
    or to callables; `defs` maps names to expression texts (evaluated lazily in the same ns)."""

    def __init__(self, ns, defs=None, funcs=None, facts=None, old_eval=None):
        self.old_eval = old_eval
        self.ns = ns
        self.defs = defs or {}
        self.funcs = funcs or {}
        self.facts = facts if facts is not None else []
        self._defcache = {}

    def text(self, src):
        try:
            tree = ast.parse(src.strip(), mode='eval')
        except SyntaxError as e:
            raise Unsupported('contract syntax error in %r: %s' % (src, e))
        return self.ev(tree.body)

    def boolean(self, src):
        return truthy(self.text(src))

    def name(self, nm):
        if nm in self.ns:
            v = self.ns[nm]
            return v
        if nm in self.defs:
            if nm not in self._defcache:
                self._defcache[nm] = self.text(self.defs[nm])
            return self._defcache[nm]
        if nm in self.funcs:
            return FuncV(nm, self.funcs[nm])
        if nm == 'True':
            return BoolV(True)
        if nm == 'False':
            return BoolV(False)
        if nm == 'None':
            return NONE
        raise Unsupported('unknown name %r in contract expression' % nm)

    def ev(self, n):
        m = getattr(self, 'ev_' + type(n).__name__, None)
        if m is None:
            raise Unsupported('contract expression construct %s' % type(n).__name__)
        return m(n)

    def ev_Constant(self, n):
        return lift(n.value)

    def ev_Name(self, n):
        return self.name(n.id)

    def ev_Tuple(self, n):
        return TupV([self.ev(e) for e in n.elts])

    def ev_List(self, n):
        return PyListV([self.ev(e) for e in n.elts])

    def ev_UnaryOp(self, n):
        v = self.ev(n.operand)
        if isinstance(n.op, ast.Not):
            return BoolV(z3.Not(truthy(v)))
        if isinstance(n.op, ast.USub):
            return pmap(lambda x: IntV(-to_int(x)), v)
        if isinstance(n.op, ast.UAdd):
            return v
        raise Unsupported('unary %s' % type(n.op).__name__)

    def ev_BinOp(self, n):
        return arith(n.op, self.ev(n.left), self.ev(n.right))

    def ev_BoolOp(self, n):
        vals = [self.ev(e) for e in n.values]
        if all(isinstance(v, BoolV) for v in vals):
            ts = [v.t for v in vals]
            return BoolV(z3.And(*ts) if isinstance(n.op, ast.And) else z3.Or(*ts))
        # operand-returning semantics: a or b == a if a else b
        res = vals[-1]
        for v in reversed(vals[:-1]):
            t = truthy(v)
            if isinstance(n.op, ast.Or):
                keep = part_by_truth(v, True)
                res = mk_union(([(t, keep)] if keep is not None else []) + [(z3.Not(t), res)])
            else:
                keep = part_by_truth(v, False)
                res = mk_union(([(z3.Not(t), keep)] if keep is not None else []) + [(t, res)])
        return res

    def ev_IfExp(self, n):
        c = truthy(self.ev(n.test))
        return mk_union([(c, self.ev(n.body)), (z3.Not(c), self.ev(n.orelse))])

    def ev_Compare(self, n):
        left = self.ev(n.left)
        parts = []
        for op, rn in zip(n.ops, n.comparators):
            right = self.ev(rn)
            parts.append(compare(op, left, right))
            left = right
        return BoolV(z3.And(*parts) if len(parts) > 1 else parts[0])

    def ev_Subscript(self, n):
        base = self.ev(n.value)
        if isinstance(n.slice, ast.Slice):
            if n.slice.step is not None:
                raise Unsupported('slice step in contract')
            lo = None if n.slice.lower is None else self.ev(n.slice.lower)
            hi = None if n.slice.upper is None else self.ev(n.slice.upper)
            return pmap(lambda b: self.slice_of(b, lo, hi), base)
        idx = self.ev(n.slice)
        return pmap(lambda b, i: self.index_of(b, i), base, idx)

    def slice_of(self, b, lo, hi):
        lo_t = None if lo is None or isinstance(lo, NoneV) else to_int(lo)
        hi_t = None if hi is None or isinstance(hi, NoneV) else to_int(hi)
        if isinstance(b, SeqV):
            return seq_slice(b, lo_t, hi_t)
        if isinstance(b, (TupV, PyListV)):
            cl = None if lo_t is None else const_of(lo_t)
            ch = None if hi_t is None else const_of(hi_t)
            if (lo_t is not None and cl is None) or (hi_t is not None and ch is None):
                raise Unsupported('symbolic slice of a fixed list')
            return type(b)(b.items[cl:ch])
        raise Unsupported('slice of %r' % (b,))

    def index_of(self, b, i):
        if isinstance(b, OpaqueV):
            return OpaqueV(fresh('absent_item', USort), 'item of unknown')
        if isinstance(b, SeqV):
            return seq_index(b, to_int(i))
        if isinstance(b, (TupV, PyListV)):
            ci = const_of(to_int(i))
            if ci is None:
                if all(is_intlike(x) for x in b.items) and b.items:
                    t = to_int(b.items[-1])
                    ii = to_int(i)
                    for k in range(len(b.items) - 2, -1, -1):
                        t = z3.If(ii == k, to_int(b.items[k]), t)
                    return IntV(t)
                raise Unsupported('symbolic index into a tuple')
            return b.items[ci]
        if isinstance(b, ListV):
            return b.get(to_int(i))
        if isinstance(b, ConstV) and isinstance(b.py, (dict, tuple, list)):
            if isinstance(i, ConstV):
                return lift(b.py[i.py])
            ci = const_of(to_int(i))
            if ci is not None:
                return lift(b.py[ci])
            if isinstance(b.py, dict) and all(isinstance(k, int) for k in b.py):
                items = list(b.py.items())
                return mk_union([(to_int(i) == k, lift(v)) for k, v in items])
        if isinstance(b, SetV):
            return BoolV(z3.Select(b.t, to_int(i)))
        raise Unsupported('index of %r' % (b,))

    def ev_Attribute(self, n):
        # dotted names bound in the namespace (e.g. `self._sent`)
        key = ast.unparse(n)
        if key in self.ns:
            return self.ns[key]
        base = self.ev(n.value)
        if isinstance(base, ConstV) and hasattr(base.py, 'const'):
            try:
                return lift(base.py.const(n.attr))
            except KeyError:
                pass
        h = self.funcs.get('__getattr__')
        if h is not None:
            return h(base, n.attr)
        raise Unsupported('attribute %s in contract expression' % key)

    def ev_Lambda(self, n):
        return FuncV('<lambda>', ('lambda', n, self))

    def ev_Call(self, n):
        if isinstance(n.func, ast.Name):
            nm = n.func.id
            h = getattr(self, 'fn_' + nm, None)
            if h is not None:
                return h(n)
            if nm in self.ns and isinstance(self.ns[nm], FuncV):
                args = [self.ev(a) for a in n.args]
                return self.ns[nm].impl(*args)
            if nm in self.ns and callable(self.ns[nm]):
                args = [self.ev(a) for a in n.args]
                return self.ns[nm](*args)
            if nm in self.funcs:
                args = [self.ev(a) for a in n.args]
                return self.funcs[nm](self, *args)
        raise Unsupported('call %s in contract expression' % ast.unparse(n))

    # ---- builtins of the contract language
    def fn_implies(self, n):
        a, b = [truthy(self.ev(x)) for x in n.args]
        return BoolV(z3.Implies(a, b))

    def fn_iff(self, n):
        a, b = [truthy(self.ev(x)) for x in n.args]
        return BoolV(a == b)

    def fn_ite(self, n):
        c = truthy(self.ev(n.args[0]))
        return mk_union([(c, self.ev(n.args[1])), (z3.Not(c), self.ev(n.args[2]))])

    def fn_len(self, n):
        v = self.ev(n.args[0])

        def ln(x):
            if isinstance(x, SeqV):
                return IntV(z3.Length(x.t))
            if isinstance(x, (TupV, PyListV)):
                return IntV(len(x.items))
            if isinstance(x, ListV):
                return IntV(x.n)
            if isinstance(x, ConstV) and hasattr(x.py, '__len__'):
                return IntV(len(x.py))
            raise Unsupported('len of %r' % (x,))
        return pmap(ln, v)

    def fn_min(self, n):
        vs = [to_int(self.ev(a)) for a in n.args]
        r = vs[0]
        for v in vs[1:]:
            r = z3.If(v < r, v, r)
        return IntV(r)

    def fn_max(self, n):
        vs = [to_int(self.ev(a)) for a in n.args]
        r = vs[0]
        for v in vs[1:]:
            r = z3.If(v > r, v, r)
        return IntV(r)

    def fn_abs(self, n):
        v = to_int(self.ev(n.args[0]))
        return IntV(z3.If(v < 0, -v, v))

    def fn_int(self, n):
        v = self.ev(n.args[0])
        return pmap(lambda x: IntV(to_int(x)), v)

    def fn_bool(self, n):
        return BoolV(truthy(self.ev(n.args[0])))

    def _quant(self, n, univ, text=False):
        # forall(lo, hi, lambda i: body)  /  forall(lambda i: body); forall_text(lambda s: body) ranges over all text values
        args = n.args
        lam = args[-1]
        if not isinstance(lam, ast.Lambda):
            raise Unsupported('quantifier needs a lambda')
        names = [a.arg for a in lam.args.args]
        vars_ = [fresh(nm, IntSeq) if text else fresh(nm) for nm in names]
        saved = dict((nm, self.ns.get(nm, None)) for nm in names)
        had = dict((nm, nm in self.ns) for nm in names)
        for nm, v in zip(names, vars_):
            self.ns[nm] = SeqV(v, 'str') if text else IntV(v)
        old_cache = self._defcache
        self._defcache = {}
        try:
            body = truthy(self.ev(lam.body))
            guard = []
            if len(args) == 3:
                lo, hi = to_int(self.ev(args[0])), to_int(self.ev(args[1]))
                for v in vars_:
                    guard += [lo <= v, v < hi]
        finally:
            self._defcache = old_cache
            for nm in names:
                if had[nm]:
                    self.ns[nm] = saved[nm]
                else:
                    del self.ns[nm]
        if univ:
            f = z3.Implies(z3.And(*guard), body) if guard else body
            return BoolV(z3.ForAll(vars_, f))
        f = z3.And(*(guard + [body])) if guard else body
        return BoolV(z3.Exists(vars_, f))

    def fn_forall(self, n):
        return self._quant(n, True)

    def fn_exists(self, n):
        return self._quant(n, False)

    def fn_forall_text(self, n):
        return self._quant(n, True, text=True)

    def fn_add_range(self, n):
        """add_range(S, lo, cnt) == S | {lo .. lo+cnt-1}; fresh set with a definitional axiom"""
        s = self.ev(n.args[0])
        lo, cnt = to_int(self.ev(n.args[1])), to_int(self.ev(n.args[2]))
        r = fresh('set', SetSort)
        a = fresh('a')
        self.facts.append(z3.ForAll([a], z3.Select(r, a) == z3.Or(z3.Select(s.t, a), z3.And(lo <= a, a < lo + cnt))))
        return SetV(r)

    def fn_empty_set(self, n):
        return SetV(z3.K(z3.IntSort(), z3.BoolVal(False)))

    def fn_old(self, n):
        key = 'old(%s)' % ast.unparse(n.args[0])
        if key in self.ns:
            return self.ns[key]
        if self.old_eval is not None:
            return self.old_eval(n.args[0])
        raise Unsupported('%s is not available here' % key)

    def _slice_bound(self, n, which):
        x = self.ev(n.args[0])
        ln = to_int(self.ev(n.args[1]))

        def one(v):
            t = None if isinstance(v, NoneV) else to_int(v)
            b, e = clamp_slice(t if which == 0 else None, t if which == 1 else None, ln)
            return IntV(b if which == 0 else e)
        return pmap(one, x)

    def fn_slice_start(self, n):
        """slice_start(start, n) == slice(start, None).indices(n)[0]  (start may be None)"""
        return self._slice_bound(n, 0)

    def fn_slice_stop(self, n):
        """slice_stop(stop, n) == slice(None, stop).indices(n)[1]"""
        return self._slice_bound(n, 1)

    def fn_entry(self, n):
        key = 'entry(%s)' % ast.unparse(n.args[0])
        if key in self.ns:
            return self.ns[key]
        raise Unsupported('%s is not available here' % key)

    def fn_is_none(self, n):
        return BoolV(compare(ast.Is(), self.ev(n.args[0]), NONE))

    def fn_bytes_of(self, n):
        items = [to_int(self.ev(a)) for a in n.args]
        if not items:
            return SeqV(z3.Empty(IntSeq), 'bytes')
        us = [z3.Unit(i) for i in items]
        return SeqV(us[0] if len(us) == 1 else z3.Concat(*us), 'bytes')

    def fn_concat(self, n):
        vs = [self.ev(a) for a in n.args]
        ts = [v.t for v in vs]
        return SeqV(z3.Concat(*ts) if len(ts) > 1 else ts[0], vs[0].kind)
