import sys, time; sys.path.insert(0,'/verif')
from pyvc.spec import Spec, Loop
from pyvc.engine import Engine
from pyvc.repoidx import Repo
from pyvc.solve import discharge
LIM = "(limit if limit else (1968 if (1 <= address <= 9999 or 10001 <= address <= 19999 or 100001 <= address <= 165536) else 123))"
shatter = Spec('shatter', ("remote/plc_modbus.py", "shatter"),
  params=dict(address='Int', count='Int', limit='OptInt'),
  requires="count >= 0 and (limit is None or limit >= 0)",
  defs=dict(L=LIM),
  yields=2,
  ghost=dict(nxt=('Int', 'address')),
  on_yield=[('nxt', 'v[0] + v[1]')],
  yield_ensures=[('consecutive', 'v[0] == nxt'), ('size', '1 <= v[1] <= L'), ('inside', 'v[0] + v[1] <= old(address) + old(count)')],
  loops={0: Loop(invariant=[('pos', 'address == nxt'), ('rem', 'count >= 0 and address + count == old(address) + old(count)'),
                             ('lim', 'limit is not None and limit == L and limit >= 1')], variant='count')},
  ensures=[('tiled', 'nxt == address + count'), ('empty', 'implies(count == 0, NOUT == 0)')],
)
t=time.time()
e = Engine(Repo(), shatter).run()
print('paths', len(e.paths), 'forks', e.nforks, 'gen', time.time()-t)
obs=[e.obligs[n] for n in e.order if e.obligs[n] is not None]
discharge(obs)
for o in obs: print(o.name, o.status, len(o.queries), [ (r['backend'], round(r['seconds'],3), r['status']) for r in o.results][:3], [r['model'] for r in o.results if r['status']=='sat'][:1])
