import sys, time; sys.path.insert(0,'/verif')
from pyvc.engine import Engine
from pyvc.repoidx import Repo
from pyvc.solve import discharge
from contracts import logix_common as LC
ctx = sys.argv[1] if len(sys.argv)>1 else 'read_frag'
spec = LC.request_specs([ctx])[0]
t=time.time()
e = Engine(Repo(), spec).run()
print('paths', len(e.paths), 'forks', e.nforks, 'gen', time.time()-t)
obs=[e.obligs[n] for n in e.order if e.obligs[n] is not None]
discharge(obs)
for o in obs: print(o.name, o.status, len(o.queries), round(sum(r['seconds'] for r in o.results),1), [dict((k,v) for k,v in r['model'].items() if not k.startswith(('div','mod'))) for r in o.results if r['status']=='sat'][:1])
print(time.time()-t)
