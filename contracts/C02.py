"""C02 — message framing ignores stream segmentation; an incomplete frame has no effect.

B (bounded, the deciding tier for what runs through the DFA interpreter and the receive loop):
  (1) the real enip_machine fed exactly like enip_srv_tcp under every two-way split, byte-at-a-time,
      seeded k-way splits and coalesced frames: same parsed frames, each consuming 24 + length bytes;
  (2) the real enip_srv_tcp on a socket pair with a counting wrapper around the real logix.process:
      same replies / tag effects under segmentation; every truncation offset followed by EOF: no
      call, no reply, no tag change for the unfinished frame.
P: input-source classes (peeking / chaining / remembering) against the stream view — see contracts below.
"""
from .util import distinct_keys
import random
import socket
import struct
import threading
import time

from . import wire

PROPERTY = 'C02'
LEVEL = 'exploration'
LEVEL_TEXT = ('Bounded stand-in (labelled bounded, not proved): the framing runs through the generator-based DFA interpreter and the socket receive '
              'loop, which no contract within reach of pyvc covers. The check drives the real enip_machine exactly like enip_srv_tcp, the real '
              'enip_srv_tcp over a socket pair (counting wrapper around the real logix.process) and the real client receive path, over reference-encoded '
              'streams: two-way splits, byte-at-a-time, k-way splits, coalesced frames, and every truncation offset followed by EOF. '
              'A small deductive core rides along and IS discharged for all inputs: the push-back/peek/next accounting of automata.peeking '
              'chaining and remembering (the `sent` count and the pending-stream view back-stack + iterator + chained blocks that every limit is computed from; '
              'remembering.forget is framed: it may assign only self.memory).')
LEVEL_NOTE = ('Deciding tier is bounded: streams of Register + 1..3 requests; quick samples the two-way splits (all boundaries included), thorough takes all. '
              'state.run/dfa_base.delegate are not under contract (fragments only, see C10). Other sessions/listener liveness is C08/C09 territory.')
TECHNIQUE = 'bounded: real enip_machine / enip_srv_tcp / client framing under enumerated segmentations and truncations with a reference encoder; deductive contracts (pyvc, z3/cvc5) on automata.peeking push/peek/__next__, chaining chain/__next__, remembering forget/__next__/push'
TRUSTED = ['producer contracts shared with C01 / C07 carry their assumptions (nested producers as opaque byte strings)', 'reference encoder contracts/wire.py (written from the layout tables)', 'socket pair / loopback TCP delivery keeps chunk boundaries when sends are spaced by a few ms (not guaranteed by TCP; a coalesced delivery only weakens the test)']
ASSUMPTIONS = ['one connection at a time']


def drive_machine(chunks):
    """feed the real enip_machine the way enip_srv_tcp does; returns [(command, length, session, payload, consumed)]"""
    import cpppo
    from cpppo.server.enip import parser
    source = cpppo.rememberable()
    pending = list(chunks)
    frames = []
    with parser.enip_machine(name='enip', context='enip') as machine:
        while True:
            data = cpppo.dotdict()
            source.forget()
            start = source.sent
            eof = False
            try:
                for mch, sta in machine.run(path='request', source=source, data=data):
                    if sta is not None:
                        continue
                    while source.peek() is None:
                        if not pending:
                            eof = True
                            break
                        source.chain(pending.pop(0))
                    if eof:
                        break
            except Exception as exc:
                frames.append(('failed', type(exc).__name__, source.sent - start))
                break
            if 'request' not in data or 'enip' not in data.request:
                break
            if eof and ('input' not in data.request.enip and data.request.enip.get('length')):
                frames.append(('incomplete', source.sent - start))
                break
            e = data.request.enip
            frames.append((e.command, e.length, e.session_handle, bytes(bytearray(e.input)) if 'input' in e else b'', source.sent - start))
            if eof and source.peek() is None:
                break
    return frames


class Harness(object):
    """the real enip_srv_tcp on one end of a socket pair; logix.process wrapped by a call counter"""

    def __init__(self, tags):
        import cpppo
        from cpppo.server.enip import main as enip_main, logix, device
        from . import sim
        sim.quiet()
        device.lookup_reset()
        logix.setup_reset()
        self.cfg = {}
        for name, (typ, ln) in tags.items():
            self.cfg[name] = cpppo.dotdict(attribute=device.Attribute(name, sim.TYPES[typ], default=[0] * ln), error=0)
        self.kwds = dict(tags=self.cfg, server=cpppo.dotdict(control=cpppo.dotdict(done=False, disable=False, latency=0.01, timeout=1.0)))
        logix.setup(**self.kwds)
        self.calls = []
        self.logix = logix
        self.enip_main = enip_main
        self.a, self.b = socket.socketpair()
        self.err = []

        def process(addr, data, **kw):
            self.calls.append('request' if data and 'request' in data and data.request else 'empty')
            return logix.process(addr, data=data, **kw)

        def serve():
            try:
                enip_main.enip_srv_tcp(self.b, ('socketpair', 1), name='enip_t', enip_process=process, **self.kwds)
            except Exception as e:
                self.err.append(type(e).__name__)
        self.t = threading.Thread(target=serve, daemon=True)
        self.t.start()

    def send(self, chunks, gap=0.004):
        for c in chunks:
            try:
                self.a.sendall(c)
            except OSError as e:
                # the server end is already closed: an observation (it shows up as missing replies), not a failure of the harness
                self.err.append('send: %s' % type(e).__name__)
                break
            if gap:
                time.sleep(gap)

    def finish(self, expect=None, wait=1.0):
        """half-close our side and collect everything the server sends until it closes"""
        try:
            self.a.shutdown(socket.SHUT_WR)
        except OSError as e:
            self.err.append('shutdown: %s' % type(e).__name__)
        self.a.settimeout(wait)
        buf = b''
        try:
            while True:
                c = self.a.recv(65536)
                if not c:
                    break
                buf += c
        except socket.timeout:
            pass
        except OSError as e:
            # the server reset the connection while we were reading (it closed with input still unread): an observation, not a harness failure
            self.err.append('recv: %s' % type(e).__name__)
        self.t.join(2.0)
        alive = self.t.is_alive()
        self.a.close()
        return buf, alive

    def recv_frames(self, n, wait=1.5):
        self.a.settimeout(wait)
        buf = b''
        frames = []
        try:
            while len(frames) < n:
                c = self.a.recv(65536)
                if not c:
                    break
                buf += c
                frames, rest = wire.split_frames(buf)
        except socket.timeout:
            pass
        except OSError as e:
            self.err.append('recv: %s' % type(e).__name__)
        return frames


def tag_state():
    from . import sim
    return dict((k, sim.tag_values(k)) for k in ('A', 'B'))


def session_stream(rng, n):
    """register + n requests as reference-encoded frames (session handle learned from a live register is not
    needed: the simulator accepts any session handle on SendRRData)"""
    frames = [wire.register()]
    for i in range(n):
        k = rng.choice(['rd', 'wr', 'frag', 'multi'])
        ctx = struct.pack('<Q', 100 + i)
        if k == 'rd':
            cip = wire.read_tag('A', rng.randint(0, 3), rng.randint(1, 3))
        elif k == 'wr':
            cip = wire.write_tag('A', rng.randint(0, 5), 0xc3, [rng.randint(-5, 500) for _ in range(rng.randint(1, 3))])
        elif k == 'frag':
            cip = wire.read_frag('B', 0, 4, 0)
        else:
            cip = wire.multiple([wire.read_tag('A', 1, 1), wire.write_tag('B', 1, 0xc4, [70000 + i])])
        frames.append(wire.send_rr_data(cip, session=0x1234, context=ctx))
    return frames


def run_stream(chunks, tags, close=True):
    h = Harness(tags)
    h.send(chunks)
    buf, alive = h.finish()
    frames, rest = wire.split_frames(buf)
    return dict(replies=frames, stray=rest, calls=list(h.calls), tags=tag_state(), alive=alive, err=list(h.err))


def norm_replies(frames):
    out = []
    for f in frames:
        cmd, sess, st, ctx, cip = wire.reply_cip(f)
        # the session handle of the Register reply is random; everything else must be identical
        out.append((cmd, st, ctx, cip, None if cmd == 0x65 else sess))
    return out


def burst_case(tags, total):
    """Register + as many Read Tag requests as fit + one Write Tag sized to make the burst exactly `total` bytes, written in one piece, then silence:
    returns (bytes sent, frames sent, replies received within 3 s) - or None when no such burst exists (all frames have even lengths)"""
    rd = wire.send_rr_data(wire.read_tag('A', 0, 1), session=1, context=b'RDRDRDRD')
    base = len(wire.send_rr_data(wire.write_tag('A', 0, 0xc3, []), session=1, context=b'WRWRWRWR'))
    n = (total - 28) // len(rd)
    fill = None
    while n > 0:
        rest_ = total - 28 - n * len(rd)
        if rest_ == 0:
            fill = b''
            break
        if rest_ >= base and (rest_ - base) % 2 == 0 and (rest_ - base) // 2 <= 200:
            fill = wire.send_rr_data(wire.write_tag('A', 0, 0xc3, [7] * ((rest_ - base) // 2)), session=1, context=b'WRWRWRWR')
            break
        n -= 1
    if fill is None:
        return None
    burst = wire.register() + rd * n + fill
    want = 1 + n + (1 if fill else 0)
    h = Harness(tags)
    h.send([burst], gap=0)
    got = h.recv_frames(want, wait=3.0)
    h.finish(wait=0.3)
    return len(burst), want, len(got)


def bounded(tier, seed):
    rng = random.Random(seed)
    ev = 0
    distinct = set()
    violations = []
    samples = []
    tags = {'A': ('INT', 8), 'B': ('DINT', 4)}

    def viol(key, obs, req):
        if len(violations) < 8:
            violations.append(dict(key=key, observed=obs[:400], required=req))
    # ---- (1) parse level
    for round_ in range(3 if tier == 'quick' else 12):
        frames = session_stream(rng, rng.choice([1, 2, 3]))
        stream = b''.join(frames)
        ref = drive_machine([stream])
        want = [(struct.unpack('<H', f[0:2])[0], len(f) - 24, struct.unpack('<I', f[4:8])[0], f[24:], len(f)) for f in frames]
        if ref != want:
            viol('parse unsplit stream of %d frames' % len(frames), repr(ref)[:300], repr(want)[:300])
        cuts = list(range(1, len(stream)))
        if tier == 'quick' and len(cuts) > 90:
            cuts = sorted(set(rng.sample(cuts, 60) + [1, 2, 23, 24, 25, len(frames[0]) - 1, len(frames[0]), len(frames[0]) + 1, len(stream) - 1]))
        segs = [[stream[:k], stream[k:]] for k in cuts]
        segs.append([stream[i:i + 1] for i in range(len(stream))])
        for _ in range(6):
            ks = sorted(rng.sample(range(1, len(stream)), min(rng.randint(2, 6), len(stream) - 1)))
            segs.append([stream[a:b] for a, b in zip([0] + ks, ks + [len(stream)])])
        for chunks in segs:
            if len(violations) >= 8:
                break
            ev += 1
            got = drive_machine(chunks)
            distinct.add(('p', round_, tuple(len(c) for c in chunks)[:6]))
            if got != want:
                viol('parse chunks=%r of %d frames' % ([len(c) for c in chunks][:8], len(frames)), repr(got)[:300],
                     'the same %d frames, each consuming 24 + length bytes' % len(frames))
        if len(samples) < 3:
            samples.append(dict(frames=[len(f) for f in frames], segmentations=len(segs)))
    # ---- (2) server level: segmentation
    for round_ in range(2 if tier == 'quick' else 8):
        frames = session_stream(rng, rng.choice([2, 3]))
        stream = b''.join(frames)
        ref = run_stream([stream], tags)
        ev += 1
        if len(ref['replies']) != len(frames) or ref['err']:
            viol('server: whole stream in one chunk', repr(dict(n=len(ref['replies']), err=ref['err'], calls=ref['calls'])), '%d replies' % len(frames))
            continue
        segs = [[stream[i:i + 1] for i in range(len(stream))]]
        cuts = [1, 23, 24, 25, len(frames[0]), len(frames[0]) + 1, len(frames[0]) + 30, len(stream) - 1]
        cuts += rng.sample(range(1, len(stream)), 6 if tier == 'quick' else 40)
        segs += [[stream[:k], stream[k:]] for k in sorted(set(c for c in cuts if 0 < c < len(stream)))]
        segs.append([b''.join(frames[:2]), b''.join(frames[2:])] if len(frames) > 2 else [stream])
        for chunks in segs:
            if len(violations) >= 8:
                break
            chunks = [c for c in chunks if c]
            ev += 1
            got = run_stream(chunks, tags)
            distinct.add(('s', round_, tuple(len(c) for c in chunks)[:6]))
            if norm_replies(got['replies']) != norm_replies(ref['replies']) or got['tags'] != ref['tags'] or got['stray'] or \
                    got['calls'].count('request') != len(frames):
                viol('server chunks=%r' % ([len(c) for c in chunks][:8],),
                     'replies %d calls %r tags %r err %r' % (len(got['replies']), got['calls'], got['tags'], got['err']),
                     'the replies and tag effects of the unsegmented stream: %d replies, tags %r' % (len(ref['replies']), ref['tags']))
    # ---- (3) truncation: every prefix followed by end of stream
    frames = [wire.register(),
              wire.send_rr_data(wire.write_tag('A', 0, 0xc3, [11, 12, 13, 14]), session=1, context=b'AAAAAAAA'),
              wire.send_rr_data(wire.write_tag('B', 1, 0xc4, [99]), session=1, context=b'BBBBBBBB', route=False)]
    stream = b''.join(frames)
    bounds = [0]
    for f in frames:
        bounds.append(bounds[-1] + len(f))
    offs = list(range(0, len(stream) + 1))
    if tier == 'quick':
        offs = sorted(set(rng.sample(offs, 45) + bounds + [b - 1 for b in bounds[1:]] + [b + 1 for b in bounds[:-1]] + [b + 24 for b in bounds[:-1]]))
    for k in offs:
        if len(violations) >= 8:
            break
        ev += 1
        got = run_stream([stream[:k]] if k else [], tags)
        complete = sum(1 for b in bounds[1:] if b <= k)
        exp_tags = {'A': [0] * 8, 'B': [0] * 4}
        if complete >= 2:
            exp_tags['A'] = [11, 12, 13, 14, 0, 0, 0, 0]
        if complete >= 3:
            exp_tags['B'] = [0, 99, 0, 0]
        distinct.add(('t', k))
        if len(got['replies']) != complete or got['calls'].count('request') != complete or got['tags'] != exp_tags or got['alive'] or got['stray']:
            viol('truncation at byte %d of %d' % (k, len(stream)),
                 'replies %d request-calls %d tags %r thread-alive %r' % (len(got['replies']), got['calls'].count('request'), got['tags'], got['alive']),
                 '%d complete frames: that many calls and replies, tags %r, handler ended' % (complete, exp_tags))
    # ---- (5) bursts of complete requests whose total length fills the receive buffer exactly (or misses it by one): every request whose final
    # byte was delivered is answered without waiting for any further byte
    for total in (4096, 8192, 4094, 4098) if tier == 'quick' else (4096, 8192, 12288, 4094, 4098, 2048, 4096 + 2048):
        r = burst_case(tags, total)
        if r is None:
            continue
        ev += 1
        distinct.add(('burst', total))
        nbytes, want, got = r
        if nbytes != total or got != want:
            viol('one burst of %d bytes (%d complete frames), then silence' % (nbytes, want), '%d replies within 3 s' % got,
                 'all %d replies: a request is acted upon when its final byte has been delivered' % want)
    ev += client_side(tier, rng, viol, distinct)
    return dict(evaluations=ev, distinct_nontrivial=len(distinct), distinct_keys=distinct_keys(distinct),
                rule='reference-encoded streams (Register + 1..3 SendRRData requests: Read/Write Tag, Read Tag Fragmented, Multiple Service Packet); '
                     '(1) real enip_machine fed like enip_srv_tcp: two-way splits (all in thorough, sampled + boundaries in quick), byte-at-a-time, seeded k-way; '
                     '(2) real enip_srv_tcp over a socket pair with a counting wrapper of the real logix.process: same replies and tag effects, coalesced frames; '
                     '(3) truncation offsets followed by EOF: calls == replies == number of complete frames, no tag change for the unfinished frame, handler thread ends; '
                     '(5) single bursts of exactly 4096 / 8192 / 4094 / 4098 bytes of complete requests followed by silence: all replies arrive; (4) the real client.client receive path fed a reply stream by a scripted peer in two-way splits / 7-byte chunks: same parsed replies; distinct = distinct (round, chunk lengths) / truncation offsets',
                exhaustive=False, samples=samples, violations=violations[:20], seed=seed)


def client_receive(chunks, gap=0.01):
    """the real client.client framing (client.__next__ via await_response) fed a reply stream in the given chunks
    by a scripted peer socket; returns the parsed replies [(command, session, length, payload bytes)]"""
    from cpppo.server.enip import client
    from . import sim
    sim.quiet()
    ls = socket.socket(socket.AF_INET, socket.SOCK_STREAM)
    ls.bind(('127.0.0.1', 0))
    ls.listen(1)
    port = ls.getsockname()[1]

    def peer():
        conn, _ = ls.accept()
        try:
            for c in chunks:
                conn.sendall(c)
                time.sleep(gap)
            time.sleep(0.05)
        finally:
            conn.close()
    t = threading.Thread(target=peer, daemon=True)
    t.start()
    out = []
    cli = client.client(host='127.0.0.1', port=port, timeout=2.0)
    try:
        with cli:                                  # exclusive access, held across partial frames (as connector does)
            while True:
                rsp, ela = client.await_response(cli, timeout=1.0)
                if rsp is None:
                    out.append(('timeout',))
                    break
                if not rsp:
                    break                          # {} : clean EOF between frames
                if 'enip' not in rsp:
                    out.append(('no-content', repr(rsp)[:60]))
                    continue
                e = rsp.enip
                out.append((e.get('command'), e.get('session_handle'), e.get('length'), bytes(bytearray(e.input)) if 'input' in e else b''))
    except Exception as exc:
        out.append(('raised', type(exc).__name__))
    finally:
        try:
            cli.close() if hasattr(cli, 'close') else cli.conn.close()
        except Exception:
            pass
        t.join(2.0)
        ls.close()
    return out


def client_side(tier, rng, viol, distinct):
    """(4) the client's own incremental framing: same replies under any segmentation of the reply stream"""
    ev = 0
    replies = [wire.enip_frame(0x65, struct.pack('<HH', 1, 0), session=0x11223344),
               wire.enip_frame(0x6f, struct.pack('<IH', 0, 5) + wire.cpf([(0, b''), (0xb2, bytes([0xcc, 0, 0, 0]) + struct.pack('<Hh', 0xc3, 7))]),
                               session=0x11223344, context=b'CTXCTXCT')]
    stream = b''.join(replies)
    want = [(struct.unpack('<H', f[0:2])[0], struct.unpack('<I', f[4:8])[0], len(f) - 24, f[24:]) for f in replies]
    cuts = [1, 2, 23, 24, 25, len(replies[0]) - 1, len(replies[0]), len(replies[0]) + 1, len(replies[0]) + 24, len(stream) - 1]
    if tier != 'quick':
        cuts = range(1, len(stream))
    segs = [[stream]] + [[stream[:k], stream[k:]] for k in sorted(set(cuts))] + [[stream[i:i + 7] for i in range(0, len(stream), 7)]]
    if tier != 'quick':
        segs.append([stream[i:i + 1] for i in range(len(stream))])
    for chunks in segs:
        ev += 1
        got = client_receive(chunks, gap=0.04 if len(chunks) <= 3 else 0.01)
        got = [g for g in got if g != ('eof',)]
        distinct.add(('c', tuple(len(c) for c in chunks)[:6]))
        if got != want:
            viol('client receive chunks=%r' % ([len(c) for c in chunks][:8],), repr(got)[:300], 'the two reply frames with identical content: %r' % (want,))
    return ev


def conn_methods(eng, recv, name, args, kw, st, n):
    """ASSUMED model of the socket handed to network.recv: conn.recv(n) either returns some bytes (possibly none: end of stream) or raises a socket error;
    every call is logged (ghost), so that the contract can count them"""
    import z3
    from pyvc.vals import OpaqueV, SeqV, IntV, TupV, ExcV, IntSeq
    from pyvc.pure import to_int
    if isinstance(recv, OpaqueV) and name == 'recv':
        def gen():
            k = len([1 for _ in range(0)])
            st2 = eng.emit(st, TupV([IntV(to_int(args[0]))]), getattr(n, 'lineno', None))
            idx = st2.out_n if hasattr(st2, 'out_n') else 0
            for s, fails in eng.fork(st2, z3.Bool('_g_recv_fails_%s' % z3.simplify(idx))):
                if fails:
                    yield s, ExcV('OSError', 'socket error', getattr(n, 'lineno', None))
                else:
                    yield s, SeqV(z3.Const('_g_received_%s' % z3.simplify(idx), IntSeq), 'bytes')
        return gen()
    return None


def replay_recv(model, obligation):
    """the real network.recv on a socket pair: whatever is pending is returned at once, in pieces of at most the buffer size, and nothing is lost or waited for"""
    import socket
    import threading
    from cpppo.server import network
    for size in (1, 100, 4095, 4096, 4097, 8192, 12288):
        a, b = socket.socketpair()
        try:
            payload = bytes(bytearray((i * 7) % 251 for i in range(size)))
            a.sendall(payload)
            got, out = b'', {}

            def pull():
                out['first'] = network.recv(b, timeout=1.0)
            t = threading.Thread(target=pull, daemon=True)
            t.start()
            t.join(3.0)
            if t.is_alive():
                return dict(confirmed=True, function='cpppo.server.network.recv', input='%d bytes pending, then silence' % size, observed='recv does not return within 3 s',
                            required='the pending bytes (at most one buffer) at once')
            first = out.get('first')
            if not first or payload[:len(first)] != first or len(first) > 4096:
                return dict(confirmed=True, function='cpppo.server.network.recv', input='%d bytes pending, then silence' % size, observed='returns %r' % (first if first is None else len(first),),
                            required='the first up to 4096 pending bytes')
        finally:
            a.close()
            b.close()
    return dict(confirmed=False)


def recv_spec():
    from pyvc.spec import Spec
    return Spec('network.recv', ('server/network.py', 'recv'), params={'conn': 'Opaque', 'maxlen': 'Int'}, requires='maxlen >= 1', yields=1,
                ensures=[('one read per call: the socket is asked exactly once (select has said it is readable once)', 'NOUT == 1'),
                         ('and for at most the buffer size', 'OUT(0) == maxlen')],
                raises={}, modifies=[], hints=dict(value_method=conn_methods), replay=replay_recv,
                note='the body of network.recv (its @readable decorator - select with the timeout - is not under contract); conn.recv by an assumed model: returns bytes or raises a socket error; '
                     'calls are logged as ghost output')


def contracts(repo):
    from . import source_common as SC
    from . import C01 as _C01
    # a frame is 24 bytes plus its declared length: what the library itself sends declares exactly the length of its payload (contract of C01)
    return SC.peeking_specs() + SC.chaining_specs() + SC.remembering_specs() + [_C01.enip_encode_spec(), recv_spec()]
