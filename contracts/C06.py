"""C06 — exactly one matching reply per request, delivered in request order.

P (function level): every recognised request handled by Logix.request (4 tag services) and by
  Message_Router.request (bundle) returns True having produced exactly one reply payload
  (data.input), with the reply service == request service | 0x80, and never lets an exception
  escape (so one request can not end the session); the bundle hands each member to the target once.
B: request sequences through the real logix.process and the real server over TCP, pipelined.
"""
from .util import distinct_keys
import random

from . import logix_common as LC
from . import C07

PROPERTY = 'C06'
LEVEL = 'proof'
LEVEL_TEXT = ('Function-level deductive proof on the real code: for each of the four Logix tag services and for the Multiple Service '
              'Packet branch of Message_Router.request, every path through the method returns True after assigning exactly one reply '
              'payload, sets the reply bit (service | 0x80) and cannot raise (`noexc` obligations: an invalid request produces an error '
              'reply instead of ending the session). Ordering, sender context and session handle across a connection are checked on the real '
              'server over TCP with pipelined requests only up to a bound (not counted); "all schedules" is outside this technique.')
LEVEL_NOTE = ('Not under contract: enip_srv_tcp receive loop, logix.process, UCMM.request (Register/Unregister, SendRRData unwrap) and '
              'Connection_Manager.request - bounded tier only. Assumed callee contracts as in C05 (resolve/lookup/route/produce).')
TECHNIQUE = 'contracts on Logix.request / Message_Router.request (one reply, reply bit, no escaping exception), VCs from the real AST, z3/cvc5; bounded pipelined sessions over TCP'
TRUSTED = ['assumed callee contracts: resolve, lookup, route, produce', 'is_uerr: the item length read from the data artifact is a free integer; the source by the peeking contracts', 'envelope frame: AST-decided (stores through callees that are handed data.enip - parser.produce, enip_format, CM.request on session end - are not followed)', 'producer contracts shared with C01 carry its assumptions', 'the session layer (enip_srv_tcp, logix.process, UCMM) is only exercised in the bounded tier']
ASSUMPTIONS = ['single connection at a time in the bounded tier; schedules are not enumerated']

C06_LABELS = ('reply-bit: the reply service is the request service | 0x80', 'returns-true', 'one-reply-payload-produced',
              'status-is-0x00-0x05-or-0xFF', 'unknown-tag-or-attribute: status 0x05',
              # a write whose data type the tag cannot hold must be refused: a stored value the tag's own type cannot produce makes every later
              # read of it fail outside the reply path, i.e. no reply frame for that request
              'type-mismatch: 0xFF/0x2107 and unchanged')



# ------------------------------------------------------------------------------------------------ Register Session: a fresh, non-zero session handle
import ast as _ast
import z3 as _z3

UC = 'server/enip/ucmm.py'
INSESS = _z3.Function('in_sessions', _z3.IntSort(), _z3.BoolSort())     # `session in self.__class__.sessions` for the table as it is on entry


def frag_register(eng, fdef):
    """the statements under `with self.lock:` in the `'enip.CIP.register' in data` branch of UCMM.request (choose a session handle, record it)"""
    from pyvc.vals import Unsupported
    for n in _ast.walk(fdef):
        if isinstance(n, _ast.If) and _ast.unparse(n.test) == "'enip.CIP.register' in data":
            w = n.body[0]
            if isinstance(w, _ast.With) and _ast.unparse(w.items[0].context_expr) == 'self.lock':
                after = n.body[1]
                if not (isinstance(after, _ast.Assign) and _ast.unparse(after) == 'data.enip.session_handle = session'):
                    raise Unsupported('stale contract: the chosen session is not what the reply carries (line %d)' % after.lineno)
                return list(w.body[:2])          # the draw and the re-draw loop (the table update that follows is by env model)
    raise Unsupported("stale contract: UCMM.request has no `with self.lock:` block in its register branch")


def register_spec():
    from pyvc.spec import Spec, Loop
    from pyvc.vals import BoolV
    from pyvc.pure import to_int
    return Spec(
                'UCMM.request[register: session handle]', (UC, 'UCMM.request'), params={}, fragment=frag_register,
                hints=dict(locals={}, funcs=dict(in_sessions=lambda pe, x: BoolV(INSESS(to_int(x))))),
                env={'session in self.__class__.sessions': lambda eng, st: BoolV(INSESS(to_int(st.loc['session'])))},
                loops={0: Loop(invariant=[('a 32-bit value', '0 <= session <= 4294967295')])},
                ensures=[('the session handle is not zero', '_f_session != 0'),
                         ('and is not a handle already in use', 'not in_sessions(_f_session)'),
                         ('a 32-bit value', '0 <= _f_session <= 4294967295')],
                raises={}, modifies=[],
                note='FRAGMENT (T9): the draw / re-draw loop of Register Session (random.randint by its T2 axiom: some value in range); the selector checks '
                     'on the AST that the reply carries exactly this value (data.enip.session_handle = session). Termination of the re-draw loop is '
                     'probabilistic and not claimed. `session in sessions` is an uninterpreted predicate over the table on entry.')


def frag_is_uerr(eng, fdef):
    """the decision of is_uerr (the predicate that tells an Unconnected Send error reply from an encapsulated reply): its `if ...length <= 6:` statement"""
    import ast
    ifs = [x for x in fdef.body if isinstance(x, ast.If) and "..length" in ast.unparse(x.test)]
    if len(ifs) != 1 or fdef.body[-1] is not ifs[0]:
        raise Unsupported('stale contract: is_uerr does not end with its single `if data[path + "..length"] <= 6:` decision')
    return ifs


def replay_is_uerr(model, obligation):
    """replies of the simulator with every failure status, through the real client-side parser: each is delivered as the reply to its request"""
    import cpppo
    from cpppo.server.enip import parser
    for payload, uerr in ((b'\xd2\x00\x05\x01\x00\x00', False), (b'\xd2\x00\xff\x01\x05\x21', False), (b'\xd2\x00\x08\x00', True), (b'\xd2\x00\x01\x00', True),
                          (b'\xd2\x00\x04\x01\x00\x00', False), (b'\xd2\x00\x10\x00', False), (b'\xd2\x00\x00\x00\xc3\x00\x01\x00', False)):
        data = cpppo.dotdict()
        data['p.length'] = len(payload)
        src = cpppo.peekable(payload)
        with parser.unconnected_send(terminal=True, limit=len(payload)) as m:
            for _ in m.run(source=src, data=data, path='p'):
                pass
        us = data.p.unconnected_send
        is_err = 'request' not in us and us.get('service') == 0xd2 and 'status' in us
        if is_err != uerr:
            return dict(confirmed=True, function='cpppo.server.enip.parser.unconnected_send (is_uerr)', input=repr(payload),
                        observed='parsed as %s: %r' % ('an Unconnected Send error' if is_err else 'an encapsulated reply', dict(us)),
                        required='an Unconnected Send error' if uerr else 'the encapsulated reply of the request (delivered with its own status)')
    return dict(confirmed=False)


def is_uerr_spec():
    import z3
    from pyvc.spec import Spec
    from pyvc.vals import IntV
    from . import source_common as SC
    push, nxt, peek = SC.peeking_specs()
    def src(eng, name, st):
        eng.init_vals['_g_length'] = IntV(z3.Int('_g_length'))
        return eng.fresh_obj('peeking', SC.PEEK_FIELDS, name, st)
    R = 'old(rest(source._iter))'
    return Spec('unconnected_send.is_uerr', ('server/enip/parser.py', 'unconnected_send.__init__.is_uerr'), params={'source': src}, fragment=frag_is_uerr,
                env={"data[path + '..length']": lambda eng, st: IntV(z3.Int('_g_length'))},
                requires='len(source._back) == 0 and len(rest(source._iter)) >= 4 and _g_length >= 0',
                defs=dict(R=R),
                ensures=[('an error of the Unconnected Send itself: a short 0xD2 payload whose status is below 0x10 and has NO extended status word; anything else is the encapsulated reply',
                          '(result is not None) == (_g_length <= 6 and R[2] < 16 and R[3] == 0)'),
                         ('only ever True', 'result is None or result == True'),
                         ('the peeked symbols are all pushed back: the pending stream is what it was', 'implies(_g_length <= 6, source._back == [R[3], R[2], R[1], R[0]] and rest(source._iter) == R[4:])'),
                         ('nothing is consumed', 'source._sent == old(source._sent)')],
                raises={}, modifies=['source._back', 'source._sent', 'source._iter'],
                callees={'peeking.__next__': nxt, '__next__': nxt, 'next': nxt, 'push': push, 'peeking.push': push},
                hints=dict(locals={}), replay=replay_is_uerr,
                note='FRAGMENT (T9): the decision statement of the nested predicate is_uerr of unconnected_send.__init__ (log lines dropped); the source by the peeking contracts; '
                     'the item length read from the data artifact is a free integer')


def envelope_frame(repo):
    """The reply's encapsulation header is the request's: logix.process answers in a structural copy of request.enip, and neither it nor
    UCMM.request stores into the copied sender context, command or (outside Register Session) session handle (the header's options word, which the property does not mention, is not constrained).  Decided on the AST of both."""
    import re
    import z3
    from . import frames
    from pyvc.vals import Unsupported
    out = []
    import ast
    targets = [('server/enip/logix.py', 'process', 'data.response.enip', {})]
    # UCMM.request and every other UCMM method that is handed the same `data` (request dispatches to them: list_services, list_identity, ...)
    utree = repo.module('server/enip/ucmm.py').tree
    ucls = [n for n in utree.body if isinstance(n, ast.ClassDef) and n.name == 'UCMM']
    if len(ucls) != 1:
        raise Unsupported('stale contract: no class UCMM in server/enip/ucmm.py')
    for fn in ucls[0].body:
        if isinstance(fn, ast.FunctionDef) and 'data' in [a.arg for a in fn.args.args]:
            targets.append(('server/enip/ucmm.py', 'UCMM.' + fn.name, 'data.enip', {'session_handle': 1} if fn.name == 'request' else {}))
    if len(targets) < 5:
        raise Unsupported('stale contract: UCMM has only %d methods taking `data`' % (len(targets) - 1))
    for rel, qual, root, allowed in targets:
        mod, cls, fdef = repo.find_function(rel, qual)
        al = frames.aliases(fdef, root, ('sender_context', 'command', 'session_handle'))
        if al:
            raise Unsupported('stale contract: %s binds %s to a plain name (%s); stores through it are not tracked' % (qual, root, ', '.join(al)))
        st = frames.stores(fdef)
        for field in ('sender_context', 'command', 'session_handle'):
            hits = [(ln, t) for ln, t in st if re.match(r'^%s\.%s(\.|\[|$)' % (re.escape(root), field), t) or t in (root + '.?',)]
            w = z3.Int('stores_%s_%s' % (qual.replace('.', '_'), field))
            out.append(('%s stores into %s.%s at most %d time(s)' % (qual, root, field, allowed.get(field, 0)), [w == len(hits)], w <= allowed.get(field, 0)))
    # the one permitted store of the session handle is the Register Session branch (its value is the subject of the register contract above)
    mod, cls, fdef = repo.find_function('server/enip/logix.py', 'process')
    copies = [n for n in ast.walk(fdef) if isinstance(n, ast.Assign) and ast.unparse(n.targets[0]) == 'data.response.enip' and ast.unparse(n.value) == 'dotdict(data.request.enip)']
    c = z3.Int('response_enip_is_a_copy_of_request_enip')
    out.append(('process builds response.enip as a copy of request.enip', [c == len(copies)], c == 1))
    return out


def replay_envelope(model, obligation):
    """reference-encoded requests with distinctive header fields through the real logix.process: the reply header carries them back"""
    import struct
    import cpppo
    from cpppo.server.enip import logix, device, parser
    from . import sim, wire
    sim.quiet()
    device.lookup_reset()
    logix.setup_reset()
    tags = {'A': cpppo.dotdict(attribute=device.Attribute('A', parser.INT, default=[5, 6, 7]), error=0)}
    for k, (cip, ctx, sess) in enumerate(((wire.read_tag('A', 0, 1), b'CONTEXT1', 0x01020304), (wire.write_tag('A', 1, 0xc3, [9]), b'\x00\xff\x00\xff\x00\xff\x00\x01', 0x7fffffff),
                                          (wire.read_tag('Nope', 0, 1), b'ctx-fail', 5))):
        frame = wire.send_rr_data(cip, session=sess, context=ctx)
        data = cpppo.dotdict()
        data.request = cpppo.dotdict()
        with parser.enip_machine(context='enip') as m:
            for _ in m.run(source=cpppo.peekable(frame), data=data.request):
                pass
        try:
            logix.process(('127.0.0.1', 1), data=data, tags=tags)
        except Exception as e:
            continue
        rp = bytes(parser.enip_encode(data.response.enip)) if 'enip' in data.response else b''
        if len(rp) < 24:
            continue
        cmd, ln, sh, st = struct.unpack('<HHII', rp[:12])
        if cmd != 0x6f or sh != sess or rp[12:20] != ctx:
            return dict(confirmed=True, function='cpppo.server.enip.logix.process / UCMM.request', input='SendRRData session 0x%x context %r' % (sess, ctx),
                        observed='reply command 0x%x session 0x%x context %r' % (cmd, sh, rp[12:20]), required="the request's command, session handle and sender context")
    return dict(confirmed=False)


def contracts(repo):
    from pyvc.spec import Custom as _Custom
    items = [register_spec(), is_uerr_spec(), _Custom('envelope_frame', envelope_frame, replay=replay_envelope, targets=[('server/enip/ucmm.py', 'UCMM.request'), ('server/enip/logix.py', 'process')],
                                      note='frame condition on the AST of UCMM.request and logix.process: the copied encapsulation header fields are not stored into (session handle: once, in Register Session)')]
    for sp in LC.request_specs():
        sp.ensures = [(l, t) for l, t in sp.ensures if l in C06_LABELS]
        items.append(sp)
    items.append(C07.router_request_spec())
    # the reply frame around the service reply: encapsulation header (command, length, session, status, sender context, options), SendRRData
    # payload and the CPF list with its null address item and one data item - the producer contracts of C01
    from . import C01 as _C01
    items += [_C01.enip_encode_spec()] + [s for s in _C01.encapsulation_specs() if s.name.startswith(('send_data', 'register'))] + _C01.cpf_specs()
    from . import C02 as _C02
    items.append(_C02.recv_spec())             # every request delivered is seen: one read of the socket per readable event, nothing dropped or waited for
    from . import C15
    items += C15.contracts(repo)          # an unroutable request is refused before any dispatch, with a non-zero status
    from . import C05
    from pyvc.spec import Custom
    # a write of a type the tag cannot hold is refused: otherwise a stored value that does not fit the tag's type makes every later read of
    # it fail outside the reply path (no reply frame for that request)
    items.append(Custom('well_formed', C05.well_formed, replay=C05.replay_cell, targets=[('server/enip/logix.py', 'Logix.request')],
                        note='allowed_tag_types read from the AST of Logix.request (shared with C05): every accepted (tag type, request type) pair stores values the tag type can produce'))
    return items


def session(ops, depth, multiple, tags, max_bytes=None, fragment=False):
    from . import netsim
    from cpppo.server.enip import client
    out = []
    with netsim.Server(tags, max_bytes=max_bytes) as srv:
        try:
            with client.connector(host='127.0.0.1', port=srv.port, timeout=3.0) as conn:
                assert conn.session, 'Register Session returned no session handle'
                mismatched = []
                for idx, dsc, op, rpy, sts, val in conn.pipeline(operations=client.parse_operations(ops, fragment=fragment), depth=depth,
                                                                 multiple=multiple, fragment=fragment, timeout=3.0):
                    out.append((sts if not isinstance(sts, tuple) else sts[0], val))
                    if rpy is not None and 'service' in op and rpy.get('service') != (op.service | 0x80):
                        mismatched.append('request %d (service 0x%02x) delivered with reply service %r' % (idx, op.service, rpy.get('service')))
                if mismatched:
                    out.append(('mismatched', mismatched[0]))
        except Exception as e:
            out.append(('session ended', type(e).__name__, str(e)[:60]))
        errs = list(srv.errors)
    return out, errs


def read_exact(s, n):
    """up to n bytes from a socket: fewer when the peer closes, resets or stays silent (the caller reports what is missing)"""
    buf = b''
    try:
        while len(buf) < n:
            c = s.recv(n - len(buf))
            if not c:
                break
            buf += c
    except OSError:
        pass
    return buf


def raw_session(frames, tags):
    """write all request frames before reading any reply; returns the reply frames (parsed headers)"""
    import socket
    import struct
    from . import netsim
    with netsim.Server(tags) as srv:
        s = socket.create_connection(('127.0.0.1', srv.port), timeout=3.0)
        s.sendall(b''.join(frames))
        buf = b''
        replies = []
        s.settimeout(1.5)
        try:
            while len(replies) < len(frames):
                chunk = s.recv(65536)
                if not chunk:
                    break
                buf += chunk
                while len(buf) >= 24:
                    ln = struct.unpack('<H', buf[2:4])[0]
                    if len(buf) < 24 + ln:
                        break
                    replies.append(buf[:24 + ln])
                    buf = buf[24 + ln:]
        except OSError:          # a timeout, or the peer reset the connection: what was received so far is the observation
            pass
        s.close()
    return replies, buf


def bounded(tier, seed):
    import struct
    from cpppo.server.enip import client, parser
    import cpppo
    rng = random.Random(seed)
    ev = 0
    distinct = set()
    violations = []
    samples = []
    tags = {'A': ('INT', 10), 'B': ('DINT', 4)}
    model = {'A': [0] * 10, 'B': [0] * 4}
    # (reads and writes that succeed, and ones the simulator answers with each of its failure statuses: 0xFF + extended word for a range / type error,
    # 0x05 + extended word for an attribute that does not exist in an existing object)
    pool = ['A[0-2]', 'A[9]', 'A[1-1]=5', 'A[2-3]=7,8', 'B[0-3]', 'B[1-1]=(DINT)70000', 'A[8-12]', 'A[10]', 'A[3-3]=(DINT)1', 'A[0-9]', '@2/1/99', '@2/1/98[0-0]=(INT)1']
    rounds = 6 if tier == 'quick' else 40
    for r in range(rounds):
        if len(violations) >= 5:
            break
        ops = [rng.choice(pool) for _ in range(rng.choice([1, 3, 6, 10]))]
        if r == 0:
            ops = ['A[0]', 'A[1-2]', '@2/1/99', 'A[3]', 'A[10]', 'A[4-6]']        # failing requests between succeeding ones, every failure status
        ref, errs0 = session(ops, 1, 0, tags)
        for depth, multiple, fragment in ((1, 0, False), (3, 0, False), (10, 0, False), (2, 250, False), (1, 0, True), (3, 0, True), (2, 250, True)):
            ev += 1
            got, errs = session(ops, depth, multiple, tags, fragment=fragment)
            distinct.add((tuple(ops), depth, multiple, fragment))
            if len(got) != len(ops):
                violations.append(dict(key='pipeline ops=%r depth=%d multiple=%d fragment=%r' % (ops, depth, multiple, fragment), observed=repr(got)[:300],
                                       required='exactly one result per operation (%d)' % len(ops)))
            elif got != ref:
                violations.append(dict(key='pipeline ops=%r depth=%d multiple=%d fragment=%r' % (ops, depth, multiple, fragment), observed=repr(got)[:300],
                                       required='results in operation order equal to the synchronous ones %r' % (ref,)))
            if errs:
                violations.append(dict(key='server thread error ops=%r' % (ops,), observed=repr(errs)[:300], required='no handler failure'))
        if len(samples) < 4:
            samples.append(dict(ops=ops, results=repr(ref)[:160]))
    # raw frames: register, N requests written before any reply is read: one reply each, in order, same context, service | 0x80
    def frame(command, payload, session=0, context=b'\0' * 8):
        return struct.pack('<HHII', command, len(payload), session, 0) + context + struct.pack('<I', 0) + payload
    reg = frame(0x65, struct.pack('<HH', 1, 0))
    replies, rest = raw_session([reg], tags)
    ev += 1
    ok = len(replies) == 1 and struct.unpack('<I', replies[0][4:8])[0] != 0
    if not ok:
        violations.append(dict(key='register session', observed=repr(replies)[:200], required='one reply with a non-zero session handle'))
    else:
        for n in (1, 3, 8) if tier == 'quick' else (1, 2, 3, 5, 8, 16, 32):
            with __import__('contracts.netsim', fromlist=['Server']).Server(tags) as srv:
                import socket
                s = socket.create_connection(('127.0.0.1', srv.port), timeout=3.0)
                s.sendall(reg)
                hdr = read_exact(s, 28)
                if len(hdr) < 28:
                    # no (complete) Register Session reply on this connection: reported by the first check above on its own connection; nothing to pipeline
                    violations.append(dict(key='register session (connection %d of the pipelined runs)' % n, observed='%d of 28 reply bytes' % len(hdr),
                                           required='one reply with a non-zero session handle'))
                    s.close()
                    continue
                sess = struct.unpack('<I', hdr[4:8])[0]
                reqs = []
                for i in range(n):
                    svc = rng.choice([0x4c, 0x52, 0x4d])
                    name = rng.choice(['A', 'B', 'A'])
                    epath = bytes([0x91, len(name)]) + name.encode() + (b'\0' if len(name) % 2 else b'')
                    if svc == 0x4c:
                        cip = bytes([svc, len(epath) // 2]) + epath + struct.pack('<H', 1)
                    elif svc == 0x52:
                        cip = bytes([svc, len(epath) // 2]) + epath + struct.pack('<HI', 2, 0)
                    else:
                        cip = bytes([svc, len(epath) // 2]) + epath + struct.pack('<HHh', 0xc3 if name == 'A' else 0xc4, 1, i)[:6 if name == 'A' else 6]
                        if name == 'B':
                            cip = bytes([svc, len(epath) // 2]) + epath + struct.pack('<HHi', 0xc4, 1, i)
                    us = bytes([0x52, 2, 0x20, 6, 0x24, 1, 5, 157]) + struct.pack('<H', len(cip)) + cip + (b'\0' if len(cip) % 2 else b'') + bytes([1, 0, 1, 0])
                    cpf = struct.pack('<IHH', 0, 5, 2) + struct.pack('<HH', 0, 0) + struct.pack('<HH', 0xb2, len(us)) + us
                    reqs.append((svc, frame(0x6f, cpf, session=sess, context=struct.pack('<Q', 1000 + i))))
                try:
                    s.sendall(b''.join(f for _, f in reqs))
                except OSError:
                    pass                   # the server closed early: it shows as missing replies below
                buf = b''
                got = []
                s.settimeout(2.0)
                try:
                    while len(got) < n:
                        chunk = s.recv(65536)
                        if not chunk:
                            break
                        buf += chunk
                        while len(buf) >= 24 and len(buf) >= 24 + struct.unpack('<H', buf[2:4])[0]:
                            ln = struct.unpack('<H', buf[2:4])[0]
                            got.append(buf[:24 + ln])
                            buf = buf[24 + ln:]
                except OSError:          # a timeout, or the peer reset the connection: what was received so far is the observation
                    pass
                s.close()
            ev += 1
            distinct.add(('raw', n))
            bad = None
            if len(got) != n or buf:
                bad = '%d replies for %d requests (+%d stray bytes)' % (len(got), n, len(buf))
            else:
                for i, ((svc, _), rp) in enumerate(zip(reqs, got)):
                    cmd, ln, sh, st = struct.unpack('<HHII', rp[:12])
                    ctx = struct.unpack('<Q', rp[12:20])[0]
                    body = rp[24:]
                    # interface(4) timeout(2) count(2) item0 type/len (4) item1 type(2) len(2) payload
                    items_ok = len(body) >= 16 and struct.unpack('<H', body[6:8])[0] == 2 and struct.unpack('<HH', body[8:12]) == (0, 0) \
                        and struct.unpack('<H', body[12:14])[0] == 0xb2
                    rsvc = body[16] if len(body) > 16 else None
                    if cmd != 0x6f or sh != sess or st != 0 or ctx != 1000 + i or not items_ok or rsvc != (svc | 0x80):
                        bad = 'reply %d: command 0x%x session %r status %r context %r service %r (request service 0x%x)' % (i, cmd, sh, st, ctx, rsvc, svc)
                        break
            if bad:
                violations.append(dict(key='raw pipelined %d requests' % n, observed=bad, required='one reply per request, in order, same sender context and session, service | 0x80 in null-address + data item'))
    # long pipelines: many requests written in one piece whose total length fills the receive buffer exactly: one reply each, nothing more is sent
    from . import C02
    for total in (4096, 8192) if tier == 'quick' else (4096, 8192, 12288, 4094, 4098):
        r = C02.burst_case({'A': ('INT', 8), 'B': ('DINT', 4)}, total)
        if r is None:
            continue
        ev += 1
        distinct.add(('burst', total))
        if r[2] != r[1]:
            violations.append(dict(key='%d request frames written in one piece of %d bytes, then silence' % (r[1], r[0]), observed='%d reply frames within 3 s' % r[2],
                                   required='exactly one reply per request (%d)' % r[1]))
    # (c) session-level commands: each gets exactly one reply frame with the same command; Unregister gets none and ends the session
    from . import wire, netsim
    import socket
    for name, cmd, payload in (('ListServices', 0x04, b''), ('ListIdentity', 0x63, b''), ('ListInterfaces', 0x64, b''), ('Register', 0x65, struct.pack('<HH', 1, 0))):
        with netsim.Server(tags) as srv:
            s = socket.create_connection(('127.0.0.1', srv.port), timeout=3.0)
            # the command, then a Read Tag so that a missing reply is observable as a mis-ordered / missing frame
            s.sendall(wire.enip_frame(cmd, payload, context=b'CMDCMDCM') + wire.send_rr_data(wire.read_tag('A', 0, 1), session=7, context=b'NEXTNEXT'))
            buf = b''
            s.settimeout(1.5)
            try:
                while len(wire.split_frames(buf)[0]) < 2:
                    c = s.recv(65536)
                    if not c:
                        break
                    buf += c
            except OSError:          # a timeout, or the peer reset the connection: what was received so far is the observation
                pass
            s.close()
        frames, rest = wire.split_frames(buf)
        ev += 1
        distinct.add(('cmd', name))
        ok = len(frames) == 2 and struct.unpack('<H', frames[0][:2])[0] == cmd and frames[0][12:20] == b'CMDCMDCM' and frames[1][12:20] == b'NEXTNEXT'
        if not ok:
            violations.append(dict(key='%s then Read Tag' % name, observed='%d reply frames: %r' % (len(frames), [f[:2].hex() for f in frames]),
                                   required='one reply per request, in order, same command and sender context'))
    with netsim.Server(tags) as srv:
        s = socket.create_connection(('127.0.0.1', srv.port), timeout=3.0)
        s.sendall(wire.register())
        hdr = read_exact(s, 28)
        sess = struct.unpack('<I', hdr[4:8])[0] if len(hdr) >= 8 else 0
        try:
            s.sendall(wire.unregister(sess))
        except OSError:
            pass
        s.settimeout(1.5)
        try:
            tail = s.recv(100)
        except socket.timeout:
            tail = b'timeout'
        except OSError:
            tail = b''            # the connection was reset: the session has ended, nothing was returned
        s.close()
    ev += 1
    distinct.add(('cmd', 'Unregister'))
    if sess == 0 or tail != b'':
        violations.append(dict(key='Register / Unregister', observed='session %r, after Unregister received %r' % (sess, tail),
                               required='non-zero session handle; Unregister returns nothing and ends the session'))
    # (d) an unroutable request (route path sent to a simple, non-routing device) is answered by one frame with a non-zero encapsulation status
    from . import C15
    for cfg, rq, accept in (('simple', [('port', 1, 0)], False), ('simple', None, True), ([{'port': 1, 'link': 0}], [('port', 1, 1)], False)):
        ev += 1
        distinct.add(('route', repr(cfg), repr(rq)))
        st, vals = C15.e2e(cfg, rq)
        if (st == 0) != accept:
            violations.append(dict(key='personality %r request route %r' % (cfg, rq), observed='encapsulation status 0x%x' % st,
                                   required='status 0' if accept else 'a non-zero encapsulation status'))
    # connected sessions: a small and a Large Forward Open each get the matching reply; requests over the connection get theirs, in order
    from . import netsim
    for name, size, req_svc, rpy_svc in (('Forward Open', 500, 0x54, 0xd4), ('Large Forward Open', 4000, 0x5b, 0xdb)):
        ev += 1
        distinct.add(('connected', size))
        bad = None
        got = []
        try:
            with netsim.Server({'A': ('INT', 10), 'B': ('DINT', 4)}) as srv:
                par = lambda: cpppo.dotdict(size=size, type=2, priority=0, variable=1, redundant=0, RPI=2000000)
                conn = client.implicit(host='127.0.0.1', port=srv.port, timeout=3.0, O_T=par(), T_O=par(), sender_context=b'c06')
                try:
                    if conn.requested.service != req_svc:
                        bad = 'client issued service 0x%02x for a %d-byte connection' % (conn.requested.service, size)
                    elif conn.established.service != rpy_svc:
                        bad = 'request 0x%02x answered by reply service 0x%02x' % (req_svc, conn.established.service)
                    else:
                        for opi, (tag, want) in enumerate((('A[1]', [0]), ('B[0]', [0]), ('A[1]', [0]))):
                            with conn:
                                rq = conn.read(tag, elements=1, offset=None, timeout=3.0)
                                rsp, _ = client.await_response(conn, timeout=3.0)
                            rpy = rsp and rsp.get('enip.CIP.send_data.CPF.item[1].connection_data.request')
                            if not rpy or rsp.enip.status != 0:
                                bad = 'no reply to connected Read Tag #%d' % opi
                                break
                            got.append((rpy.service, rpy.get('read_tag.data')))
                            if rpy.service != (rq.service | 0x80) or rpy.get('read_tag.data') != want:
                                bad = 'connected Read Tag #%d (0x%02x) answered by 0x%02x with %r' % (opi, rq.service, rpy.service, rpy.get('read_tag.data'))
                                break
                finally:
                    conn.close()
        except Exception as e:
            bad = 'raised %s: %s' % (type(e).__name__, str(e)[:120])
        if bad:
            violations.append(dict(key='%s then connected reads' % name, observed=bad + ' ' + repr(got)[:100],
                                   required='reply service 0x%02x, then one matching reply per connected request' % rpy_svc))
    # a routing gateway: requests whose route path matches a configured route are forwarded to the target; each still gets its own reply,
    # also after a forwarded request that the target answered too late (non-zero status, session ends)
    import time as _time
    from cpppo.server.enip import ucmm as _ucmm

    class Gateway(_ucmm.UCMM):
        route = {}
    delay = cpppo.dotdict(value=0.0)
    ev += 1
    distinct.add(('gateway',))
    bad = None
    try:
        with netsim.Server({'A': ('INT', 10), 'B': ('INT', 10)}, UCMM_class=Gateway, delay=delay) as srv:
            from cpppo.server.enip import logix as _logix
            gw = getattr(_logix.setup, 'ucmm', None)
            if gw is None or not isinstance(gw, Gateway):
                raise RuntimeError('the simulator did not instantiate the configured UCMM class')
            gw.route = {'1/1': ('127.0.0.1', srv.port)}          # the target is this same simulator (known only once it listens)
            routed = dict(route_path=[{'port': 1, 'link': 1}], send_path='@6/1', priority_time_tick=5, timeout_ticks=10)      # 320 ms

            def transact(conn, method, **kw):
                kw.update(routed)
                with conn:
                    rq = getattr(conn, method)(timeout=4.0, **kw)
                    rsp, _ = client.await_response(conn, timeout=4.0)
                return rq, rsp
            inner = lambda d: d.enip.CIP.send_data.CPF.item[1].unconnected_send.request
            conn = client.connector(host='127.0.0.1', port=srv.port, timeout=4.0)
            with conn:
                for tg, val in (('A[0]', 111), ('B[0]', 222)):
                    conn.write(tg, data=[val], tag_type=0xc3, elements=1, offset=None, timeout=4.0)
                    rsp, _ = client.await_response(conn, timeout=4.0)
            rq, rsp = transact(conn, 'read', path='A[0]', elements=1, offset=None, sender_context=b'one')
            if not rsp or rsp.enip.status != 0 or inner(rsp).get('read_tag.data') != [111]:
                bad = 'routed read of A[0]: %r' % (rsp and rsp.enip.status,)
            else:
                delay.value = 0.75
                rq, rsp = transact(conn, 'read', path='A[0]', elements=1, offset=None, sender_context=b'two')
                delay.value = 0.0
                if not rsp or rsp.enip.status == 0:
                    bad = 'a routed request the target answers after its timeout got status 0'
                conn.close()
                _time.sleep(1.0)
                if not bad:
                    conn = client.connector(host='127.0.0.1', port=srv.port, timeout=4.0)
                    for ctx, method, kw in ((b'three', 'write', dict(path='B[0]', data=[333], tag_type=0xc3, elements=1, offset=None)),
                                            (b'four', 'read', dict(path='B[0]', elements=1, offset=None))):
                        rq, rsp = transact(conn, method, sender_context=ctx, **kw)
                        if not rsp or 'enip' not in rsp or rsp.enip.status != 0:
                            bad = '%r: no reply / status %r' % (ctx, rsp and rsp.get('enip.status'))
                            break
                        if client.parse_context(rsp.enip.sender_context.input) != ctx:
                            bad = '%r: reply carries sender context %r' % (ctx, client.parse_context(rsp.enip.sender_context.input))
                            break
                        if inner(rsp).service != (rq.service | 0x80):
                            bad = '%r: request service 0x%02x answered by reply service 0x%02x' % (ctx, rq.service, inner(rsp).service)
                            break
                        if method == 'read' and inner(rsp).get('read_tag.data') != [333]:
                            bad = '%r: read of B[0] returned %r after writing 333' % (ctx, inner(rsp).get('read_tag.data'))
                            break
                    conn.close()
    except Exception as e:
        bad = 'raised %s: %s' % (type(e).__name__, str(e)[:160])
    if bad:
        violations.append(dict(key='gateway: routed read, late routed read, new session routed write + read', observed=bad,
                               required='every forwarded request is answered by its own reply (service | 0x80, its sender context, its data)'))
    return dict(evaluations=ev, distinct_nontrivial=len(distinct), distinct_keys=distinct_keys(distinct),
                rule='(a) seeded operation lists (valid, out-of-range, wrong type mixed) through the real server over TCP: synchronous vs pipelined '
                     'depth 3/10 vs bundled: one result per operation, same order, same statuses/values; (b) hand-encoded SendRRData frames (reference '
                     'encoder written from the layout tables), N requests written before any reply is read: N replies in order, same sender context, '
                     'session handle, service | 0x80; Register Session handle != 0; (c) List Services / Identity / Interfaces / Register each followed by a Read Tag: two replies in order; Unregister: no reply, session ends; (d) unroutable requests get a non-zero encapsulation status; (e) connected sessions: a small (500 byte) and a Large (4000 byte) Forward Open each get the matching reply service, three connected Read Tags each get their reply in order; (f) a routing gateway (UCMM route 1/1 -> a target simulator): routed read, a routed read answered later than its Unconnected Send timeout (non-zero status), then on a new session a routed write and read each answered by its own reply; distinct = distinct (ops, depth, multiple), N, commands',
                exhaustive=False, samples=samples, violations=violations[:20], seed=seed)
