"""C20 — tnetstring serialisation round-trips and the streaming parser agrees with it."""
from .util import distinct_keys
import random

import z3

from pyvc.spec import Spec, Loop, Custom
from pyvc.vals import IntV, BoolV, SeqV, TupV, IntSeq, NONE, ConstV, Unsupported
from pyvc.pure import to_int, fresh

PROPERTY = 'C20'
LEVEL = 'proof'

F = "server/tnetstrings.py"


def framed(eng, name, st):
    """data == digits(n) ++ b':' ++ payload ++ type ++ rest  with len(payload) == n, len(type) == 1"""
    n = z3.Int('_g_n')
    p = z3.Const('_g_payload', IntSeq)
    t = z3.Const('_g_type', IntSeq)
    r = z3.Const('_g_rest', IntSeq)
    d = eng.digits(n)
    st = st.clone()
    st.pc.extend(eng.digit_facts)
    eng.digit_facts = []
    st.pc += [n >= 0, z3.Length(p) == n, z3.Length(t) == 1]
    for nm, v in (('_g_n', IntV(n)), ('_g_payload', SeqV(p, 'bytes')), ('_g_type', SeqV(t, 'bytes')), ('_g_rest', SeqV(r, 'bytes'))):
        eng.init_vals[nm] = v
    return SeqV(z3.Concat(d, z3.Unit(z3.IntVal(58)), p, t, r), 'bytes'), st


def parse_payload_spec():
    return Spec('parse_payload', (F, 'parse_payload'), params={'data': framed},
                ensures=[('framing: the length prefix delimits exactly the payload, one type byte follows, the rest is untouched',
                          'result[0] == _g_payload and result[1] == _g_type and result[2] == _g_rest')],
                raises={}, modifies=[], replay=lambda m, o: replay_tnet(m, o),
                note='for every well-formed frame digits(n):payload,type followed by any further data (T2: decimal text axioms)')




DIG = z3.Function('digits', z3.IntSort(), IntSeq)
UNDIG = z3.Function('undigits', IntSeq, z3.IntSort())
U8E = z3.Function('utf8enc', IntSeq, IntSeq)
U8D = z3.Function('utf8dec', IntSeq, IntSeq)


def dig(pe, x):
    from pyvc.pure import const_of, seq_lit
    t = to_int(x)
    c = const_of(t)
    if c is None and hasattr(pe, 'facts'):
        pe.facts.append(z3.Length(DIG(t)) >= 1)        # T2: decimal text is never empty
    return SeqV(seq_lit([ord(ch) for ch in str(c)]) if c is not None else DIG(t), 'bytes')


FUNCS = {'dig': dig, 'undig': lambda pe, s: IntV(UNDIG(s.t)),
         'utf8': lambda pe, s: SeqV(U8E(s.t), 'bytes'), 'unutf8': lambda pe, s: SeqV(U8D(s.t), 'str'),
         'frame': lambda pe, p, t: SeqV(z3.Concat(dig(pe, IntV(z3.Length(p.t))).t, z3.Unit(z3.IntVal(58)), p.t, t.t), 'bytes')}


def dump_specs():
    mk = lambda name, params, ens, req='True': Spec(
        'dump[%s]' % name, (F, 'dump'), params=params, requires=req, ensures=ens + [('at least three bytes', 'len(result) >= 3')], raises={}, modifies=[], replay=lambda m, o: replay_tnet(m, o),
        hints=dict(funcs=FUNCS), note='one contract per scalar value type; containers by dump_list/dump_dict')
    return [
        mk('int', {'data': 'Int'}, [('layout', "result == frame(dig(data), b'#')")]),
        mk('bool', {'data': 'Bool'}, [('layout', "result == (b'4:true!' if data else b'5:false!')")]),
        mk('null', {'data': 'None'}, [('layout', "result == b'0:~'")]),
        mk('bytes', {'data': 'Bytes'}, [('layout', "result == frame(data, b',')")]),
        mk('text', {'data': 'Str'}, [('layout', "result == frame(utf8(data), b'$')")]),
    ]


def payload_callee():
    return Spec('parse_payload', (F, 'parse_payload'), params={'data': 'Bytes'},
                requires="data == dig(_g_n) + b':' + _g_payload + _g_type + _g_rest and len(_g_payload) == _g_n and len(_g_type) == 1 and _g_n >= 0",
                ensures=['result[0] == _g_payload and result[1] == _g_type and result[2] == _g_rest'],
                returns=('Tuple', ['Bytes', 'Bytes', 'Bytes']), hints=dict(funcs=FUNCS))


def parse_spec():
    return Spec('parse[scalars]', (F, 'parse'), params={'data': framed},
                requires="_g_type[0] in (35, 33, 126, 44, 36) and implies(_g_type[0] == 126, _g_n == 0)",
                ensures=[('rest: exactly one message is consumed', 'result[1] == _g_rest'),
                         ('int', "implies(_g_type == b'#', result[0] == undig(_g_payload))"),
                         ('bool', "implies(_g_type == b'!', result[0] == (_g_payload == b'true'))"),
                         ('null', "implies(_g_type == b'~', result[0] is None)"),
                         ('bytes', "implies(_g_type == b',', result[0] == _g_payload)"),
                         ('text', "implies(_g_type == b'$', result[0] == unutf8(_g_payload))")],
                raises={}, modifies=[], callees={'parse_payload': payload_callee()}, replay=lambda m, o: replay_tnet(m, o),
                hints=dict(funcs=FUNCS, int_text=None),
                note='scalar payload types # ! ~ , $ ; float (^) is not modelled; } and ] by parse_dict/parse_list')


# ------------------------------------------------------------------------------------------------ the streaming parser's payload conversion
class CellV(object):
    """the data artifact of the state machine, as the one entry tnet_parser.process stores: the value last assigned (or nothing yet)"""
    def __init__(self, val):
        self.val = val

    def __repr__(self):
        return 'CellV(%r)' % (self.val,)


def frag_process_dispatch(eng, fdef):
    """the type dispatch of tnet_parser.process: its last statement, an if / elif chain over tntype"""
    import ast
    last = fdef.body[-1]
    if not (isinstance(last, ast.If) and 'tntype' in ast.unparse(last.test)):
        raise Unsupported('stale contract: tnet_parser.process does not end with the dispatch over tntype')
    return [last]


def cell_local(eng, name, st):
    st, ref = eng.new_list(st, CellV(None))
    return ref, st


def cell_set_item(eng, b, cur, i, v, st, line):
    if not isinstance(cur, CellV):
        return None
    s = st.clone()
    s.heap[(b.id, 'val')] = CellV(v)
    return [(s, None)]


def replay_process(model, obligation):
    from cpppo.server import tnetstrings
    for v in (u'x', u'\ufeffx', u'\xe9\u20ac', u'', b'', b'abc', b'\xef\xbb\xbfx', 0, 12345, None):
        enc = tnetstrings.dump(v)
        term, got, sent, data = run_machine([enc + b'3:abc,'])
        if not (term and same(got, v) and sent == len(enc)):
            return dict(confirmed=True, function='cpppo.server.tnet.tnet_machine (tnet_parser.process)', input=repr(enc), observed='terminal=%r value=%r sent=%r' % (term, got, sent),
                        required='%r, as tnetstrings.parse gives it' % (v,))
    return dict(confirmed=False)


def stream_state(repo):
    """tnet_from keeps the state of one stream (its receive buffer, its parser data) in objects made per call: no default argument is an object built
    once at definition time.  Decided on the AST."""
    from . import frames
    mod, cls, fdef = repo.find_function('server/tnet.py', 'tnet_from')
    shared = frames.shared_defaults(fdef)
    v = z3.Int('defaults_built_once')
    return [('tnet_from has no default argument built once and shared between streams', [v == len(shared)], v == 0)]


def replay_stream_state(model, obligation):
    from cpppo.server import tnetstrings
    first = tnetstrings.dump(b'ab') + b'\n' + tnetstrings.dump(b'cd') + b'\n' + tnetstrings.dump(7) + b'\n'
    got1 = tnet_from_stream([first], take=1)
    got2 = tnet_from_stream([tnetstrings.dump(333) + b'\n'], drop_none=True)
    if got2 != [333]:
        return dict(confirmed=True, function='cpppo.server.tnet.tnet_from', input='a stream abandoned after one of three messages, then a new stream sending 3:333#',
                    observed='the new stream yields %r' % (got2,), required='[333]')
    return dict(confirmed=False)


def process_spec():
    def stored(pe, d):
        from pyvc.vals import RefV
        cur = pe.st.heap[(d.id, 'val')] if isinstance(d, RefV) and hasattr(pe, 'st') else d
        if not isinstance(cur, CellV):
            raise Unsupported('the data artifact is %r' % (cur,))
        if cur.val is None:
            from pyvc.vals import ConstV
            return ConstV('<nothing stored>')
        return cur.val
    funcs = dict(FUNCS, stored=stored)
    return Spec('tnet_parser.process[payload conversion]', ('server/tnet.py', 'tnet_machine.tnet_parser.process'), params={}, fragment=frag_process_dispatch,
                hints=dict(locals={'tntype': 'Int', 'src': 'Bytes', 'ours': 'Str', 'data': cell_local}, funcs=funcs, set_item=cell_set_item, int_text=None),
                requires='tntype in (44, 36, 126) and implies(tntype == 126, len(src) == 0)',
                ensures=[('bytes: the payload as it is', 'implies(tntype == 44, stored(_f_data) == src)'),
                         ('text: the payload decoded as tnetstrings.parse decodes it (utf-8)', 'implies(tntype == 36, stored(_f_data) == unutf8(src))'),
                         ('null', 'implies(tntype == 126, stored(_f_data) is None)')],
                raises={}, modifies=['data'], replay=replay_process,
                note='FRAGMENT (T9): the if / elif chain of tnet_parser.process for the types , $ ~ (the # branch converts with int(), bounded tier only); the data artifact is one cell; '
                     'utf-8 decoding is the same uninterpreted function as in the contract of tnetstrings.parse')


# ------------------------------------------------------------------------------------------------ containers: the induction step for lists
# Values are abstract ids (Int).  enc(v) is *the function computed by dump* on the value v (dump is deterministic: T).  The ghost list is
# (_g_len, _g_A): its elements are the ids _g_A[0.._g_len).  cat(k) is the concatenation of enc(_g_A[j]) for j in [k, _g_len).
GA = z3.Const('_g_A', z3.ArraySort(z3.IntSort(), z3.IntSort()))
GLEN = z3.Int('_g_len')
ENC = z3.Function('enc', z3.IntSort(), IntSeq)
CATG = z3.Function('cat', z3.IntSort(), IntSeq)


def cat_facts():
    """unfolding axioms of cat with triggers that do not feed themselves (cat(k) alone as the trigger of the unfolding is a matching loop:
    each instance creates cat(k+1)); the length fact (3) is the consequence of (1) and |enc(v)| >= 3 and is checked as lemma[cat length]"""
    k, v = z3.Int('k!cat'), z3.Int('v!enc')
    return [GLEN >= 0,
            z3.ForAll([k], z3.Implies(z3.And(0 <= k, k < GLEN), CATG(k) == z3.Concat(ENC(GA[k]), CATG(k + 1))),
                      patterns=[z3.MultiPattern(CATG(k), ENC(GA[k]))]),
            z3.ForAll([k], z3.Implies(k >= GLEN, CATG(k) == z3.Empty(IntSeq)), patterns=[CATG(k)]),
            z3.ForAll([k], z3.Implies(z3.And(0 <= k, k < GLEN), z3.Length(CATG(k)) >= 3), patterns=[CATG(k)]),
            # every dump output is at least `0:~` long: obligation `post[at least three bytes]` of every dump contract
            z3.ForAll([v], z3.Length(ENC(v)) >= 3, patterns=[ENC(v)])]


def cat_lemmas(repo):
    k = z3.Int('k0')
    return [('cat length: a non-exhausted tail holds at least one encoding',
             [0 <= k, k < GLEN, CATG(k) == z3.Concat(ENC(GA[k]), CATG(k + 1)), z3.Length(ENC(GA[k])) >= 3], z3.Length(CATG(k)) >= 3)]


LIST_FUNCS = dict(FUNCS, cat=lambda pe, k: SeqV(CATG(to_int(k)), 'bytes'), A=lambda pe, j: IntV(GA[to_int(j)]),
                  enc=lambda pe, v: SeqV(ENC(to_int(v)), 'bytes'))


def ghost_list(eng, name, st):
    from pyvc.vals import ListV
    st = st.clone()
    st.pc += cat_facts()
    eng.init_vals['_g_len'] = IntV(GLEN)
    return ListV(GLEN, lambda i: IntV(GA[i if z3.is_expr(i) else z3.IntVal(i)]), tag='flist'), st


def ghost_cat(eng, name, st):
    st = st.clone()
    st.pc += cat_facts()
    eng.init_vals['_g_len'] = IntV(GLEN)
    return SeqV(CATG(z3.IntVal(0)), 'bytes'), st


def dump_is_enc(eng, recv, args, kw, st, n):
    """dump(v) IS enc(v): enc names the function dump computes (T: dump is a deterministic function of the value; it does not raise on a
    value of the supported types - obligation `raises` of every dump contract)."""
    yield st, SeqV(ENC(to_int(args[0])), 'bytes')


def join_enc(eng, sep, items, st, n):
    """b''.join(enc(x) for x in ghost list) == cat(0): recognised structurally, element k of the mapped list must be enc(_g_A[k])"""
    from pyvc.vals import ListV
    k = z3.Int('k!join')
    empty = (isinstance(sep, ConstV) and sep.py in (b'', '')) or (isinstance(sep, SeqV) and z3.is_true(z3.simplify(z3.Length(sep.t) == 0)))
    if not empty:
        raise Unsupported('join with a separator')
    if isinstance(items, ListV) and z3.simplify(items.n).eq(z3.simplify(GLEN)):
        e = items.get(k)
        if isinstance(e, SeqV) and z3.simplify(e.t).eq(z3.simplify(ENC(GA[k]))):
            yield st, SeqV(CATG(z3.IntVal(0)), 'bytes')
            return
    raise Unsupported('join of %r' % (items,))


def parse_ih(eng, recv, args, kw, st, n):
    """INDUCTION HYPOTHESIS for the elements (values of smaller depth): for every v and every r, parse(enc(v) ++ r) returns (v, r) and does
    not raise.  Instance at this call site: v = _g_A[len(result)], r = cat(len(result) + 1); that the argument has this form is the
    obligation pre[parse IH @ line]."""
    extra = args[0]
    res = eng.deref_list(st.loc['result'], st)
    i = z3.Length(res.t) if isinstance(res, SeqV) else z3.IntVal(len(res.items))
    v, r = GA[i], CATG(i + 1)
    line = getattr(n, 'lineno', None)
    eng.add_oblig('pre[parse IH @ line %s]' % line, 'pre', st, z3.And(i < GLEN, extra.t == z3.Concat(ENC(v), r)), line=line)
    yield st, TupV([IntV(v), SeqV(r, 'bytes')])


def list_specs():
    dl = Spec('dump_list', (F, 'dump_list'), params={'data': ghost_list, 'encoding': 'None'},
              ensures=[('layout: the element encodings in order, framed', "result == frame(cat(0), b']')"),
                       ('at least three bytes', 'len(result) >= 3')],
              raises={}, modifies=[], callees={'dump': dump_is_enc}, hints=dict(funcs=LIST_FUNCS, join=join_enc), replay=lambda m, o: replay_tnet(m, o),
              note='for every list length and all element values')
    pl = Spec('parse_list', (F, 'parse_list'), params={'data': ghost_cat, 'encoding': 'None'},
              ensures=[('the elements in order, nothing else', 'len(result) == _g_len and forall(0, _g_len, lambda j: result[j] == A(j))')],
              raises={}, modifies=[], callees={'parse': parse_ih}, replay=lambda m, o: replay_tnet(m, o),
              loops={0: Loop(invariant=[('progress', '0 <= len(result) <= _g_len and extra == cat(len(result))'),
                                        ('prefix', 'forall(0, len(result), lambda j: result[j] == A(j))')],
                             variant='_g_len - len(result)')},
              hints=dict(funcs=LIST_FUNCS),
              note='induction step: given the hypothesis for the elements, the concatenation of their encodings parses to exactly the list; terminates')
    return [dl, pl, parse_list_dispatch_spec(), Custom('cat', cat_lemmas, note='the derived length fact used as a trigger-safe axiom')]


def framed_list(eng, name, st):
    """data == dump_list(ghost list) ++ rest == digits(|cat(0)|) ++ b':' ++ cat(0) ++ b']' ++ rest (the layout proved for dump_list)"""
    st = st.clone()
    st.pc += cat_facts()
    p = CATG(z3.IntVal(0))
    n = z3.Length(p)
    r = z3.Const('_g_rest', IntSeq)
    t = z3.Unit(z3.IntVal(ord(']')))
    d = eng.digits(n)
    st.pc.extend(eng.digit_facts)
    eng.digit_facts = []
    for nm, v in (('_g_n', IntV(n)), ('_g_payload', SeqV(p, 'bytes')), ('_g_type', SeqV(t, 'bytes')), ('_g_rest', SeqV(r, 'bytes')), ('_g_len', IntV(GLEN))):
        eng.init_vals[nm] = v
    return SeqV(z3.Concat(d, z3.Unit(z3.IntVal(58)), p, t, r), 'bytes'), st


def parse_list_callee():
    return Spec('parse_list', (F, 'parse_list'), params={'data': 'Bytes', 'encoding': 'Opaque'},
                requires='data == cat(0)', ensures=['len(result) == _g_len and forall(0, _g_len, lambda j: result[j] == A(j))'],
                returns='IntList', hints=dict(funcs=LIST_FUNCS))


def parse_list_dispatch_spec():
    return Spec('parse[list]', (F, 'parse'), params={'data': framed_list},
                ensures=[('rest: exactly one message is consumed', 'result[1] == _g_rest'),
                         ('the list parses back to its elements in order', 'len(result[0]) == _g_len and forall(0, _g_len, lambda j: result[0][j] == A(j))')],
                raises={}, modifies=[], callees={'parse_payload': payload_callee(), 'parse_list': parse_list_callee()},
                replay=lambda m, o: replay_tnet(m, o), hints=dict(funcs=LIST_FUNCS),
                note='parse(dump_list(L) ++ rest) == (L, rest): composition of the dump_list layout, the framing lemma and the parse_list induction step')


# ------------------------------------------------------------------------------------------------ containers: the induction step for dictionaries
# The ghost dictionary has _g_len items in iteration order: item k has the (text) key KEY(k) and the value id _g_A[k].
# dcat(k) = concatenation over j in [k, _g_len) of  frame(KEY(j), b',') ++ enc(_g_A[j])
KEY = z3.Function('key', z3.IntSort(), IntSeq)
DCAT = z3.Function('dcat', z3.IntSort(), IntSeq)
COMMA, COLON = z3.Unit(z3.IntVal(ord(','))), z3.Unit(z3.IntVal(ord(':')))


def kframe(k):
    return z3.Concat(DIG(z3.Length(KEY(k))), COLON, KEY(k), COMMA)


def dcat_facts():
    k, v, a, b, j = z3.Int('k!dcat'), z3.Int('v!enc'), z3.Int('a!key'), z3.Int('b!key'), z3.Int('j!key')
    return [GLEN >= 0,
            z3.ForAll([k], z3.Implies(z3.And(0 <= k, k < GLEN), DCAT(k) == z3.Concat(kframe(k), ENC(GA[k]), DCAT(k + 1))),
                      patterns=[z3.MultiPattern(DCAT(k), ENC(GA[k]))]),
            z3.ForAll([k], z3.Implies(k >= GLEN, DCAT(k) == z3.Empty(IntSeq)), patterns=[DCAT(k)]),
            z3.ForAll([k], z3.Implies(z3.And(0 <= k, k < GLEN), z3.Length(DCAT(k)) >= 6), patterns=[DCAT(k)]),
            z3.ForAll([v], z3.Length(ENC(v)) >= 3, patterns=[ENC(v)]),
            # domain of the property: the keys of a dictionary are pairwise distinct, and 7-bit text (dump_dict encodes them as ascii)
            z3.ForAll([a, b], z3.Implies(z3.And(0 <= a, a < b, b < GLEN), KEY(a) != KEY(b)), patterns=[z3.MultiPattern(KEY(a), KEY(b))]),
            z3.ForAll([k, j], z3.Implies(z3.And(0 <= k, k < GLEN, 0 <= j, j < z3.Length(KEY(k))), z3.And(KEY(k)[j] >= 0, KEY(k)[j] < 128)),
                      patterns=[KEY(k)[j]])]


def dcat_lemmas(repo):
    k = z3.Int('k0')
    return [('dcat length: a non-exhausted tail holds at least one key frame and one encoding',
             [0 <= k, k < GLEN, DCAT(k) == z3.Concat(kframe(k), ENC(GA[k]), DCAT(k + 1)), z3.Length(ENC(GA[k])) >= 3, z3.Length(DIG(z3.Length(KEY(k)))) >= 1],
             z3.Length(DCAT(k)) >= 6)]


class JoinListV(object):
    """a list of byte strings that is only appended to and joined: (number of elements, their concatenation) - exact for these two operations"""
    def __init__(self, n, flat):
        self.n, self.flat = n, flat

    def __repr__(self):
        return 'JoinListV(%s)' % self.n


class MapV(object):
    """a dict keyed by text: domain and value arrays over key sequences, and the (ghost) number of item assignments performed"""
    def __init__(self, dom, val, cnt):
        self.dom, self.val, self.cnt = dom, val, cnt

    def __repr__(self):
        return 'MapV(%s)' % self.cnt


DomSort = z3.ArraySort(IntSeq, z3.BoolSort())
ValSort = z3.ArraySort(IntSeq, z3.IntSort())


def _deref(pe, x):
    from pyvc.vals import RefV
    if isinstance(x, RefV) and x.kind == 'list' and hasattr(pe, 'st'):
        return pe.st.heap[(x.id, 'val')]
    return x


def flat_of(pe, x):
    from pyvc.vals import PyListV
    x = _deref(pe, x)
    if isinstance(x, JoinListV):
        return SeqV(x.flat, 'bytes')
    if isinstance(x, PyListV) and all(isinstance(i, SeqV) for i in x.items):
        return SeqV(z3.Concat(*[i.t for i in x.items]) if len(x.items) > 1 else (x.items[0].t if x.items else z3.Empty(IntSeq)), 'bytes')
    if isinstance(x, SeqV):
        return SeqV(z3.Empty(IntSeq), 'bytes') if z3.is_true(z3.simplify(z3.Length(x.t) == 0)) else x
    raise Unsupported('flat() of %r' % (x,))


DICT_FUNCS = dict(LIST_FUNCS, dcat=lambda pe, k: SeqV(DCAT(to_int(k)), 'bytes'), key=lambda pe, k: SeqV(KEY(to_int(k)), 'str'),
                  flat=flat_of,
                  mcount=lambda pe, m: IntV(_deref(pe, m).cnt),
                  mhas=lambda pe, m, k: BoolV(z3.Select(_deref(pe, m).dom, k.t)),
                  mget=lambda pe, m, k: IntV(z3.Select(_deref(pe, m).val, k.t)))


class GhostDict(object):
    def __repr__(self):
        return '<ghost dict>'


def ghost_dict(eng, name, st):
    st = st.clone()
    st.pc += dcat_facts()
    eng.init_vals['_g_len'] = IntV(GLEN)
    return ConstV(GhostDict()), st


def dict_methods(eng, recv, name, args, kw, st, n):
    from pyvc.vals import ListV
    if isinstance(recv, ConstV) and isinstance(recv.py, GhostDict) and name == 'items' and not args:
        def gen():
            ix = lambda i: i if z3.is_expr(i) else z3.IntVal(i)
            yield st, ListV(GLEN, lambda i: TupV([SeqV(KEY(ix(i)), 'str'), IntV(GA[ix(i)])]), tag='items')
        return gen()
    return None


def dump_in_dict(eng, recv, args, kw, st, n):
    """the two dump() calls of dump_dict: on a byte string, the PROVED contract dump[bytes] (result == frame(data, b',')); on an element value
    id, dump(v) IS enc(v) (enc names the function dump computes)"""
    a = args[0]
    if isinstance(a, SeqV) and a.kind == 'bytes':
        yield st, SeqV(z3.Concat(DIG(z3.Length(a.t)), COLON, a.t, COMMA), 'bytes')
    else:
        yield st, SeqV(ENC(to_int(a)), 'bytes')


def joinlist_havoc(eng, v, name):
    if name == 'result':
        n, f = fresh('result.n'), fresh('result.flat', IntSeq)
        eng.pending_facts.append(n >= 0)
        return JoinListV(n, f)
    return None


def joinlist_append(eng, ref, cur, x, st, n, store):
    if isinstance(cur, JoinListV) and isinstance(x, SeqV):
        yield store(st, JoinListV(cur.n + 1, z3.Concat(cur.flat, x.t))), NONE
        return
    raise Unsupported('append of %r to %r' % (x, cur))


def joinlist_join(eng, sep, items, st, n):
    empty = (isinstance(sep, ConstV) and sep.py in (b'', '')) or (isinstance(sep, SeqV) and z3.is_true(z3.simplify(z3.Length(sep.t) == 0)))
    if not empty:
        raise Unsupported('join with a separator')
    yield st, flat_of(type('PE', (), {'st': st})(), items)


def map_empty(eng, st):
    return eng.new_list(st, MapV(z3.K(IntSeq, z3.BoolVal(False)), z3.K(IntSeq, z3.IntVal(0)), z3.IntVal(0)))


def map_havoc(eng, v, name):
    if isinstance(v, MapV):
        c = fresh(name + '.cnt')
        eng.pending_facts.append(c >= 0)
        return MapV(fresh(name + '.dom', DomSort), fresh(name + '.val', ValSort), c)
    return None


def map_set_item(eng, b, cur, i, v, st, line):
    if not isinstance(cur, MapV):
        return None
    if not (isinstance(i, SeqV) and i.kind == 'str'):
        raise Unsupported('dict key %r' % (i,))
    s = st.clone()
    s.heap[(b.id, 'val')] = MapV(z3.Store(cur.dom, i.t, z3.BoolVal(True)), z3.Store(cur.val, i.t, to_int(v)), cur.cnt + 1)
    return [(s, None)]


def parse_in_dict(eng, recv, args, kw, st, n):
    """the two parse() calls of parse_dict, distinguished by the `encoding=` keyword only the second one passes.
    key:   the PROVED contract parse[scalars] for type `,`: parse(frame(p, b',') ++ r) == (p, r)
    value: the INDUCTION HYPOTHESIS: parse(enc(v) ++ r) == (v, r) for the element value v
    Instance at each call: item i = number of items stored so far; that the argument has the required form is the obligation pre[...]."""
    extra = args[0]
    m = eng.deref_list(st.loc['result'], st)
    i = m.cnt
    line = getattr(n, 'lineno', None)
    tail = z3.Concat(ENC(GA[i]), DCAT(i + 1))
    if 'encoding' not in kw:
        eng.add_oblig('pre[parse of the key frame @ line %s]' % line, 'pre', st, z3.And(i < GLEN, extra.t == z3.Concat(kframe(i), tail)), line=line)
        yield st, TupV([SeqV(KEY(i), 'bytes'), SeqV(tail, 'bytes')])
    else:
        eng.add_oblig('pre[parse IH @ line %s]' % line, 'pre', st, z3.And(i < GLEN, extra.t == tail), line=line)
        yield st, TupV([IntV(GA[i]), SeqV(DCAT(i + 1), 'bytes')])


DICT_POST = ('mcount(result) == _g_len and forall(0, _g_len, lambda j: mhas(result, key(j)) and mget(result, key(j)) == A(j))')


def dict_specs():
    dd = Spec('dump_dict', (F, 'dump_dict'), params={'data': ghost_dict, 'encoding': 'None'},
              ensures=[('layout: key frame and value encoding of every item in order, framed', "result == frame(dcat(0), b'}')"),
                       ('at least three bytes', 'len(result) >= 3')],
              raises={}, modifies=[], callees={'dump': dump_in_dict}, replay=lambda m, o: replay_tnet(m, o),
              loops={0: Loop(index='K', invariant=[('the items so far, then the rest, make up the whole', 'flat(result) + dcat(K) == dcat(0)')])},
              hints=dict(funcs=DICT_FUNCS, value_method=dict_methods, havoc_value=joinlist_havoc, list_append=joinlist_append, join=joinlist_join),
              note='for every number of items, all 7-bit text keys and all element values')
    pd = Spec('parse_dict', (F, 'parse_dict'), params={'data': lambda eng, name, st: (SeqV(DCAT(z3.IntVal(0)), 'bytes'), ghost_dict(eng, name, st)[1]),
                                                      'encoding': 'None'},
              ensures=[('every item is stored under its key', DICT_POST),
                       ('nothing else is stored', 'forall_text(lambda s: implies(mhas(result, s), exists(0, _g_len, lambda j: s == key(j))))')],
              raises={}, modifies=[], callees={'parse': parse_in_dict}, replay=lambda m, o: replay_tnet(m, o),
              loops={0: Loop(invariant=[('progress', '0 <= mcount(result) <= _g_len and extra == dcat(mcount(result))'),
                                        ('items so far', 'forall(0, mcount(result), lambda j: mhas(result, key(j)) and mget(result, key(j)) == A(j))'),
                                        ('nothing else', 'forall_text(lambda s: implies(mhas(result, s), exists(0, mcount(result), lambda j: s == key(j))))')],
                             variant='_g_len - mcount(result)')},
              hints=dict(funcs=DICT_FUNCS, empty_dict=map_empty, havoc_value=map_havoc, set_item=map_set_item),
              note='induction step for dictionaries: given the hypothesis for the values, the item encodings parse to exactly the dictionary; terminates')
    return [dd, pd, parse_dict_dispatch_spec(), Custom('dcat', dcat_lemmas, note='the derived length fact used as a trigger-safe axiom')]


def framed_dict(eng, name, st):
    """data == dump_dict(ghost dict) ++ rest == digits(|dcat(0)|) ++ b':' ++ dcat(0) ++ b'}' ++ rest (the layout proved for dump_dict)"""
    st = st.clone()
    st.pc += dcat_facts()
    p = DCAT(z3.IntVal(0))
    n = z3.Length(p)
    r = z3.Const('_g_rest', IntSeq)
    t = z3.Unit(z3.IntVal(ord('}')))
    d = eng.digits(n)
    st.pc.extend(eng.digit_facts)
    eng.digit_facts = []
    for nm, v in (('_g_n', IntV(n)), ('_g_payload', SeqV(p, 'bytes')), ('_g_type', SeqV(t, 'bytes')), ('_g_rest', SeqV(r, 'bytes')), ('_g_len', IntV(GLEN))):
        eng.init_vals[nm] = v
    return SeqV(z3.Concat(d, z3.Unit(z3.IntVal(58)), p, t, r), 'bytes'), st


def map_result(eng, name, st):
    c = fresh(name + '.cnt')
    st = st.clone()
    st.pc.append(c >= 0)
    return MapV(fresh(name + '.dom', DomSort), fresh(name + '.val', ValSort), c), st


def parse_dict_callee():
    return Spec('parse_dict', (F, 'parse_dict'), params={'data': 'Bytes', 'encoding': 'Opaque'},
                requires='data == dcat(0)',
                ensures=[DICT_POST, 'forall_text(lambda s: implies(mhas(result, s), exists(0, _g_len, lambda j: s == key(j))))'],
                returns=map_result, hints=dict(funcs=DICT_FUNCS))


def parse_dict_dispatch_spec():
    return Spec('parse[dict]', (F, 'parse'), params={'data': framed_dict},
                ensures=[('rest: exactly one message is consumed', 'result[1] == _g_rest'),
                         ('the dictionary parses back to its items', DICT_POST.replace('result', 'result[0]')),
                         ('and nothing else', 'forall_text(lambda s: implies(mhas(result[0], s), exists(0, _g_len, lambda j: s == key(j))))')],
                raises={}, modifies=[], callees={'parse_payload': payload_callee(), 'parse_dict': parse_dict_callee()},
                replay=lambda m, o: replay_tnet(m, o), hints=dict(funcs=DICT_FUNCS),
                note='parse(dump_dict(D) ++ rest) == (D, rest): composition of the dump_dict layout, the framing lemma and the parse_dict induction step')


def dump_dispatch_specs():
    dl = Spec('dump_list', (F, 'dump_list'), params={'data': 'Opaque', 'encoding': 'Opaque'}, ensures=["result == frame(cat(0), b']')"],
              returns='Bytes', hints=dict(funcs=LIST_FUNCS))
    dd = Spec('dump_dict', (F, 'dump_dict'), params={'data': 'Opaque', 'encoding': 'Opaque'}, ensures=["result == frame(dcat(0), b'}')"],
              returns='Bytes', hints=dict(funcs=DICT_FUNCS))
    return [Spec('dump[list]', (F, 'dump'), params={'data': ghost_list}, ensures=[('layout', "result == frame(cat(0), b']')"), ('at least three bytes', 'len(result) >= 3')],
                 raises={}, modifies=[], callees={'dump_list': dl}, replay=lambda m, o: replay_tnet(m, o), hints=dict(funcs=LIST_FUNCS, type_of=ghost_type),
                 note='dump of a list is dump_list of it (dispatch on the exact type)'),
            Spec('dump[dict]', (F, 'dump'), params={'data': ghost_dict}, ensures=[('layout', "result == frame(dcat(0), b'}')"), ('at least three bytes', 'len(result) >= 3')],
                 raises={}, modifies=[], callees={'dump_dict': dd}, replay=lambda m, o: replay_tnet(m, o), hints=dict(funcs=DICT_FUNCS, type_of=ghost_type),
                 note='dump of a dict is dump_dict of it')]


def ghost_type(eng, v):
    from pyvc.vals import ListV
    if isinstance(v, ConstV) and isinstance(v.py, GhostDict):
        return 'dict'
    if isinstance(v, ListV) and v.tag == 'flist':
        return 'list'
    return None


def roundtrip(repo):
    """parse(dump(v) ++ rest) == (v, rest): composition of the two contracts above (T2 inverse axioms)"""
    out = []
    v = z3.Int('v')
    rest = z3.Const('rest', IntSeq)
    d = DIG(v)
    j = z3.Int('dj')
    T2 = [z3.Length(d) >= 1, UNDIG(d) == v]
    # int: dump gives frame(dig(v), '#'); parse of a frame with type '#' gives undig(payload)
    out.append(('int: parse(dump(v) ++ rest) == (v, rest)', T2, UNDIG(d) == v))
    s = z3.Const('s', IntSeq)
    out.append(('text: decode(encode(s)) == s', [U8D(U8E(s)) == s], U8D(U8E(s)) == s))
    b = z3.Bool('b')
    tr, fa = [z3.Concat(*[z3.Unit(z3.IntVal(c)) for c in w]) for w in (b'true', b'false')]
    out.append(('bool: the payload of dump(b) equals b"true" exactly when b', [], z3.If(b, tr, fa) == tr) if False else
               ('bool: the payload of dump(b) equals b"true" exactly when b', [], (z3.If(b, tr, fa) == tr) == b))
    return out


def contracts(repo):
    return [parse_payload_spec()] + dump_specs() + list_specs() + dict_specs() + dump_dispatch_specs() + [parse_spec(), process_spec(), __import__('contracts.C02', fromlist=['recv_spec']).recv_spec(), Custom('stream_state', stream_state, replay=replay_stream_state, targets=[('server/tnet.py', 'tnet_from')], note='AST-decided: no default argument of tnet_from is an object built once'), Custom('roundtrip', roundtrip, note='composition lemmas')]


LEVEL_TEXT = ('Deductive proof on the real server/tnetstrings.py. Scalars: parse_payload extracts exactly payload, type byte and rest from '
              'every well-formed frame followed by arbitrary data (framing lemma, decided by cvc5), dump() of int/bool/None/bytes/text has exactly '
              'the layout len:payload,type with the length prefix equal to the payload length, parse() of such a frame returns the value and the '
              'untouched rest; composed with the decimal-text and utf-8 inverse axioms this is the round trip. Containers: the induction STEP is proved '
              'on the real dump_list / parse_list / dump_dict / parse_dict and the list/dict branches of dump and parse, for every number of elements: '
              'given the round-trip hypothesis for the element values (the contract assumed at the recursive parse() calls, each instance premise an '
              'obligation), the layout of the container is the framed concatenation of the element encodings in order, and parsing it returns exactly '
              'the elements in order / exactly the items under their keys, consumes the whole payload and terminates (variant). The streaming tnet_machine '
              'under all chunkings, floats, and concrete nested values are compared only up to a bound (not counted).')
LEVEL_NOTE = ('T2 axioms: str(n)/"%d"%n/int(text) are inverse and decimal text contains only digits and a leading minus; utf-8 encode/decode inverse. '
              'Structural induction over finite values (the step from "holds for all element values" to "holds for the container", proved here, to '
              '"holds for every finite nesting depth") is the meta-level argument and is not mechanised. enc(v) names the function dump computes '
              '(dump is deterministic). Dictionary keys: pairwise distinct 7-bit text. float is bounded-only; tnet_machine runs through the DFA interpreter (bounded).')
TECHNIQUE = ('contracts on tnetstrings.parse_payload / dump / parse (scalars and container dispatch) and loop invariants on dump_dict / parse_list / parse_dict '
             'with ghost lists and unfolding axioms (induction step for containers), VCs from the real AST, z3 + cvc5; bounded round trips incl. nested '
             'containers and the streaming machine under all two-way chunkings')
TRUSTED = ['T2 decimal-text axioms (digits/undigits) and utf-8 inverse pair',
           'structural induction over finite nested values (meta-level): base cases = scalar contracts, step = container contracts',
           'dump is a deterministic function of the value (enc), parse of the value it returns is compared by identity of the abstract element id']
ASSUMPTIONS = ['float payloads and the streaming state machine are only in the bounded tier (of the streaming parser the payload conversion tnet_parser.process for the types , $ ~ is under contract)', 'decode with a codec other than utf-8 / latin-1 / ascii: an uninterpreted function per canonical codec name', 'dictionary keys are pairwise distinct 7-bit text (dump_dict encodes keys as ascii)']


def values(rng, depth=0):
    scal = [0, 1, -1, 10, 255, 2 ** 40, -(2 ** 70), True, False, None, b'', b':', b'3:abc,', b'0:~', b'12', b'a:b,c#', u'', u'x', u'\xe9€\U0001f600',
            u'5:', u'\ufeffbom', 1.5, -0.25, 1e300, 0.1,
            # doubles whose shortest exact text needs 17 significant digits, the largest and the smallest double, seeded ones
            0.1 + 0.2, 1.0 / 3.0, 2 ** 0.5, 1.7976931348623157e+308, 5e-324, 123456789.12345679, rng.random(), rng.uniform(-1e20, 1e20), rng.uniform(-1e-9, 1e-9)]
    v = rng.choice(scal)
    if depth < 3 and rng.random() < 0.4:
        k = rng.choice([0, 1, 2, 5])
        if rng.random() < 0.5:
            return [values(rng, depth + 1) for _ in range(k)]
        return dict(('k%d' % i, values(rng, depth + 1)) for i in range(k))
    return v


def same(a, b):
    if type(a) is not type(b) and not (isinstance(a, (list, tuple)) and isinstance(b, (list, tuple))):
        return False
    if isinstance(a, (list, tuple)):
        return len(a) == len(b) and all(same(x, y) for x, y in zip(a, b))
    if isinstance(a, dict):
        return set(a) == set(b) and all(same(a[k], b[k]) for k in a)
    return a == b


def run_machine(chunks, tail_after=True):
    """feed the real tnet_machine chunk by chunk exactly like tnet_from: chain a block whenever the machine
    yields (machine, None) with nothing to peek"""
    import cpppo
    from cpppo.server import tnet
    data = cpppo.dotdict()
    source = cpppo.chainable()
    pending = list(chunks)
    with tnet.tnet_machine() as mach:
        eng = mach.run(source=source, data=data, path='t')
        guard = 0
        for m, s in eng:
            guard += 1
            if guard > 100000:
                raise RuntimeError('machine does not terminate')
            if s is None and source.peek() is None:
                if not pending:
                    break
                source.chain(pending.pop(0))
        term = mach.terminal
    return term, data.get('t.tnet.type.input'), source.sent, data


def bounded(tier, seed):
    import cpppo
    from cpppo.server import tnetstrings
    rng = random.Random(seed)
    ev = 0
    distinct = set()
    violations = []
    samples = []
    n = 400 if tier == 'quick' else 6000
    for i in range(n):
        if len(violations) >= 5:
            break
        v = values(rng)
        rest = rng.choice([b'', b'0:~', b'xyz', b'5:', b':'])
        ev += 1
        try:
            enc = tnetstrings.dump(v)
            got, rem = tnetstrings.parse(enc + rest, encoding='utf-8')
            ok = same(got, v) and rem == rest
            obs = repr((got, rem))
        except Exception as e:
            ok, obs = False, 'raised %s: %s' % (type(e).__name__, e)
        distinct.add(repr(v)[:60])
        if len(samples) < 5 and isinstance(v, (list, dict)) and v:
            samples.append(dict(value=repr(v)[:100], encoded=repr(enc)[:100]))
        if not ok:
            violations.append(dict(key='roundtrip %r + %r' % (v, rest), observed=obs[:300], required='the value (same types) and the untouched rest'))
    # streaming machine: supported types # , $ ~ ; every two-way split, byte at a time; following data untouched
    svals = [0, 7, 12345678901234567890, b'', b'abc', b'1:x,', b':::', b'9', u'x', u'\xe9€', None, b'a' * 40,
             # text whose first / only / inner characters are ones a codec may treat specially (signature, NUL, non-BMP, line and paragraph separators)
             u'\ufeffx', u'\ufeff', u'x\ufeffy', u'\x00', u'\U0001f600', u'\u2028\u2029', u'\ufffe\uffff', b'\xef\xbb\xbfx']
    for v in svals:
        enc = tnetstrings.dump(v)
        tail = rng.choice([b'', b'3:abc,', b'0:~'])
        stream = enc + tail
        splits = [[stream]] + [[stream[:k], stream[k:]] for k in range(1, len(stream))] + [[stream[j:j + 1] for j in range(len(stream))]]
        if tier == 'quick' and len(splits) > 24:
            splits = splits[:8] + rng.sample(splits[8:-1], 12) + splits[-1:]
        for chunks in splits:
            if len(violations) >= 8:
                break
            ev += 1
            try:
                term, typ, sent, data = run_machine(chunks)
                val = typ
                ok = term and sent == len(enc) and same(val, v)
                obs = 'terminal=%r sent=%d value=%r' % (term, sent, val)
            except Exception as e:
                ok, obs = False, 'raised %s: %s' % (type(e).__name__, e)
            distinct.add(('m', repr(v)[:20], tuple(len(c) for c in chunks)))
            if not ok:
                violations.append(dict(key='tnet_machine %r chunks=%r' % (v, [len(c) for c in chunks]), observed=obs[:300],
                                       required='payload %r, stops after %d bytes' % (v, len(enc))))
    # (c) the incremental receive loop tnet_from (newline separators ignored between messages only)
    msgs = [b'abc', b'x\ny', b'\nlead', 12, None, u'\xe9', b'', b'tail\n']
    short = [b'1', 2, b'\n', b'']
    for label, items, sep in (('', msgs, b'\n'), (' (two separators)', short, b'\n\n'), (' (three separators)', short[:2], b'\n\n\n')):
        stream = b''.join(tnetstrings.dump(m) + sep for m in items)
        cuts = list(range(1, len(stream)))
        if tier == 'quick':
            # always the cuts that make a received block begin or end with a newline (separator or payload byte), plus a sample of the others
            edge = [k for k in cuts if stream[k] == 10 or stream[k - 1] == 10]
            cuts = sorted(set(edge + rng.sample(cuts, min(8, len(cuts)))))
        for k in [None] + cuts:
            chunks = [stream] if k is None else [stream[:k], stream[k:]]
            ev += 1
            distinct.add(('from', label, k))
            got = tnet_from_stream(chunks)
            want = list(items)
            norm = lambda xs: [bytes(x) if isinstance(x, (bytes, bytearray)) else x for x in xs]
            if norm(got) != norm(want) and len(violations) < 8:
                violations.append(dict(key='tnet_from%s split at %r' % (label, k), observed=repr(got)[:300], required=repr(want)[:300]))
    # a slow sender: the receive timeout expires in the middle of a message, and the next block begins with a newline that is payload
    slow_items = [b'x\ny', b'ab', b'\n\nz']
    slow = b''.join(tnetstrings.dump(m) + b'\n' for m in slow_items)
    for k in [i for i in range(1, len(slow)) if slow[i] == 10]:
        ev += 1
        distinct.add(('from-slow', k))
        got = tnet_from_stream([slow[:k], slow[k:]], gap=0.25, timeout=0.06, drop_none=True)
        norm = lambda xs: [bytes(x) if isinstance(x, (bytes, bytearray)) else x for x in xs]
        if norm(got) != norm(slow_items) and len(violations) < 8:
            violations.append(dict(key='tnet_from slow sender, split at %r (receive timeouts in between)' % (k,), observed=repr(got)[:300], required=repr(slow_items)))
    # blocks that fill the receive buffer exactly (one or more times), with nothing more pending when they have been read
    for fill in (4096, 8192, 4095, 4097, 12288):
        first = []
        size = 0
        while size < fill:
            room = fill - size
            if room >= 4096:
                room = 4096 if fill - size - 4096 == 0 or fill - size - 4096 >= 10 else room - 10
            n_ = room - 2 - 1
            n_ -= len(str(n_))                    # len(str(n)) + ':' + n + ',' + newline == room
            if len(str(n_)) + n_ + 3 != room:
                n_ += room - (len(str(n_)) + n_ + 3)
            first.append(bytes(bytearray((size + j) % 251 for j in range(n_))))
            size += len(tnetstrings.dump(first[-1])) + 1
        items = first + [b'after', 5]
        head = b''.join(tnetstrings.dump(m) + b'\n' for m in first)
        rest_ = b''.join(tnetstrings.dump(m) + b'\n' for m in items[len(first):])
        ev += 1
        distinct.add(('from-fill', fill, len(head)))
        got = tnet_from_stream([head, rest_], gap=0.15, timeout=1.0, drop_none=True)
        norm = lambda xs: [bytes(x) if isinstance(x, (bytes, bytearray)) else x for x in xs]
        if norm(got) != norm(items) and len(violations) < 8:
            violations.append(dict(key='tnet_from: a block of %d bytes (%d messages), a pause, then two more messages' % (len(head), len(first)),
                                   observed=repr([x if not isinstance(x, (bytes, bytearray)) or len(x) < 12 else '<%d bytes>' % len(x) for x in got])[:300],
                                   required='the %d messages sent, in order' % len(items)))
    # streams are independent: a stream abandoned with messages still buffered, or ended by malformed data, leaves nothing behind for the next one
    for label, first, take in (('abandoned after one of three messages', tnetstrings.dump(b'ab') + b'\n' + tnetstrings.dump(b'cd') + b'\n' + tnetstrings.dump(7) + b'\n', 1),
                               ('ended by malformed data', tnetstrings.dump(b'ab') + b'\n' + b'9:abc', 5), ('consumed to its end', tnetstrings.dump(1) + b'\n', 5)):
        ev += 1
        distinct.add(('two-streams', label))
        got1 = tnet_from_stream([first], take=take)
        got2 = tnet_from_stream([tnetstrings.dump(333) + b'\n'], drop_none=True)
        if got2 != [333] and len(violations) < 8:
            violations.append(dict(key='tnet_from on a new connection after a stream %s' % label, observed='first stream %r, new stream %r' % (got1, got2),
                                   required='the new stream yields exactly its own message [333]'))
    # text below containers with an encoding other than the default
    for enc in ('latin-1', 'utf-16-le', 'cp1252'):
        for v in ({'k': u'\xe9t\xe9'}, [u'\xe9', {'a': {'b': u'na\xefve'}}], {'x': [u'\xfc', 1, None]}, u'\xe9'):
            ev += 1
            distinct.add(('enc', enc, repr(v)))
            try:
                wire_ = tnetstrings.dump(v, encoding=enc)
                got, rem = tnetstrings.parse(wire_ + b'7:', encoding=enc)
                ok = same(got, v) and rem == b'7:'
                obs = repr((wire_, got, rem))
            except Exception as e:
                ok, obs = False, 'raised %s: %s' % (type(e).__name__, e)
            if not ok and len(violations) < 8:
                violations.append(dict(key='roundtrip %r with encoding %s' % (v, enc), observed=obs[:300], required='parse(dump(v, encoding=E) + rest, encoding=E) == (v, rest)'))
    return dict(evaluations=ev, distinct_nontrivial=len(distinct), distinct_keys=distinct_keys(distinct),
                rule='(a) seeded values (ints incl. > 64 bit, bools, None, bytes that look like prefixes/colons/type tags, multi-byte text, floats, nested lists and '
                     'string-keyed dicts to depth 3) x following data: parse(dump(v) + rest) == (v, rest) with equal types; (b) the real tnet_machine fed like '
                     'tnet_from for the types it supports, every two-way split and byte-at-a-time, followed by further data: same payload, terminal, '
                     'source.sent == len(dump(v)); (c) the real tnet_from loop on a socket pair: messages separated by one, two or three newlines (payloads containing newlines at every position) in one chunk and two-way splits: the same payloads; a slow sender (receive timeouts inside a message, next block starting with a payload newline); blocks of exactly 4095/4096/4097/8192/12288 bytes followed by a pause; a new stream after one that was abandoned with buffered messages / ended by malformed data; text below containers with latin-1 / utf-16-le / cp1252; distinct = distinct values / (value, chunking)',
                exhaustive=False, samples=samples, violations=violations[:20], seed=seed)


def replay_tnet(model, obligation):
    from cpppo.server import tnetstrings
    rng = random.Random(3)
    for v in [0, 5, -17, 10 ** 30, True, False, None, b'', b'a:b', b'12:', u'', u'\xe9€', [1, b'x', [None]], [], [[], [1, 2], b']'], {'a': 1, 'b': [True]}, {}, {'k': {'j': [b'}']}}]:
        for rest in (b'', b'7:', b'0:~'):
            try:
                enc = tnetstrings.dump(v)
                got, rem = tnetstrings.parse(enc + rest, encoding='utf-8')
                ok = same(got, v) and rem == rest and enc.split(b':', 1)[0] == str(len(enc) - len(enc.split(b':', 1)[0]) - 2).encode()
                obs = repr((enc, got, rem))
            except Exception as e:
                ok, obs = False, 'raised %s: %s' % (type(e).__name__, e)
            if not ok:
                return dict(confirmed=True, function='cpppo.server.tnetstrings.dump/parse', input=repr((v, rest)), observed=obs[:300],
                            required='parse(dump(v) + rest) == (v, rest); length prefix == payload length')
    return dict(confirmed=False)


def tnet_from_stream(chunks, gap=0.01, timeout=1.0, drop_none=False, take=None):
    """the real tnet.tnet_from receive loop on a socket pair fed the given chunks; returns the yielded payloads"""
    import socket
    import threading
    import time
    import cpppo
    from cpppo.server import tnet
    a, b = socket.socketpair()
    out = []

    def feed():
        for c in chunks:
            a.sendall(c)
            time.sleep(gap)
        a.shutdown(socket.SHUT_WR)
    t = threading.Thread(target=feed, daemon=True)
    t.start()
    try:
        for v in tnet.tnet_from(b, ('pair', 1), timeout=timeout, latency=0.02, ignore=b'\n'):
            if v is None and not out and not t.is_alive():
                break
            if v is None and drop_none:
                continue              # the marker of a receive timeout (the caller sends no null messages in this mode)
            out.append(v)
            if len(out) > 50 or (take is not None and len(out) >= take):
                break
    except Exception as e:
        out.append('raised %s' % type(e).__name__)
    t.join(1.0)
    a.close()
    b.close()
    return out
