"""C20 — tnetstring serialisation round-trips and the streaming parser agrees with it."""
import random

import z3

from pyvc.spec import Spec, Loop, Custom
from pyvc.vals import IntV, BoolV, SeqV, TupV, IntSeq, NONE, ConstV, Unsupported
from pyvc.pure import to_int, fresh

PROPERTY = 'C20'
LEVEL = 'proof'

F = "server/tnetstrings.py"


def framed(eng, name, st):
    """data == digits(n) ++ b':' ++ payload ++ type ++ rest  with len(payload) == n, len(type) == 1"""
    n = z3.Int('_g_n')
    p = z3.Const('_g_payload', IntSeq)
    t = z3.Const('_g_type', IntSeq)
    r = z3.Const('_g_rest', IntSeq)
    d = eng.digits(n)
    st = st.clone()
    st.pc.extend(eng.digit_facts)
    eng.digit_facts = []
    st.pc += [n >= 0, z3.Length(p) == n, z3.Length(t) == 1]
    for nm, v in (('_g_n', IntV(n)), ('_g_payload', SeqV(p, 'bytes')), ('_g_type', SeqV(t, 'bytes')), ('_g_rest', SeqV(r, 'bytes'))):
        eng.init_vals[nm] = v
    return SeqV(z3.Concat(d, z3.Unit(z3.IntVal(58)), p, t, r), 'bytes'), st


def parse_payload_spec():
    return Spec('parse_payload', (F, 'parse_payload'), params={'data': framed},
                ensures=[('framing: the length prefix delimits exactly the payload, one type byte follows, the rest is untouched',
                          'result[0] == _g_payload and result[1] == _g_type and result[2] == _g_rest')],
                raises={}, modifies=[], replay=lambda m, o: replay_tnet(m, o),
                note='for every well-formed frame digits(n):payload,type followed by any further data (T2: decimal text axioms)')




DIG = z3.Function('digits', z3.IntSort(), IntSeq)
UNDIG = z3.Function('undigits', IntSeq, z3.IntSort())
U8E = z3.Function('utf8enc', IntSeq, IntSeq)
U8D = z3.Function('utf8dec', IntSeq, IntSeq)


def dig(pe, x):
    from pyvc.pure import const_of, seq_lit
    t = to_int(x)
    c = const_of(t)
    return SeqV(seq_lit([ord(ch) for ch in str(c)]) if c is not None else DIG(t), 'bytes')


FUNCS = {'dig': dig, 'undig': lambda pe, s: IntV(UNDIG(s.t)),
         'utf8': lambda pe, s: SeqV(U8E(s.t), 'bytes'), 'unutf8': lambda pe, s: SeqV(U8D(s.t), 'str'),
         'frame': lambda pe, p, t: SeqV(z3.Concat(dig(pe, IntV(z3.Length(p.t))).t, z3.Unit(z3.IntVal(58)), p.t, t.t), 'bytes')}


def dump_specs():
    mk = lambda name, params, ens, req='True': Spec(
        'dump[%s]' % name, (F, 'dump'), params=params, requires=req, ensures=ens, raises={}, modifies=[], replay=lambda m, o: replay_tnet(m, o),
        hints=dict(funcs=FUNCS), note='one contract per scalar value type; containers by dump_list/dump_dict')
    return [
        mk('int', {'data': 'Int'}, [('layout', "result == frame(dig(data), b'#')")]),
        mk('bool', {'data': 'Bool'}, [('layout', "result == (b'4:true!' if data else b'5:false!')")]),
        mk('null', {'data': 'None'}, [('layout', "result == b'0:~'")]),
        mk('bytes', {'data': 'Bytes'}, [('layout', "result == frame(data, b',')")]),
        mk('text', {'data': 'Str'}, [('layout', "result == frame(utf8(data), b'$')")]),
    ]


def payload_callee():
    return Spec('parse_payload', (F, 'parse_payload'), params={'data': 'Bytes'},
                requires="data == dig(_g_n) + b':' + _g_payload + _g_type + _g_rest and len(_g_payload) == _g_n and len(_g_type) == 1 and _g_n >= 0",
                ensures=['result[0] == _g_payload and result[1] == _g_type and result[2] == _g_rest'],
                returns=('Tuple', ['Bytes', 'Bytes', 'Bytes']), hints=dict(funcs=FUNCS))


def parse_spec():
    return Spec('parse[scalars]', (F, 'parse'), params={'data': framed},
                requires="_g_type[0] in (35, 33, 126, 44, 36) and implies(_g_type[0] == 126, _g_n == 0)",
                ensures=[('rest: exactly one message is consumed', 'result[1] == _g_rest'),
                         ('int', "implies(_g_type == b'#', result[0] == undig(_g_payload))"),
                         ('bool', "implies(_g_type == b'!', result[0] == (_g_payload == b'true'))"),
                         ('null', "implies(_g_type == b'~', result[0] is None)"),
                         ('bytes', "implies(_g_type == b',', result[0] == _g_payload)"),
                         ('text', "implies(_g_type == b'$', result[0] == unutf8(_g_payload))")],
                raises={}, modifies=[], callees={'parse_payload': payload_callee()}, replay=lambda m, o: replay_tnet(m, o),
                hints=dict(funcs=FUNCS, int_text=None),
                note='scalar payload types # ! ~ , $ ; float (^) is not modelled; } and ] by parse_dict/parse_list')


def roundtrip(repo):
    """parse(dump(v) ++ rest) == (v, rest): composition of the two contracts above (T2 inverse axioms)"""
    out = []
    v = z3.Int('v')
    rest = z3.Const('rest', IntSeq)
    d = DIG(v)
    j = z3.Int('dj')
    T2 = [z3.Length(d) >= 1, UNDIG(d) == v]
    # int: dump gives frame(dig(v), '#'); parse of a frame with type '#' gives undig(payload)
    out.append(('int: parse(dump(v) ++ rest) == (v, rest)', T2, UNDIG(d) == v))
    s = z3.Const('s', IntSeq)
    out.append(('text: decode(encode(s)) == s', [U8D(U8E(s)) == s], U8D(U8E(s)) == s))
    b = z3.Bool('b')
    tr, fa = [z3.Concat(*[z3.Unit(z3.IntVal(c)) for c in w]) for w in (b'true', b'false')]
    out.append(('bool: the payload of dump(b) equals b"true" exactly when b', [], z3.If(b, tr, fa) == tr) if False else
               ('bool: the payload of dump(b) equals b"true" exactly when b', [], (z3.If(b, tr, fa) == tr) == b))
    return out


def contracts(repo):
    return [parse_payload_spec()] + dump_specs() + [parse_spec(), Custom('roundtrip', roundtrip, note='composition lemmas')]


LEVEL_TEXT = ('Deductive proof on the real server/tnetstrings.py for the scalar core: parse_payload extracts exactly payload, type byte and rest from '
              'every well-formed frame followed by arbitrary data (framing lemma, decided by cvc5), dump() of int/bool/None/bytes/text has exactly '
              'the layout len:payload,type with the length prefix equal to the payload length, parse() of such a frame returns the value and the '
              'untouched rest; composed with the decimal-text and utf-8 inverse axioms this is the round trip. Lists, dictionaries, floats and the '
              'streaming tnet_machine under all chunkings are compared only up to a bound (not counted).')
LEVEL_NOTE = ('T2 axioms: str(n)/"%d"%n/int(text) are inverse and decimal text contains only digits and a leading minus; utf-8 encode/decode inverse. '
              'dump_list/dump_dict/parse_list/parse_dict (containers) and float are bounded-only; tnet_machine runs through the DFA interpreter (bounded).')
TECHNIQUE = 'contracts on tnetstrings.parse_payload / dump / parse (scalars), VCs from the real AST, z3 + cvc5 (IndexOf lemma); bounded round trips incl. containers and the streaming machine under all two-way chunkings'
TRUSTED = ['T2 decimal-text axioms (digits/undigits) and utf-8 inverse pair']
ASSUMPTIONS = ['float payloads, containers and the streaming parser are only in the bounded tier']


def values(rng, depth=0):
    scal = [0, 1, -1, 10, 255, 2 ** 40, -(2 ** 70), True, False, None, b'', b':', b'3:abc,', b'0:~', b'12', b'a:b,c#', u'', u'x', u'\xe9€\U0001f600',
            u'5:', 1.5, -0.25, 1e300, 0.1]
    v = rng.choice(scal)
    if depth < 3 and rng.random() < 0.4:
        k = rng.choice([0, 1, 2, 5])
        if rng.random() < 0.5:
            return [values(rng, depth + 1) for _ in range(k)]
        return dict(('k%d' % i, values(rng, depth + 1)) for i in range(k))
    return v


def same(a, b):
    if type(a) is not type(b) and not (isinstance(a, (list, tuple)) and isinstance(b, (list, tuple))):
        return False
    if isinstance(a, (list, tuple)):
        return len(a) == len(b) and all(same(x, y) for x, y in zip(a, b))
    if isinstance(a, dict):
        return set(a) == set(b) and all(same(a[k], b[k]) for k in a)
    return a == b


def run_machine(chunks, tail_after=True):
    """feed the real tnet_machine chunk by chunk exactly like tnet_from: chain a block whenever the machine
    yields (machine, None) with nothing to peek"""
    import cpppo
    from cpppo.server import tnet
    data = cpppo.dotdict()
    source = cpppo.chainable()
    pending = list(chunks)
    with tnet.tnet_machine() as mach:
        eng = mach.run(source=source, data=data, path='t')
        guard = 0
        for m, s in eng:
            guard += 1
            if guard > 100000:
                raise RuntimeError('machine does not terminate')
            if s is None and source.peek() is None:
                if not pending:
                    break
                source.chain(pending.pop(0))
        term = mach.terminal
    return term, data.get('t.tnet.type.input'), source.sent, data


def bounded(tier, seed):
    import cpppo
    from cpppo.server import tnetstrings
    rng = random.Random(seed)
    ev = 0
    distinct = set()
    violations = []
    samples = []
    n = 400 if tier == 'quick' else 6000
    for i in range(n):
        if len(violations) >= 5:
            break
        v = values(rng)
        rest = rng.choice([b'', b'0:~', b'xyz', b'5:', b':'])
        ev += 1
        try:
            enc = tnetstrings.dump(v)
            got, rem = tnetstrings.parse(enc + rest, encoding='utf-8')
            ok = same(got, v) and rem == rest
            obs = repr((got, rem))
        except Exception as e:
            ok, obs = False, 'raised %s: %s' % (type(e).__name__, e)
        distinct.add(repr(v)[:60])
        if len(samples) < 5 and isinstance(v, (list, dict)) and v:
            samples.append(dict(value=repr(v)[:100], encoded=repr(enc)[:100]))
        if not ok:
            violations.append(dict(key='roundtrip %r + %r' % (v, rest), observed=obs[:300], required='the value (same types) and the untouched rest'))
    # streaming machine: supported types # , $ ~ ; every two-way split, byte at a time; following data untouched
    svals = [0, 7, 12345678901234567890, b'', b'abc', b'1:x,', b':::', b'9', u'x', u'\xe9€', None, b'a' * 40]
    for v in svals:
        enc = tnetstrings.dump(v)
        tail = rng.choice([b'', b'3:abc,', b'0:~'])
        stream = enc + tail
        splits = [[stream]] + [[stream[:k], stream[k:]] for k in range(1, len(stream))] + [[stream[j:j + 1] for j in range(len(stream))]]
        if tier == 'quick' and len(splits) > 24:
            splits = splits[:8] + rng.sample(splits[8:-1], 12) + splits[-1:]
        for chunks in splits:
            if len(violations) >= 8:
                break
            ev += 1
            try:
                term, typ, sent, data = run_machine(chunks)
                val = typ
                ok = term and sent == len(enc) and same(val, v)
                obs = 'terminal=%r sent=%d value=%r' % (term, sent, val)
            except Exception as e:
                ok, obs = False, 'raised %s: %s' % (type(e).__name__, e)
            distinct.add(('m', repr(v)[:20], tuple(len(c) for c in chunks)))
            if not ok:
                violations.append(dict(key='tnet_machine %r chunks=%r' % (v, [len(c) for c in chunks]), observed=obs[:300],
                                       required='payload %r, stops after %d bytes' % (v, len(enc))))
    # (c) the incremental receive loop tnet_from (newline separators ignored between messages only)
    msgs = [b'abc', b'x\ny', b'\nlead', 12, None, u'\xe9', b'', b'tail\n']
    stream = b''.join(tnetstrings.dump(m) + b'\n' for m in msgs)
    cuts = list(range(1, len(stream)))
    if tier == 'quick':
        cuts = rng.sample(cuts, 14)
    for k in [None] + cuts:
        chunks = [stream] if k is None else [stream[:k], stream[k:]]
        ev += 1
        distinct.add(('from', k))
        got = tnet_from_stream(chunks)
        want = list(msgs)
        norm = lambda xs: [bytes(x) if isinstance(x, (bytes, bytearray)) else x for x in xs]
        if norm(got) != norm(want) and len(violations) < 8:
            violations.append(dict(key='tnet_from split at %r' % (k,), observed=repr(got)[:300], required=repr(want)[:300]))
    return dict(evaluations=ev, distinct_nontrivial=len(distinct),
                rule='(a) seeded values (ints incl. > 64 bit, bools, None, bytes that look like prefixes/colons/type tags, multi-byte text, floats, nested lists and '
                     'string-keyed dicts to depth 3) x following data: parse(dump(v) + rest) == (v, rest) with equal types; (b) the real tnet_machine fed like '
                     'tnet_from for the types it supports, every two-way split and byte-at-a-time, followed by further data: same payload, terminal, '
                     'source.sent == len(dump(v)); (c) the real tnet_from loop on a socket pair: newline separated messages (payloads containing newlines at every position) in one chunk and two-way splits: the same payloads; distinct = distinct values / (value, chunking)',
                exhaustive=False, samples=samples, violations=violations[:20], seed=seed)


def replay_tnet(model, obligation):
    from cpppo.server import tnetstrings
    rng = random.Random(3)
    for v in [0, 5, -17, 10 ** 30, True, False, None, b'', b'a:b', b'12:', u'', u'\xe9€', [1, b'x', [None]], {'a': 1, 'b': [True]}]:
        for rest in (b'', b'7:', b'0:~'):
            try:
                enc = tnetstrings.dump(v)
                got, rem = tnetstrings.parse(enc + rest, encoding='utf-8')
                ok = same(got, v) and rem == rest and enc.split(b':', 1)[0] == str(len(enc) - len(enc.split(b':', 1)[0]) - 2).encode()
                obs = repr((enc, got, rem))
            except Exception as e:
                ok, obs = False, 'raised %s: %s' % (type(e).__name__, e)
            if not ok:
                return dict(confirmed=True, function='cpppo.server.tnetstrings.dump/parse', input=repr((v, rest)), observed=obs[:300],
                            required='parse(dump(v) + rest) == (v, rest); length prefix == payload length')
    return dict(confirmed=False)


def tnet_from_stream(chunks, gap=0.01):
    """the real tnet.tnet_from receive loop on a socket pair fed the given chunks; returns the yielded payloads"""
    import socket
    import threading
    import time
    import cpppo
    from cpppo.server import tnet
    a, b = socket.socketpair()
    out = []

    def feed():
        for c in chunks:
            a.sendall(c)
            time.sleep(gap)
        a.shutdown(socket.SHUT_WR)
    t = threading.Thread(target=feed, daemon=True)
    t.start()
    try:
        for v in tnet.tnet_from(b, ('pair', 1), timeout=1.0, latency=0.05, ignore=b'\n'):
            if v is None and not out and not t.is_alive():
                break
            out.append(v)
            if len(out) > 50:
                break
    except Exception as e:
        out.append('raised %s' % type(e).__name__)
    t.join(1.0)
    a.close()
    b.close()
    return out
