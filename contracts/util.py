"""helpers for the bounded tier"""
import contextlib
import itertools
import signal


class Timeout(Exception):
    pass


@contextlib.contextmanager
def time_limit(seconds):
    """a real-code call that does not finish is reported, never waited for"""
    def handler(signum, frame):
        raise Timeout('no result within %ss' % seconds)
    old = signal.signal(signal.SIGALRM, handler)
    signal.setitimer(signal.ITIMER_REAL, seconds)
    try:
        yield
    finally:
        signal.setitimer(signal.ITIMER_REAL, 0)
        signal.signal(signal.SIGALRM, old)


def take(gen, cap):
    out = list(itertools.islice(gen, cap + 1))
    if len(out) > cap:
        raise Timeout('more than %d items generated' % cap)
    return out
