"""helpers for the bounded tier"""
import contextlib
import itertools
import signal


class Timeout(Exception):
    pass


@contextlib.contextmanager
def time_limit(seconds):
    """a real-code call that does not finish is reported, never waited for"""
    def handler(signum, frame):
        raise Timeout('no result within %ss' % seconds)
    old = signal.signal(signal.SIGALRM, handler)
    signal.setitimer(signal.ITIMER_REAL, seconds)
    try:
        yield
    finally:
        signal.setitimer(signal.ITIMER_REAL, 0)
        signal.signal(signal.SIGALRM, old)


def take(gen, cap):
    out = list(itertools.islice(gen, cap + 1))
    if len(out) > cap:
        raise Timeout('more than %d items generated' % cap)
    return out


def distinct_keys(distinct):
    """32-bit digests of the distinct-case keys of one bounded run, so that runs with different seeds can be merged and the distinct cases
    counted (a digest collision only makes the merged count smaller)"""
    import zlib
    return sorted(set(zlib.crc32(repr(k).encode('utf8', 'replace')) for k in distinct))
