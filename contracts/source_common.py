"""Contracts on the input-source classes of automata.py (peeking / chaining / remembering), shared by C02 and C10.

Component view:  B = self._back (push-back stack, top is the last element),  R = rest(self._iter) (what the current
iterator still holds),  sent = self._sent.   The stream still to be delivered is  pending = rev(B) ++ R ++ (chained input).
"""
from pyvc.spec import Spec, Loop

F = "automata.py"
PEEK_FIELDS = {'_back': 'MutIntList', '_iter': 'Iter', '_sent': 'Int'}


def peeking_specs():
    push = Spec('peeking.push', (F, 'peeking.push'), params={'item': 'Int'}, fields=PEEK_FIELDS,
                ensures=[('pushed-back symbol is delivered next', 'self._back == old(self._back) + [item]'),
                         ('sent counts net symbols', 'self._sent == old(self._sent) - 1'),
                         ('iterator untouched', 'rest(self._iter) == old(rest(self._iter))')],
                raises={}, modifies=['self._back', 'self._sent'], returns='None')
    nxt = Spec('peeking.__next__', (F, 'peeking.__next__'), params={}, fields=PEEK_FIELDS,
               defs=dict(B='old(self._back)', R='old(rest(self._iter))'),
               ensures=[('delivers the pushed-back symbol first, else the next symbol of the iterator',
                         'result == (B[len(B) - 1] if len(B) > 0 else R[0])'),
                        ('consumes exactly that symbol',
                         'implies(len(B) > 0, self._back == B[:len(B) - 1] and rest(self._iter) == R) and '
                         'implies(len(B) == 0, self._back == B and rest(self._iter) == R[1:])'),
                        ('sent counts net symbols', 'self._sent == old(self._sent) + 1'),
                        ('only when something is pending', 'len(B) > 0 or len(R) > 0')],
               raises={'StopIteration': 'len(B) == 0 and len(R) == 0'},
               refuses=[('empty', 'len(B) == 0 and len(R) == 0')], accepts=[('pending', 'len(B) > 0 or len(R) > 0')],
               modifies=['self._back', 'self._sent', 'self._iter'], returns='Int',
               hints=dict(state_unchanged_on_raise=True))
    peek = Spec('peeking.peek', (F, 'peeking.peek'), params={}, fields=PEEK_FIELDS,
                defs=dict(B='old(self._back)', R='old(rest(self._iter))'),
                ensures=[('returns the symbol that next() would deliver, or None at the end',
                          'result == (B[len(B) - 1] if len(B) > 0 else (R[0] if len(R) > 0 else None))'),
                         ('sent unchanged', 'self._sent == old(self._sent)'),
                         ('pending stream unchanged: a peeked symbol is parked on the push-back stack',
                          'implies(len(B) > 0 or len(R) == 0, self._back == B and rest(self._iter) == R) and '
                          'implies(len(B) == 0 and len(R) > 0, self._back == [R[0]] and rest(self._iter) == R[1:])')],
                raises={}, modifies=['self._back', 'self._sent', 'self._iter'],
                callees={'peeking.__next__': nxt, 'push': push, 'peeking.push': push})
    push.replay, nxt.replay, peek.replay = replay_peeking('push'), replay_peeking('__next__'), replay_peeking('peek')
    return [push, nxt, peek]


def replay_peeking(method):
    def replay(model, obligation):
        import cpppo
        m = model or {}
        ints = lambda x: [int(v) for v in (x or []) if not isinstance(v, str)]
        cands = [(ints(m.get('self._back')), ints(m.get('self._iter.seq')), int(m.get('self._iter.pos', 0)), int(m.get('self._sent', 0)), int(m.get('item', 7)))]
        cands += [([], [], 0, 0, 5), ([1], [], 0, 3, 5), ([1, 2], [3, 4], 1, 3, 5), ([], [3, 4], 0, 2, 5), ([], [9], 1, 2, 5)]
        for back, seq, pos, sent, item in cands:
            pos = max(0, min(pos, len(seq)))
            p = cpppo.peeking(seq[pos:])
            p._back = list(back)
            p._sent = sent
            pending = list(reversed(back)) + seq[pos:]
            try:
                if method == 'push':
                    out = ('return', p.push(item))
                    want_pending, want_sent, want_res = [item] + pending, sent - 1, None
                elif method == 'peek':
                    out = ('return', p.peek())
                    want_pending, want_sent, want_res = pending, sent, (pending[0] if pending else None)
                else:
                    out = ('return', next(p))
                    want_pending, want_sent, want_res = pending[1:], sent + 1, (pending[0] if pending else None)
            except StopIteration:
                out = ('raise', 'StopIteration')
                want_pending, want_sent, want_res = pending, sent, None
            got_pending = list(reversed(p._back)) + list(p._iter)
            bad = []
            if method == '__next__' and (out[0] == 'raise') != (not pending):
                bad.append('StopIteration exactly when nothing is pending')
            if out[0] == 'return' and out[1] != want_res:
                bad.append('result %r, expected %r' % (out[1], want_res))
            if got_pending != want_pending:
                bad.append('pending stream %r, expected %r' % (got_pending, want_pending))
            if p._sent != want_sent:
                bad.append('sent %r, expected %r' % (p._sent, want_sent))
            if bad:
                return dict(confirmed=True, function='cpppo.automata.peeking.' + method,
                            input=dict(back=back, iterator_rest=seq[pos:], sent=sent, item=item), observed=repr(out), required='; '.join(bad))
        return dict(confirmed=False)
    return replay
