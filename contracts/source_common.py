"""Contracts on the input-source classes of automata.py (peeking / chaining / remembering), shared by C02 and C10.

Component view:  B = self._back (push-back stack, top is the last element),  R = rest(self._iter) (what the current
iterator still holds),  sent = self._sent.   The stream still to be delivered is  pending = rev(B) ++ R ++ (chained input).
"""
from pyvc.spec import Spec, Loop

F = "automata.py"
PEEK_FIELDS = {'_back': 'MutIntList', '_iter': 'Iter', '_sent': 'Int'}


def _sample_peeking(rng):
    seq = [rng.randint(0, 255) for _ in range(rng.choice([0, 0, 1, 2, 5]))]
    return {'self._back': [rng.randint(0, 255) for _ in range(rng.choice([0, 0, 1, 3]))], 'self._iter.seq': seq,
            'self._iter.pos': rng.randint(0, len(seq)), 'self._sent': rng.randint(0, 50)}


def _run_peeking_next(vals):
    import cpppo
    p = cpppo.peeking(vals['self._iter.seq'][vals['self._iter.pos']:])
    p._back = list(vals['self._back'])
    p._sent = vals['self._sent']
    try:
        return ('return', next(p))
    except StopIteration:
        return ('raise', 'StopIteration')


def peeking_specs():
    push = Spec('peeking.push', (F, 'peeking.push'), params={'item': 'Int'}, fields=PEEK_FIELDS,
                ensures=[('pushed-back symbol is delivered next', 'self._back == old(self._back) + [item]'),
                         ('sent counts net symbols', 'self._sent == old(self._sent) - 1'),
                         ('iterator untouched', 'rest(self._iter) == old(rest(self._iter))')],
                raises={}, modifies=['self._back', 'self._sent'], returns='None')
    nxt = Spec('peeking.__next__', (F, 'peeking.__next__'), params={}, fields=PEEK_FIELDS,
               defs=dict(B='old(self._back)', R='old(rest(self._iter))'),
               ensures=[('delivers the pushed-back symbol first, else the next symbol of the iterator',
                         'result == (B[len(B) - 1] if len(B) > 0 else R[0])'),
                        ('consumes exactly that symbol',
                         'implies(len(B) > 0, self._back == B[:len(B) - 1] and rest(self._iter) == R) and '
                         'implies(len(B) == 0, self._back == B and rest(self._iter) == R[1:])'),
                        ('sent counts net symbols', 'self._sent == old(self._sent) + 1'),
                        ('only when something is pending', 'len(B) > 0 or len(R) > 0')],
               raises={'StopIteration': 'len(B) == 0 and len(R) == 0'},
               refuses=[('empty', 'len(B) == 0 and len(R) == 0')], accepts=[('pending', 'len(B) > 0 or len(R) > 0')],
               modifies=['self._back', 'self._sent', 'self._iter'], returns='Int',
               hints=dict(state_unchanged_on_raise=True, sample=_sample_peeking, concrete=_run_peeking_next))
    peek = Spec('peeking.peek', (F, 'peeking.peek'), params={}, fields=PEEK_FIELDS,
                defs=dict(B='old(self._back)', R='old(rest(self._iter))'),
                ensures=[('returns the symbol that next() would deliver, or None at the end',
                          'result == (B[len(B) - 1] if len(B) > 0 else (R[0] if len(R) > 0 else None))'),
                         ('sent unchanged', 'self._sent == old(self._sent)'),
                         ('pending stream unchanged: a peeked symbol is parked on the push-back stack',
                          'implies(len(B) > 0 or len(R) == 0, self._back == B and rest(self._iter) == R) and '
                          'implies(len(B) == 0 and len(R) > 0, self._back == [R[0]] and rest(self._iter) == R[1:])')],
                raises={}, modifies=['self._back', 'self._sent', 'self._iter'],
                callees={'peeking.__next__': nxt, 'push': push, 'peeking.push': push})
    push.replay, nxt.replay, peek.replay = replay_peeking('push'), replay_peeking('__next__'), replay_peeking('peek')
    return [push, nxt, peek]


def replay_peeking(method):
    def replay(model, obligation):
        import cpppo
        m = model or {}
        ints = lambda x: [int(v) for v in (x or []) if not isinstance(v, str)]
        cands = [(ints(m.get('self._back')), ints(m.get('self._iter.seq')), int(m.get('self._iter.pos', 0)), int(m.get('self._sent', 0)), int(m.get('item', 7)))]
        cands += [([], [], 0, 0, 5), ([1], [], 0, 3, 5), ([1, 2], [3, 4], 1, 3, 5), ([], [3, 4], 0, 2, 5), ([], [9], 1, 2, 5)]
        for back, seq, pos, sent, item in cands:
            pos = max(0, min(pos, len(seq)))
            p = cpppo.peeking(seq[pos:])
            p._back = list(back)
            p._sent = sent
            pending = list(reversed(back)) + seq[pos:]
            try:
                if method == 'push':
                    out = ('return', p.push(item))
                    want_pending, want_sent, want_res = [item] + pending, sent - 1, None
                elif method == 'peek':
                    out = ('return', p.peek())
                    want_pending, want_sent, want_res = pending, sent, (pending[0] if pending else None)
                else:
                    out = ('return', next(p))
                    want_pending, want_sent, want_res = pending[1:], sent + 1, (pending[0] if pending else None)
            except StopIteration:
                out = ('raise', 'StopIteration')
                want_pending, want_sent, want_res = pending, sent, None
            got_pending = list(reversed(p._back)) + list(p._iter)
            bad = []
            if method == '__next__' and (out[0] == 'raise') != (not pending):
                bad.append('StopIteration exactly when nothing is pending')
            if out[0] == 'return' and out[1] != want_res:
                bad.append('result %r, expected %r' % (out[1], want_res))
            if got_pending != want_pending:
                bad.append('pending stream %r, expected %r' % (got_pending, want_pending))
            if p._sent != want_sent:
                bad.append('sent %r, expected %r' % (p._sent, want_sent))
            if bad:
                return dict(confirmed=True, function='cpppo.automata.peeking.' + method,
                            input=dict(back=back, iterator_rest=seq[pos:], sent=sent, item=item), observed=repr(out), required='; '.join(bad))
        return dict(confirmed=False)
    return replay


# ================================================================================================ chaining / remembering
import z3
from pyvc.vals import ListV, SeqV, IntV, RefV, ExcV, IntSeq, NONE, Unsupported
from pyvc.pure import fresh, to_int, const_of
from pyvc.spec import Custom

ArrSeq = z3.ArraySort(z3.IntSort(), IntSeq)
FLAT = z3.Function('FLAT', ArrSeq, z3.IntSort(), IntSeq)      # FLAT(a, k) = a[k-1] ++ a[k-2] ++ ... ++ a[0]  (the order chained input is consumed)


def flat_axioms():
    a = z3.Const('fa', ArrSeq)
    k = z3.Int('fk')
    return [z3.ForAll([a], FLAT(a, 0) == z3.Empty(IntSeq)),
            z3.ForAll([a, k], z3.Implies(k > 0, FLAT(a, k) == z3.Concat(z3.Select(a, k - 1), FLAT(a, k - 1))))]


class ChainV(ListV):
    """the list `_chain` of chained iterables: an array of byte sequences and a length"""
    __slots__ = ('arr',)

    def __init__(self, arr, n):
        ListV.__init__(self, n, lambda i: SeqV(z3.Select(arr, i), 'list'), tag='chain')
        self.arr = arr


def chain_sort(eng, name, st):
    arr = z3.Const(name + '.arr', ArrSeq)
    n = z3.Int(name + '.len')
    st = st.clone()
    st.pc.append(n >= 0)
    st.pc.extend(flat_axioms())
    rid = eng.new_id()
    st.heap[(rid, 'val')] = ChainV(arr, n)
    eng.tracked_refs.add(rid)
    return RefV(rid, 'list'), st


def chain_insert(eng, ref, cur, args, st, n, store):
    """_chain.insert(0, x): a new array with x in front (index 0 is consumed last).  The consequence
    FLAT(a', n+1) == FLAT(a, n) ++ x is the lemma `flat-insert` (proved by induction in flat_lemma) applied here."""
    if not isinstance(cur, ChainV) or const_of(to_int(args[0])) != 0:
        raise Unsupported('insert on %r' % (cur,))
    x = args[1]
    if not isinstance(x, SeqV):
        raise Unsupported('chained iterable %r' % (x,))
    a2 = fresh('chain', ArrSeq)
    i = fresh('ci')
    s2 = store(st, ChainV(a2, cur.n + 1))
    s2.pc += [z3.Select(a2, 0) == x.t, z3.ForAll([i], z3.Implies(i >= 0, z3.Select(a2, i + 1) == z3.Select(cur.arr, i))),
              FLAT(a2, cur.n + 1) == z3.Concat(FLAT(cur.arr, cur.n), x.t)]
    yield s2, NONE


def chain_pop(eng, ref, cur, args, st, n, store):
    if not isinstance(cur, ChainV) or args:
        raise Unsupported('pop on %r' % (cur,))
    line = getattr(n, 'lineno', None)
    for s, ok in eng.fork(st, cur.n > 0):
        if ok:
            yield store(s, ChainV(cur.arr, cur.n - 1)), SeqV(z3.Select(cur.arr, cur.n - 1), 'list')
        else:
            yield s, ExcV('IndexError', 'pop from empty list', line)


def chain_havoc(eng, s, cur, fld):
    v = s.heap[(cur.id, 'val')]
    if not isinstance(v, ChainV):
        return False
    n2 = fresh(fld + '.len')
    s.pc.append(n2 >= 0)
    s.heap[(cur.id, 'val')] = ChainV(fresh(fld + '.arr', ArrSeq), n2)
    return True


def flat_fn(pe, c):
    if not isinstance(c, ChainV):
        raise Unsupported('flat() of %r' % (c,))
    return SeqV(FLAT(c.arr, c.n), 'list')


def flat_lemma(repo):
    """FLAT(a', k+1) == FLAT(a, k) ++ x for a' = x inserted in front of a: induction over k"""
    a, a2 = z3.Const('la', ArrSeq), z3.Const('la2', ArrSeq)
    x = z3.Const('lx', IntSeq)
    k, i = z3.Int('lk'), z3.Int('li')
    defs = flat_axioms() + [z3.Select(a2, 0) == x, z3.ForAll([i], z3.Implies(i >= 0, z3.Select(a2, i + 1) == z3.Select(a, i)))]
    return [('flat-insert-base', defs, FLAT(a2, 1) == z3.Concat(FLAT(a, 0), x)),
            ('flat-insert-step', defs + [k >= 0, FLAT(a2, k + 1) == z3.Concat(FLAT(a, k), x)], FLAT(a2, k + 2) == z3.Concat(FLAT(a, k + 1), x))]


CHAIN_FIELDS = {'_back': 'MutIntList', '_iter': 'Iter', '_sent': 'Int', '_chain': chain_sort}
CHAIN_HINTS = dict(list_insert=chain_insert, list_pop=chain_pop, havoc_list=chain_havoc, funcs={'flat': flat_fn})


def chaining_specs():
    chain = Spec('chaining.chain', (F, 'chaining.chain'), params={'iterable': 'IntList'}, fields=CHAIN_FIELDS,
                 ensures=[('chained input is delivered after everything already pending', 'flat(self._chain) == old(flat(self._chain)) + iterable'),
                          ('nothing else changes', 'self._back == old(self._back) and rest(self._iter) == old(rest(self._iter)) and self._sent == old(self._sent)')],
                 raises={}, modifies=['self._chain'], hints=CHAIN_HINTS, returns='None',
                 note='uses the lemma flat-insert (proved by induction as C02/lemma[flat-insert-*])')
    defs = dict(B='old(self._back)', R='old(rest(self._iter))', C='old(flat(self._chain))')
    nxt = Spec('chaining.__next__', (F, 'chaining.__next__'), params={}, fields=CHAIN_FIELDS, defs=defs,
               loops={0: Loop(invariant=[('drained', 'len(self._back) == 0 and len(rest(self._iter)) == 0 and len(B) == 0 and len(R) == 0'),
                                         ('chained input intact', 'flat(self._chain) == C'),
                                         ('sent', 'self._sent == old(self._sent)')],
                              variant='len(self._chain)', modifies=['self._iter', 'self._chain'])},
               ensures=[('delivers the next symbol of the pending stream rev(back) ++ rest(iter) ++ chained',
                         'result == (B[len(B) - 1] if len(B) > 0 else (R[0] if len(R) > 0 else C[0]))'),
                        ('consumes exactly that symbol',
                         'implies(len(B) > 0, self._back == B[:len(B) - 1] and rest(self._iter) == R and flat(self._chain) == C) and '
                         'implies(len(B) == 0 and len(R) > 0, self._back == B and rest(self._iter) == R[1:] and flat(self._chain) == C) and '
                         'implies(len(B) == 0 and len(R) == 0, len(self._back) == 0 and rest(self._iter) + flat(self._chain) == C[1:])'),
                        ('sent counts net symbols', 'self._sent == old(self._sent) + 1'),
                        ('only when something is pending', 'len(B) > 0 or len(R) > 0 or len(C) > 0')],
               raises={'StopIteration': 'len(B) == 0 and len(R) == 0 and len(C) == 0'},
               refuses=[('empty', 'len(B) == 0 and len(R) == 0 and len(C) == 0')], accepts=[('pending', 'len(B) > 0 or len(R) > 0 or len(C) > 0')],
               modifies=['self._back', 'self._sent', 'self._iter', 'self._chain'], hints=CHAIN_HINTS, returns='Int')
    push = peeking_specs()[0]
    cpeek = Spec('chaining.peek', (F, 'peeking.peek'), params={}, fields=CHAIN_FIELDS, cls_name='chaining', defs=defs,
                 ensures=[('returns the symbol that next() would deliver, or None when nothing is pending (chained blocks included)',
                           'result == (B[len(B) - 1] if len(B) > 0 else (R[0] if len(R) > 0 else (C[0] if len(C) > 0 else None)))'),
                          ('sent unchanged: looking ahead consumes nothing, also across the boundary of a chained block', 'self._sent == old(self._sent)'),
                          ('the pending stream is unchanged (a peeked symbol is parked on the push-back stack)',
                           'implies(len(B) > 0, self._back == B and rest(self._iter) == R and flat(self._chain) == C) and '
                           'implies(len(B) == 0 and len(R) > 0, self._back == [R[0]] and rest(self._iter) == R[1:] and flat(self._chain) == C) and '
                           'implies(len(B) == 0 and len(R) == 0 and len(C) > 0, self._back == [C[0]] and rest(self._iter) + flat(self._chain) == C[1:]) and '
                           'implies(len(B) == 0 and len(R) == 0 and len(C) == 0, len(self._back) == 0 and len(rest(self._iter)) == 0 and len(flat(self._chain)) == 0)')],
                 raises={}, modifies=['self._back', 'self._sent', 'self._iter', 'self._chain'],
                 callees={'chaining.__next__': nxt, 'push': push, 'peeking.push': push}, hints=CHAIN_HINTS,
                 note='the inherited peeking.peek on a chaining source: next(self) is chaining.__next__ (by its contract)')
    chain.replay, nxt.replay, cpeek.replay = replay_chaining('chain'), replay_chaining('__next__'), replay_chaining('peek')
    return [chain, nxt, cpeek, Custom('lemma', flat_lemma, note='induction behind chaining.chain: inserting in front of the list appends to the flattened pending input')]


def replay_chaining(method):
    def one(back, rest, chain, sent):
        import cpppo
        c = cpppo.chaining(list(rest))
        c._back = list(back)
        c._sent = sent
        for blk in chain:                  # chain() in order: the first chained block is consumed first
            c.chain(list(blk))
        pending = list(reversed(back)) + list(rest) + [x for blk in chain for x in blk]
        try:
            if method == 'chain':
                out = ('return', c.chain([41, 42]))
                want_pending, want_sent, want_res = pending + [41, 42], sent, None
            elif method == 'peek':
                out = ('return', c.peek())
                want_pending, want_sent, want_res = pending, sent, (pending[0] if pending else None)
            else:
                out = ('return', next(c))
                want_pending, want_sent, want_res = pending[1:], sent + 1, (pending[0] if pending else None)
        except StopIteration:
            out = ('raise', 'StopIteration')
            want_pending, want_sent, want_res = pending, sent, None
        got_sent = c._sent
        got_pending = []
        try:
            while len(got_pending) < 100:
                got_pending.append(next(c))
        except StopIteration:
            pass
        bad = []
        if method == '__next__' and (out[0] == 'raise') != (not pending):
            bad.append('StopIteration exactly when nothing is pending (got %r)' % (out,))
        if out[0] == 'return' and out[1] != want_res:
            bad.append('result %r, expected %r' % (out[1], want_res))
        if got_pending != want_pending:
            bad.append('pending stream %r, expected %r' % (got_pending, want_pending))
        if got_sent != want_sent:
            bad.append('sent %r, expected %r' % (got_sent, want_sent))
        return out, bad

    def replay(model, obligation):
        from .util import time_limit, Timeout
        cands = [([], [], [], 0), ([1], [], [[5]], 2), ([], [3, 4], [[5, 6], [7]], 1), ([], [], [[5, 6], [], [7]], 0), ([], [], [[], []], 4),
                 ([2, 1], [3], [[9]], 0), ([], [], [[], [8]], 0)]
        for back, rest, chain, sent in cands:
            inp = dict(back=back, iterator_rest=rest, chained=chain, sent=sent)
            try:
                with time_limit(2):
                    out, bad = one(back, rest, chain, sent)
            except Timeout:
                out, bad = 'no result within 2 s', ['terminates']
            except Exception as e:
                out, bad = 'raised %s' % type(e).__name__, ['no exception other than StopIteration']
            if bad:
                return dict(confirmed=True, function='cpppo.automata.chaining.' + method, input=inp, observed=repr(out), required='; '.join(bad))
        return dict(confirmed=False)
    return replay


REM_FIELDS = dict(CHAIN_FIELDS, memory='MutIntList')


def replay_remembering(method):
    def one(back, rest, chain, memory):
        import cpppo
        c = cpppo.remembering(list(rest))
        c._back = list(back)
        c._sent = 10
        c.memory = list(memory)
        for blk in chain:
            c.chain(list(blk))
        pending = list(reversed(back)) + list(rest) + [x for blk in chain for x in blk]
        bad = []
        out = None
        if method == 'forget':
            c.forget()
            want_pending, want_mem, want_sent = pending, [], 10
        elif method == 'push':
            item = memory[-1] if memory else 77
            c.push(item)
            want_pending, want_mem, want_sent = [item] + pending, list(memory[:-1]), 9
        else:
            try:
                out = next(c)
                want_pending, want_mem, want_sent = pending[1:], list(memory) + [pending[0]] if pending else None, 11
                if not pending or out != pending[0]:
                    bad.append('result %r, expected the first of %r' % (out, pending))
            except StopIteration:
                out = 'StopIteration'
                want_pending, want_mem, want_sent = pending, list(memory), 10
                if pending:
                    bad.append('StopIteration although %r is pending' % (pending,))
        got_mem, got_sent = list(c.memory), c._sent
        c.memory = []
        got_pending = []
        try:
            while len(got_pending) < 100:
                got_pending.append(next(c))
        except StopIteration:
            pass
        if got_pending != want_pending:
            bad.append('pending stream %r, expected %r' % (got_pending, want_pending))
        if got_mem != want_mem:
            bad.append('memory %r, expected %r' % (got_mem, want_mem))
        if got_sent != want_sent:
            bad.append('sent %r, expected %r' % (got_sent, want_sent))
        return out, bad

    def replay(model, obligation):
        from .util import time_limit, Timeout
        cands = [([], [], [], []), ([1], [], [[5]], [1, 2]), ([], [3, 4], [[5, 6], [7]], [9]), ([2, 1], [3], [[9]], []), ([], [], [[], [8]], [4])]
        for back, rest, chain, memory in cands:
            inp = dict(back=back, iterator_rest=rest, chained=chain, memory=memory)
            try:
                with time_limit(2):
                    out, bad = one(back, rest, chain, memory)
            except Timeout:
                out, bad = 'no result within 2 s', ['terminates']
            except Exception as e:
                out, bad = 'raised %s' % type(e).__name__, ['no exception']
            if bad:
                return dict(confirmed=True, function='cpppo.automata.remembering.' + method, input=inp, observed=repr(out), required='; '.join(bad))
        return dict(confirmed=False)
    return replay


def remembering_specs():
    chain, nxt = chaining_specs()[:2]
    push = peeking_specs()[0]
    forget = Spec('remembering.forget', (F, 'remembering.forget'), params={}, fields=REM_FIELDS,
                  ensures=[('memory cleared', 'len(self.memory) == 0'),
                           ('the pending input is untouched', 'self._back == old(self._back) and rest(self._iter) == old(rest(self._iter)) and '
                                                             'flat(self._chain) == old(flat(self._chain)) and self._sent == old(self._sent)')],
                  raises={}, modifies=['self.memory'], hints=CHAIN_HINTS, returns='None', replay=replay_remembering('forget'),
                  note='frame: only self.memory may be assigned (the push-back stack holds the first symbol of the next frame after a peek)')
    rnext = Spec('remembering.__next__', (F, 'remembering.__next__'), params={}, fields=REM_FIELDS,
                 defs=dict(B='old(self._back)', R='old(rest(self._iter))', C='old(flat(self._chain))'),
                 ensures=[('delivers the next pending symbol', 'result == (B[len(B) - 1] if len(B) > 0 else (R[0] if len(R) > 0 else C[0]))'),
                          ('and remembers it', 'self.memory == old(self.memory) + [result]'),
                          ('sent counts net symbols', 'self._sent == old(self._sent) + 1')],
                 raises={'StopIteration': 'len(B) == 0 and len(R) == 0 and len(C) == 0'},
                 modifies=['self._back', 'self._sent', 'self._iter', 'self._chain', 'self.memory'],
                 callees={'chaining.__next__': nxt}, hints=CHAIN_HINTS, returns='Int', replay=replay_remembering('__next__'))
    rpush = Spec('remembering.push', (F, 'remembering.push'), params={'item': 'Int'}, fields=REM_FIELDS,
                 defs=dict(M='old(self.memory)'),
                 ensures=[('the pushed-back symbol is delivered next', 'self._back == old(self._back) + [item]'),
                          ('sent counts net symbols', 'self._sent == old(self._sent) - 1'),
                          ('it is taken back out of the memory', 'self.memory == (M[:len(M) - 1] if len(M) > 0 else M)')],
                 raises={'AssertionError': 'len(M) > 0 and M[len(M) - 1] != item'},
                 refuses=[('inconsistent push', 'len(M) > 0 and M[len(M) - 1] != item')], accepts=[('consistent', 'len(M) == 0 or M[len(M) - 1] == item')],
                 modifies=['self._back', 'self._sent', 'self.memory'], callees={'peeking.push': push, 'push': push}, hints=CHAIN_HINTS, returns='None', replay=replay_remembering('push'))
    return [forget, rnext, rpush]
