"""C01 — wire codec round-trip over the whole EtherNet/IP CIP message grammar.

P: produce encoders proved equal to the layout (see proof section below).
B: produced bytes == independent reference encoder (contracts/wire.py); real parser recovers every
   field; re-producing the parsed message regenerates the bytes — over a boundary lattice.
"""
from .util import distinct_keys
import itertools
import random
import struct

import z3

from . import wire

PROPERTY = 'C01'
LEVEL = 'proof'
LEVEL_TEXT = ('Clause (iii) of the property (the produced bytes are those of an independent encoder written from the CIP layout tables) is proved '
              'deductively on the real produce() code for: every scalar TYPE.produce (struct format read from the class constants; little/big endian, '
              'signed/unsigned, range), BOOL, SSTRING, STRING (truncate / NUL-fill / pad), enip_encode (24-byte header, length == len(payload)), '
              'EPATH / EPATH_padded / EPATH_single.produce over lists of any length of every segment kind and width (loop invariant over the segment '
              'layout tables), Logix.produce for all eight Read/Write Tag [Fragmented] request and reply forms, unconnected_send.produce, and the Forward '
              'Open network connection parameters (encode, decode(encode) == identity, re-encode on small/large switch). Clauses (i)/(ii) '
              '(parse recovers every field; re-produce regenerates the bytes) run through the DFA interpreter and are checked only on a bounded '
              'boundary lattice against the reference encoder contracts/wire.py (not counted as proved).')
LEVEL_NOTE = ('Nested producers inside Logix.produce / unconnected_send.produce (EPATH, typed_data, status) are opaque byte strings there (assumed); '
              'EPATH.produce itself is proved. Not under contract: status.produce, typed_data.produce, CPF.produce, CIP.produce, send_data/register, '
              'Object.produce, Connection_Manager.produce, identity/service items (bounded tier only). Floats are bounded-only (T2).')
TECHNIQUE = 'function-against-spec-function contracts on the real produce() encoders, VCs from the real AST, z3/cvc5; bounded produce/parse/re-produce lattice vs an independent reference encoder'
TRUSTED = ['T2 struct.pack of integer formats; iso-8859-1 encode is a length-preserving bijection on code points < 256',
           'assumed: octets_encode is the identity on byte strings; nested producers opaque inside Logix.produce / unconnected_send.produce']
ASSUMPTIONS = ['canonical domain: symbolic names / links <= 255 bytes, port 1..65535, numeric link 0..255, EPATH <= 255 words']


# ------------------------------------------------------------------------------------------------ bounded tier
def parse(machine, raw, path=None):
    import cpppo
    data = cpppo.dotdict()
    src = cpppo.peekable(raw)
    with machine as m:
        for _ in m.run(source=src, data=data, path=path):
            pass
        term = m.terminal
    return term, src.sent, data


def dd(x):
    """plain nested dict/list -> cpppo.dotdict tree (lists of dicts become lists of dotdicts)"""
    import cpppo
    if isinstance(x, cpppo.dotdict):
        return x
    if isinstance(x, dict):
        d = cpppo.dotdict()
        for k, v in x.items():
            d[k] = dd(v)
        return d
    if isinstance(x, list):
        return [dd(v) for v in x]
    return x


def seg_dict(s):
    if s[0] == 'port':
        return {'port': s[1], 'link': s[2]}
    return {s[0]: s[1]}


def plain(x):
    if hasattr(x, 'items'):
        return dict((k, plain(v)) for k, v in dict.items(x))
    if isinstance(x, (list, tuple)):
        return [plain(v) for v in x]
    if isinstance(x, bytearray):
        return bytes(x)
    if hasattr(x, 'tobytes'):
        return x.tobytes()
    return x


class Checker(object):
    def __init__(self):
        self.ev = 0
        self.distinct = set()
        self.violations = []
        self.samples = []

    def bad(self, key, obs, req):
        if len(self.violations) < 10:
            self.violations.append(dict(key=key, observed=str(obs)[:400], required=str(req)[:300]))

    def check(self, kind, key, produce, want, reparse=None):
        """produce() -> bytes must equal `want` (reference encoder); reparse(bytes) -> (ok, detail)"""
        self.ev += 1
        self.distinct.add((kind, key))
        try:
            got = bytes(produce())
        except Exception as e:
            self.bad('%s %s' % (kind, key), 'produce raised %s: %s' % (type(e).__name__, e), 'bytes %r' % (want,))
            return
        if got != want:
            self.bad('%s %s' % (kind, key), 'produced %r' % (got,), 'layout-table bytes %r' % (want,))
            return
        if reparse is not None:
            try:
                ok, detail = reparse(got)
            except Exception as e:
                ok, detail = False, 'parse raised %s: %s' % (type(e).__name__, e)
            if not ok:
                self.bad('%s %s (parse)' % (kind, key), detail, 'every encoded field recovered; re-produce regenerates the bytes')
        if len(self.samples) < 8 and len(want) > 6 and self.ev % 37 == 0:
            self.samples.append(dict(kind=kind, case=str(key)[:80], bytes=want.hex()[:80]))


INT_TYPES = [('USINT', 'B', 0xc6), ('SINT', 'b', 0xc2), ('UINT', '<H', 0xc7), ('INT', '<h', 0xc3), ('UDINT', '<I', 0xc8), ('DINT', '<i', 0xc4),
             ('ULINT', '<Q', 0xc9), ('LINT', '<q', 0xc5), ('WORD', '<H', 0xd2), ('DWORD', '<I', 0xd3)]


def bounds(fmt):
    n = struct.calcsize(fmt) * 8
    signed = fmt[-1].islower()
    lo, hi = (-(1 << (n - 1)), (1 << (n - 1)) - 1) if signed else (0, (1 << n) - 1)
    return sorted(set([lo, lo + 1, 0, 1, hi - 1, hi]))


def all_segments(thorough):
    segs = []
    for kind in ('class', 'instance', 'attribute', 'connection'):
        for v in (0, 1, 0xff, 0x100, 0xffff):
            segs.append((kind, v))
    for v in (0, 0xff, 0x100, 0xffff, 0x10000, 0xffffffff):
        segs.append(('element', v))
    for name in ('A', 'AB', 'Tag', 'x' * 40, u'\xe9t\xe9', 'y' * 255):
        segs.append(('symbolic', name))
    for port in (1, 14, 15, 16, 0xffff):
        segs.append(('port', port, 0))
        segs.append(('port', port, 255))
        segs.append(('port', port, '1.2.3.4'))
        segs.append(('port', port, '10.0.0.10'))
    return segs


def bounded(tier, seed):
    import cpppo
    from cpppo.server.enip import parser, logix, device
    from cpppo.server.enip import defaults
    from . import sim
    sim.fresh({'A': ('INT', 4)})            # a Message Router must exist for the Multiple Service Packet parser
    rng = random.Random(seed)
    C = Checker()
    thorough = tier != 'quick'
    # ---- (a) scalars
    for name, fmt, tt in INT_TYPES:
        cls = getattr(parser, name)
        for v in bounds(fmt):
            def rp(raw, cls=cls, v=v):
                t, s, d = parse(cls(context='v', terminal=True), raw, 'p')
                return (t and s == len(raw) and d.p.v == v and cls.produce(d.p.v) == raw), repr(plain(d))
            C.check('scalar', (name, v), lambda cls=cls, v=v: cls.produce(v), struct.pack(fmt, v), rp)
    for v in (0, 1, True, False, 2, 255):
        C.check('scalar', ('BOOL', v), lambda v=v: parser.BOOL.produce(v), b'\xff' if v else b'\x00',
                lambda raw, v=v: ((lambda r: (r[0] and r[2].p.v is bool(v), repr(plain(r[2]))))(parse(parser.BOOL(context='v', terminal=True), raw, 'p'))))
    for name, fmt in (('UINT_network', '>H'), ('INT_network', '>h'), ('UDINT_network', '>I'), ('DINT_network', '>i')):
        for v in bounds(fmt):
            C.check('scalar', (name, v), lambda name=name, v=v: getattr(parser, name).produce(v), struct.pack(fmt, v))
    for v in (0.0, 1.5, -2.25, 1e10):
        C.check('scalar', ('REAL', v), lambda v=v: parser.REAL.produce(v), struct.pack('<f', v))
        C.check('scalar', ('LREAL', v), lambda v=v: parser.LREAL.produce(v), struct.pack('<d', v))
    # ---- (b) strings
    for ln in (0, 1, 2, 3, 80, 254, 255):
        s = ''.join(chr(65 + (i % 26)) for i in range(ln))

        def rps(raw, s=s):
            t, sent, d = parse(parser.SSTRING(terminal=True), raw, 'p')
            return (t and sent == len(raw) and d.p.SSTRING.string == s and d.p.SSTRING.length == len(s) and parser.SSTRING.produce(d.p.SSTRING) == raw), repr(plain(d))[:200]
        C.check('SSTRING', ln, lambda s=s: parser.SSTRING.produce(s), bytes([ln]) + s.encode(), rps)
    for ln in (0, 1, 2, 3, 81, 254, 255, 256) + ((65534, 65535) if thorough else (1001,)):
        s = ''.join(chr(97 + (i % 26)) for i in range(ln))

        def rpS(raw, s=s):
            t, sent, d = parse(parser.STRING(terminal=True), raw, 'p')
            return (t and sent == len(raw) and d.p.STRING.string == s and d.p.STRING.length == len(s) and parser.STRING.produce(d.p.STRING) == raw), repr(plain(d))[:200]
        C.check('STRING', ln, lambda s=s: parser.STRING.produce(s), struct.pack('<H', ln) + wire.pad_even(s.encode()), rpS)
    # explicit length: truncate / NUL fill
    for s, ln in (('abc', 2), ('abc', 5), ('', 3), ('abcd', 4)):
        enc = (s.encode() + b'\x00' * ln)[:ln]
        C.check('SSTRING.length', (s, ln), lambda s=s, ln=ln: parser.SSTRING.produce(dd({'string': s, 'length': ln})), bytes([ln]) + enc)
        C.check('STRING.length', (s, ln), lambda s=s, ln=ln: parser.STRING.produce(dd({'string': s, 'length': ln})), struct.pack('<H', ln) + wire.pad_even(enc))
    # ---- (c) EPATH: every segment kind x width, 0..3 segments, padded / single
    segs = all_segments(thorough)
    paths = [[]] + [[s] for s in segs]
    for _ in range(60 if not thorough else 600):
        paths.append([rng.choice(segs) for _ in range(rng.choice([2, 3]))])
    for p in paths:
        if sum(len(wire.epath([s])) - 1 for s in p) > 510:
            continue

        def rpe(raw, p=p, cls=parser.EPATH):
            t, sent, d = parse(cls(terminal=True), raw, 'p')
            got = [plain(x) for x in d.p[cls.__name__].get('segment', [])] if cls.__name__ in d.p else None
            want = [seg_dict(s) for s in p]
            return (t and sent == len(raw) and got == want and cls.produce(d.p[cls.__name__]) == raw), 'segments %r' % (got,)
        C.check('EPATH', tuple(p), lambda p=p: parser.EPATH.produce(dd({'segment': [seg_dict(s) for s in p]})), wire.epath(p), rpe)
        C.check('EPATH_padded', tuple(p), lambda p=p: parser.EPATH_padded.produce(dd({'segment': [seg_dict(s) for s in p]})), wire.epath(p, padded=True),
                lambda raw, p=p: rpe(raw, p, parser.EPATH_padded))
    for s in [x for x in segs if x[0] == 'port']:
        C.check('EPATH_single', s, lambda s=s: parser.EPATH_single.produce(dd({'segment': [seg_dict(s)]})), wire.epath([s])[1:])
    # ---- (d) status
    for st, ext in ((0, []), (6, []), (5, [0]), (0xff, [0x2105]), (0xff, [0x2107, 1]), (1, [1, 2, 0xffff])):
        want = bytes([st, len(ext) if st else 0]) + (b''.join(struct.pack('<H', e) for e in ext) if st else b'')
        d0 = {'status': st}
        if ext:
            d0['status_ext'] = {'size': len(ext), 'data': list(ext)}

        def rpst(raw, st=st, ext=ext):
            t, sent, d = parse(parser.status(terminal=True), raw, 'p')
            dat = list(d.p.get('status_ext.data', []))
            return (t and sent == len(raw) and d.p.status == st and dat == (list(ext) if st else []) and parser.status.produce(d.p) == raw), repr(plain(d))
        C.check('status', (st, tuple(ext)), lambda d0=d0: parser.status.produce(dd(d0)), want, rpst)
    # ---- (e) Logix requests and replies
    names = ['A', 'Tag', 'SCADA_40001']
    for name in names:
        for elem in (None, 0, 255, 256, 70000):
            path = [('symbolic', name)] + ([('element', elem)] if elem is not None else [])
            pd = {'segment': [seg_dict(s) for s in path]}
            for elements in (1, 2, 0xffff):
                def rp_req(raw, ctx=None, fields=None):
                    t, sent, d = parse(logix.Logix.parser, raw)
                    ok = t and sent == len(raw) and all(d.get(k) == v for k, v in fields.items()) and bytes(logix.Logix.produce(d)) == raw
                    return ok, repr(plain(d))[:300]
                C.check('read_tag', (name, elem, elements), lambda pd=pd, elements=elements: logix.Logix.produce(dd({'path': pd, 'read_tag': {'elements': elements}})),
                        wire.read_tag(name, elem, elements), lambda raw, e=elements: rp_req(raw, fields={'service': 0x4c, 'read_tag.elements': e}))
                for off in (0, 6, 0xffffffff):
                    C.check('read_frag', (name, elem, elements, off),
                            lambda pd=pd, elements=elements, off=off: logix.Logix.produce(dd({'path': pd, 'read_frag': {'elements': elements, 'offset': off}})),
                            wire.read_frag(name, elem, elements, off),
                            lambda raw, e=elements, off=off: rp_req(raw, fields={'service': 0x52, 'read_frag.elements': e, 'read_frag.offset': off}))
            for tname, fmt, tt in INT_TYPES[:8] + [('REAL', '<f', 0xca), ('LREAL', '<d', 0xcb)]:
                if fmt in ('<f', '<d'):
                    vals = [1.5, -2.0]
                else:
                    vals = bounds(fmt)[:3] + bounds(fmt)[-1:]
                C.check('write_tag', (name, elem, tname), lambda pd=pd, tt=tt, vals=vals: logix.Logix.produce(dd({'path': pd, 'write_tag': {'type': tt, 'data': list(vals)}})),
                        wire.write_tag(name, elem, tt, vals),
                        lambda raw, tt=tt, vals=vals: rp_req(raw, fields={'service': 0x4d, 'write_tag.type': tt, 'write_tag.elements': len(vals), 'write_tag.data': list(vals)}))
                C.check('write_frag', (name, elem, tname),
                        lambda pd=pd, tt=tt, vals=vals: logix.Logix.produce(dd({'path': pd, 'write_frag': {'type': tt, 'elements': 100, 'offset': 8, 'data': list(vals)}})),
                        wire.write_frag(name, elem, tt, 100, 8, vals),
                        lambda raw, tt=tt, vals=vals: rp_req(raw, fields={'service': 0x53, 'write_frag.type': tt, 'write_frag.elements': 100, 'write_frag.offset': 8,
                                                                         'write_frag.data': list(vals)}))
    # replies: status x data
    for svc, ctx in ((0xcc, 'read_tag'), (0xd2, 'read_frag')):
        for st, ext in ((0, []), (6, []), (5, [0]), (0xff, [0x2105])):
            for tname, fmt, tt in (('INT', '<h', 0xc3), ('DINT', '<i', 0xc4), ('SINT', 'b', 0xc2), ('LINT', '<q', 0xc5), ('BOOL', 'B', 0xc1)):
                vals = [1, 0, 1] if tname == 'BOOL' else bounds(fmt)[:2] + [7]
                d0 = {'service': svc, 'status': st, ctx: {'type': tt, 'data': list(vals)}}
                if ext:
                    d0['status_ext'] = {'size': len(ext), 'data': list(ext)}
                want = bytes([svc, 0, st, len(ext) if st else 0]) + b''.join(struct.pack('<H', e) for e in ext)
                if st in (0, 6):
                    want += struct.pack('<H', tt) + wire.typed(tt, vals)

                def rp_rpy(raw, svc=svc, st=st, ctx=ctx, tt=tt, vals=vals):
                    t, sent, d = parse(logix.Logix.parser, raw)
                    ok = t and sent == len(raw) and d.service == svc and d.status == st and bytes(logix.Logix.produce(d)) == raw
                    if st in (0, 6):
                        got = list(d[ctx].data)
                        ok = ok and d[ctx].type == tt and got == ([bool(v) for v in vals] if tt == 0xc1 else list(vals))
                    return ok, repr(plain(d))[:300]
                C.check('read-reply', (svc, st, tname), lambda d0=d0: logix.Logix.produce(dd(d0)), want, rp_rpy)
    for svc in (0xcd, 0xd3):
        for st, ext in ((0, []), (0xff, [0x2107]), (5, [0])):
            d0 = {'service': svc, 'status': st}
            if ext:
                d0['status_ext'] = {'size': len(ext), 'data': list(ext)}
            want = bytes([svc, 0, st, len(ext) if st else 0]) + b''.join(struct.pack('<H', e) for e in ext)
            C.check('write-reply', (svc, st), lambda d0=d0: logix.Logix.produce(dd(d0)), want)
    # ---- (f) Multiple Service Packet
    for k in (1, 2, 4):
        reqs = [wire.read_tag(rng.choice(names), rng.choice([None, 1]), 1) for _ in range(k)]
        mem = []
        for r in reqs:
            t, s, d = parse(logix.Logix.parser, r)
            mem.append(d)

        def rp_m(raw, reqs=reqs):
            t, sent, d = parse(logix.Logix.parser, raw)
            got = [bytes(bytearray(m.input)) for m in d.multiple.request]
            return (t and sent == len(raw) and got == reqs and d.multiple.number == len(reqs)), repr(plain(d))[:300]
        C.check('multiple', k, lambda mem=mem: logix.Logix.produce(dd({'multiple': {'request': mem}})), wire.multiple(reqs), rp_m)
    # ---- (g) Unconnected Send, CPF, SendRRData, whole frames
    for cip in (wire.read_tag('A', 0, 1), wire.write_tag('Tag', 1, 0xc3, [1, 2, 3]), wire.read_tag('AB', None, 1)):
        for rp_ in ([('port', 1, 0)], [('port', 1, 0), ('port', 2, '10.0.0.1')], [('port', 17, 3)]):
            t, s, inner = parse(logix.Logix.parser, cip)
            us = {'service': 0x52, 'path': {'segment': [{'class': 6}, {'instance': 1}]}, 'priority': 5, 'timeout_ticks': 157,
                  'request': {'input': bytearray(cip)}, 'route_path': {'segment': [seg_dict(x) for x in rp_]}}
            wus = wire.unconnected_send(cip, route_path=rp_)

            def rp_us(raw, cip=cip, rp_=rp_):
                t, sent, d = parse(parser.unconnected_send(terminal=True), raw, 'p')
                u = d.p.unconnected_send
                return (t and sent == len(raw) and bytes(bytearray(u.request.input)) == cip and [plain(x) for x in u.route_path.segment] == [seg_dict(x) for x in rp_]
                        and u.priority == 5 and u.timeout_ticks == 157 and bytes(parser.unconnected_send.produce(u)) == raw), repr(plain(d))[:300]
            C.check('unconnected_send', (len(cip), tuple(rp_)), lambda us=us: parser.unconnected_send.produce(dd(us)), wus, rp_us)
            for sess, ctx in ((0, b'\x00' * 8), (0xfedcba98, b'ABCDEFGH')):
                frame = wire.send_rr_data(cip, session=sess, context=ctx, route_path=rp_)
                e = {'command': 0x6f, 'session_handle': sess, 'status': 0, 'options': 0, 'sender_context': {'input': bytearray(ctx)},
                     'CIP': {'send_data': {'interface': 0, 'timeout': 5, 'CPF': {'item': [{'type_id': 0}, {'type_id': 0xb2, 'unconnected_send': us}]}}}}

                def produce_frame(e=e):
                    d = dd(e)
                    d.input = bytearray(parser.CIP.produce(d))
                    return parser.enip_encode(d)

                def rp_f(raw, sess=sess, ctx=ctx, cip=cip):
                    t, sent, d = parse(parser.enip_machine(terminal=True), raw)
                    ok = t and sent == len(raw) and d.enip.command == 0x6f and d.enip.session_handle == sess and d.enip.length == len(raw) - 24 \
                        and bytes(bytearray(d.enip.sender_context.input)) == ctx
                    data = d
                    if ok:
                        src = cpppo.peekable(bytes(bytearray(d.enip.input)))
                        with parser.CIP(terminal=True) as m:
                            for _ in m.run(source=src, data=data, path='enip'):
                                pass
                            ok = m.terminal
                    if ok:
                        items = data.enip.CIP.send_data.CPF.item
                        ok = len(items) == 2 and items[0].type_id == 0 and items[1].type_id == 0xb2 and bytes(bytearray(items[1].unconnected_send.request.input)) == cip
                        ok = ok and bytes(parser.enip_encode(data.enip)) == raw
                    return ok, repr(plain(data))[:300]
                C.check('SendRRData frame', (len(cip), tuple(rp_), sess), produce_frame, frame, rp_f)
    # register / unregister / list services frames
    for sess in (0, 1, 0xffffffff):
        def pr(sess=sess):
            d = dd({'command': 0x65, 'session_handle': sess, 'status': 0, 'options': 0, 'sender_context': {'input': bytearray(8)},
                    'CIP': {'register': {'protocol_version': 1, 'options': 0}}})
            d.input = bytearray(parser.CIP.produce(d))
            return parser.enip_encode(d)
        C.check('register frame', sess, pr, wire.enip_frame(0x65, struct.pack('<HH', 1, 0), session=sess))
    # ---- (h) Forward Open NCP encode/decode (small and large)
    for size in (1, 2, 500, 511, 512, 4000, 0xffff):
        for variable in (0, 1):
            for priority in (0, 1, 2, 3):
                for typ in (0, 1, 2, 3):
                    for redundant in (0, 1):
                        for large in (False, True):
                            if not large and size > 511:
                                continue
                            C.ev += 1
                            C.distinct.add(('NCP', size, variable, priority, typ, redundant, large))
                            try:
                                c = defaults.Connection(size=size, variable=variable, priority=priority, type=typ, redundant=redundant, large=large)
                                ncp = c.encoding
                                if large:
                                    want = (redundant << 31) | (typ << 29) | (priority << 26) | (variable << 25) | size
                                else:
                                    want = (redundant << 15) | (typ << 13) | (priority << 10) | (variable << 9) | size
                                d2 = defaults.Connection(NCP=ncp, large=large).decoding
                                back = (d2.size, d2.variable, d2.priority, d2.type, d2.redundant)
                                if ncp != want or back != (size, variable, priority, typ, redundant):
                                    C.bad('NCP %r' % ((size, variable, priority, typ, redundant, large),), 'NCP 0x%x decoded %r' % (ncp, back),
                                          'NCP 0x%x (bit layout of the Forward Open network connection parameters) and the same fields back' % want)
                                # switching a connection given by its NCP between small and large keeps the parameters
                                if size <= 511:
                                    c3 = defaults.Connection(NCP=ncp, large=large)
                                    c3.large = not large
                                    want3 = ((redundant << 31) | (typ << 29) | (priority << 26) | (variable << 25) | size) if not large else \
                                        ((redundant << 15) | (typ << 13) | (priority << 10) | (variable << 9) | size)
                                    if c3.encoding != want3:
                                        C.bad('NCP re-encode %r -> large=%r' % ((size, variable, priority, typ, redundant, large), not large),
                                              'NCP 0x%x' % c3.encoding, 'NCP 0x%x' % want3)
                            except Exception as e:
                                C.bad('NCP %r' % ((size, variable, priority, typ, redundant, large),), 'raised %s: %s' % (type(e).__name__, e), 'encodes')
    # ---- (i) Get/Set Attribute Single/All
    for c_, i_, a_ in ((1, 1, 7), (2, 1, 1), (0x93, 3, 300)):
        p = [('class', c_), ('instance', i_), ('attribute', a_)]
        pd = {'segment': [seg_dict(s) for s in p]}
        C.check('get_attribute_single', (c_, i_, a_), lambda pd=pd: device.Object.produce(dd({'path': pd, 'get_attribute_single': True})), bytes([0x0e]) + wire.epath(p))
        C.check('set_attribute_single', (c_, i_, a_), lambda pd=pd: device.Object.produce(dd({'path': pd, 'set_attribute_single': {'data': [1, 2, 3, 250]}})),
                bytes([0x10]) + wire.epath(p) + bytes([1, 2, 3, 250]))
        C.check('get_attributes_all', (c_, i_), lambda pd=pd: device.Object.produce(dd({'path': {'segment': pd['segment'][:2]}, 'get_attributes_all': True})),
                bytes([0x01]) + wire.epath(p[:2]))
    for svc, ctx, st in ((0x8e, 'get_attribute_single', 0), (0x81, 'get_attributes_all', 0), (0x8e, 'get_attribute_single', 8)):
        d0 = {'service': svc, 'status': st, ctx: {'data': [1, 2, 255]}}
        want = bytes([svc, 0, st, 0]) + (bytes([1, 2, 255]) if st == 0 else b'')
        C.check('attribute-reply', (svc, st), lambda d0=d0: device.Object.produce(dd(d0)), want)
    return dict(evaluations=C.ev, distinct_nontrivial=len(C.distinct), distinct_keys=distinct_keys(C.distinct),
                rule='boundary lattice: every integer type at {min,min+1,0,1,max-1,max}, network-order variants, BOOL, REAL/LREAL; SSTRING/STRING lengths '
                     '{0,1,2,3,80,254,255,256,...} incl. odd lengths and explicit-length truncate/fill; EPATHs of 0..3 segments over every kind x width '
                     '(8/16/32 bit logical, symbolic odd/even/255, port <15 / =15 / extended, numeric and address links), padded and single variants; status with '
                     '0..3 extended words; Read/Write Tag [Fragmented] requests x element types x names x element widths and replies x status; Multiple Service '
                     'Packet; Unconnected Send x route paths; SendRRData and Register frames; all Forward Open network connection parameters (small/large); '
                     'attribute services. Each case: real produce() == reference encoder (contracts/wire.py), real parser recovers the fields, re-produce == bytes. '
                     'distinct = distinct (kind, case)',
                exhaustive=False, samples=C.samples, violations=C.violations[:20], seed=seed)




# ================================================================================================ proof tier
from pyvc.spec import Spec, Loop, Custom
from pyvc.vals import SeqV, IntV, BoolV, RefV, OpaqueV, ConstV, NONE, UnionV, USort, IntSeq, Unsupported, PyListV
from . import wire_spec as WS

P = "server/enip/parser.py"

SCALARS = [  # class, bytes, signed, big-endian
    ('USINT', 1, False, False), ('SINT', 1, True, False), ('UINT', 2, False, False), ('INT', 2, True, False),
    ('UDINT', 4, False, False), ('DINT', 4, True, False), ('ULINT', 8, False, False), ('LINT', 8, True, False),
    ('WORD', 2, False, False), ('DWORD', 4, False, False),
    ('UINT_network', 2, False, True), ('INT_network', 2, True, True), ('UDINT_network', 4, False, True), ('DINT_network', 4, True, True),
]


def _scalar_sampler(n):
    def sample(rng):
        edge = [0, 1, -1, 127, 128, 255, 256, -128, -129, (1 << (8 * n - 1)) - 1, 1 << (8 * n - 1), -(1 << (8 * n - 1)), -(1 << (8 * n - 1)) - 1,
                (1 << (8 * n)) - 1, 1 << (8 * n)]
        return dict(value=rng.choice(edge + [rng.randint(-(1 << (8 * n)), 1 << (8 * n)) for _ in range(4)]))
    return sample


def _scalar_runner(cls):
    def run(vals):
        from cpppo.server.enip import parser
        try:
            return ('return', getattr(parser, cls).produce(vals['value']))
        except Exception as e:
            return ('raise', 'struct.error' if type(e).__name__ == 'error' else type(e).__name__)
    return run


def scalar_specs():
    out = []
    for cls, n, signed, big in SCALARS:
        lo, hi = (-(1 << (8 * n - 1)), (1 << (8 * n - 1)) - 1) if signed else (0, (1 << (8 * n)) - 1)
        enc = ('be(value, %d)' % n) if big else ('le(value, %d)' % n)
        out.append(Spec('%s.produce' % cls, (P, 'TYPE.produce'), params={'value': 'Int'}, cls_name=cls,
                        ensures=[('layout: %d byte %s %s-endian twos complement' % (n, 'signed' if signed else 'unsigned', 'big' if big else 'little'),
                                  'result == ' + enc), ('size', 'len(result) == %d' % n)],
                        raises={'struct.error': 'not (%d <= value <= %d)' % (lo, hi)},
                        refuses=[('out-of-range', 'not (%d <= value <= %d)' % (lo, hi))], accepts=[('in-range', '%d <= value <= %d' % (lo, hi))],
                        modifies=[], hints=dict(funcs=WS.FUNCS, sample=_scalar_sampler(n), concrete=_scalar_runner(cls)),
                        note='TYPE.produce with cls = %s: struct_format read from the class constant in the AST' % cls))
    out.append(Spec('BOOL.produce', (P, 'BOOL.produce'), params={'value': 'Int'}, requires='0 <= value <= 255',
                    ensures=[('layout: 0x00 for false, 0xFF for any other value', 'result == (bytes_of(0) if value == 0 else bytes_of(255))')],
                    raises={}, modifies=[], inline=['produce'], hints=dict(funcs=WS.FUNCS, sample=lambda rng: dict(value=rng.choice([0, 1, 2, 254, 255, rng.randint(0, 255)])),
                                                                         concrete=_scalar_runner('BOOL'))))
    return out


def string_value(eng, name, st):
    """value = {string: text, length?: int or None}"""
    st = st.clone()
    rid = eng.new_id()
    s = SeqV(z3.Const('_g_string', IntSeq), 'str')
    j = z3.Int('sj')
    st.pc.append(z3.ForAll([j], z3.Implies(z3.And(0 <= j, j < z3.Length(s.t)), z3.And(s.t[j] >= 0, s.t[j] < 256))))
    isn = z3.Bool('_g_length.is_none')
    ln = UnionV([(isn, NONE), (z3.Not(isn), IntV(z3.Int('_g_length')))])
    st.heap[(rid, 'string')] = (z3.BoolVal(True), s)
    st.heap[(rid, 'length')] = (z3.Bool('_g_length_given'), ln)
    st.heap[(rid, '__closed__')] = True
    st.heap[(rid, '__keys__')] = ('string', 'length')
    eng.init_vals['_g_string'] = SeqV(s.t, 'bytes')          # iso-8859-1: one byte per code point
    eng.init_vals['_g_length'] = ln
    eng.init_vals['_g_length_given'] = BoolV(z3.Bool('_g_length_given'))
    eng.tracked_refs.add(rid)
    return RefV(rid, 'rec'), st


def string_specs():
    defs = dict(L='_g_length if (_g_length_given and _g_length is not None) else len(_g_string)',
                BODY='(_g_string[:L] if len(_g_string) >= L else _g_string + zeros(L - len(_g_string)))')
    ss = Spec('SSTRING.produce', (P, 'SSTRING.produce'), params={'value': string_value}, defs=defs,
              requires='implies(_g_length_given and _g_length is not None, _g_length >= 0)',
              ensures=[('layout: one length byte, then the string truncated / NUL-filled to that length', 'result == u8(L) + BODY')],
              raises={'AssertionError': 'L >= 256'}, refuses=[('too-long', 'L >= 256')], accepts=[('fits', 'L < 256')],
              modifies=['value.length'], inline=['produce'], hints=dict(funcs=WS.FUNCS))
    s = Spec('STRING.produce', (P, 'STRING.produce'), params={'value': string_value}, defs=defs,
             requires='implies(_g_length_given and _g_length is not None, _g_length >= 0)',
             ensures=[('layout: 16-bit length, the string truncated / NUL-filled to that length, one pad byte iff the length is odd',
                       'result == u16(L) + pad_even(BODY)')],
             raises={'AssertionError': 'L >= 65536'}, refuses=[('too-long', 'L >= 65536')], accepts=[('fits', 'L < 65536')],
             modifies=['value.length'], inline=['produce'], hints=dict(funcs=WS.FUNCS))
    return [ss, s]


def octets_identity(eng, recv, args, kw, st, n):
    """ASSUMED: octets_encode(bytes-like) returns the same bytes"""
    v = args[0]
    if not isinstance(v, SeqV):
        raise Unsupported('octets_encode of %r' % (v,))
    yield st, SeqV(v.t, 'bytes')


def enip_data(eng, name, st):
    st = st.clone()
    rid, cid = eng.new_id(), eng.new_id()
    ctx = SeqV(z3.Const('_g_context', IntSeq), 'bytearray')
    st.heap[(cid, 'input')] = (z3.BoolVal(True), ctx)
    st.heap[(cid, '__closed__')] = True
    st.heap[(cid, '__keys__')] = ('input',)
    flds = {'command': IntV(z3.Int('_g_command')), 'session_handle': IntV(z3.Int('_g_session')), 'status': IntV(z3.Int('_g_status')),
            'options': IntV(z3.Int('_g_options')), 'sender_context': RefV(cid, 'rec')}
    for k, v in flds.items():
        st.heap[(rid, k)] = (z3.BoolVal(True), v)
    pay = SeqV(z3.Const('_g_payload', IntSeq), 'bytearray')
    st.heap[(rid, 'input')] = (z3.Bool('_g_has_input'), pay)
    st.heap[(rid, '__closed__')] = True
    st.heap[(rid, '__keys__')] = tuple(flds) + ('input',)
    for k in ('_g_command', '_g_session', '_g_status', '_g_options'):
        eng.init_vals[k] = IntV(z3.Int(k))
    eng.init_vals['_g_context'] = SeqV(ctx.t, 'bytes')
    eng.init_vals['_g_payload'] = SeqV(pay.t, 'bytes')
    eng.init_vals['_g_has_input'] = BoolV(z3.Bool('_g_has_input'))
    return RefV(rid, 'rec'), st


def enip_encode_spec():
    return Spec('enip_encode', (P, 'enip_encode'), params={'data': enip_data},
                requires='0 <= _g_command <= 0xffff and 0 <= _g_session <= 0xffffffff and 0 <= _g_status <= 0xffffffff and 0 <= _g_options <= 0xffffffff '
                         'and len(_g_payload) <= 0xffff',
                defs=dict(PAY='_g_payload if _g_has_input else bytes_of()'),
                ensures=[('layout: 24-byte encapsulation header with length == len(payload), then the payload',
                          'result == u16(_g_command) + u16(len(PAY)) + u32(_g_session) + u32(_g_status) + _g_context + u32(_g_options) + PAY')],
                raises={}, modifies=[], inline=['produce'], callees={'octets_encode': octets_identity},
                hints=dict(funcs=WS.FUNCS),
                note='octets_encode by assumed contract (identity on byte strings)')




# ---- records for produce() contracts ---------------------------------------------------------------
def build_rec(eng, st, schema, track=False):
    """schema: {field: ('int', ghost) | ('optint', ghost) | ('bytes', ghost) | ('ints', ghost) | ('opaque', ghost) | ('const', v)
                       | ('maybe', present-ghost, inner) | {nested schema}}"""
    rid = eng.new_id()
    keys = []
    for k, sp in schema.items():
        present = z3.BoolVal(True)
        if isinstance(sp, tuple) and sp[0] == 'maybe':
            present = z3.Bool(sp[1])
            eng.init_vals[sp[1]] = BoolV(present)
            sp = sp[2]
        if isinstance(sp, dict):
            v, st = build_rec(eng, st, sp)
        elif sp[0] == 'int':
            v = IntV(z3.Int(sp[1]))
            eng.init_vals[sp[1]] = v
        elif sp[0] == 'bytes':
            v = SeqV(z3.Const(sp[1], IntSeq), 'bytearray')
            eng.init_vals[sp[1]] = SeqV(v.t, 'bytes')
        elif sp[0] == 'ints':
            v = SeqV(z3.Const(sp[1], IntSeq), 'list')
            eng.init_vals[sp[1]] = v
        elif sp[0] == 'opaque':
            v = OpaqueV(z3.Const(sp[1], USort), sp[1])
            eng.init_vals[sp[1]] = v
        elif sp[0] == 'const':
            v = sp[1] if hasattr(sp[1], '__class__') and sp[1].__class__.__module__.startswith('pyvc') else IntV(sp[1])
        else:
            raise Unsupported('schema %r' % (sp,))
        st.heap[(rid, k)] = (present, v)
        keys.append(k)
    st.heap[(rid, '__closed__')] = True
    st.heap[(rid, '__keys__')] = tuple(keys)
    if track:
        eng.tracked_refs.add(rid)
    return RefV(rid, 'rec'), st


def rec_param(schema):
    def build(eng, name, st):
        for g in ('_g_epath', '_g_typed', '_g_statusbytes', '_g_routepath'):
            eng.init_vals[g] = SeqV(z3.Const(g, IntSeq), 'bytes')
        return build_rec(eng, st.clone(), schema, track=True)
    return build


def opaque_callee(ghost):
    """ASSUMED contract of a nested producer: returns some byte string (named by a ghost constant)"""
    def call(eng, recv, args, kw, st, n):
        v = SeqV(z3.Const(ghost, IntSeq), 'bytes')
        eng.init_vals.setdefault(ghost, v)
        yield st, v
    return call


NESTED = {'EPATH.produce': opaque_callee('_g_epath'), 'typed_data.produce': opaque_callee('_g_typed'), 'status.produce': opaque_callee('_g_statusbytes'),
          'route_path.produce': opaque_callee('_g_routepath'), 'EPATH_padded.produce': opaque_callee('_g_routepath')}
L = "server/enip/logix.py"


def logix_produce_specs():
    def mk(name, schema, requires, ensures):
        return Spec('Logix.produce[%s]' % name, (L, 'Logix.produce'), params={'data': rec_param(schema)}, requires=requires,
                    ensures=[('layout', ensures)], raises={}, modifies=['data.service', 'data.write_tag', 'data.write_frag'],
                    callees=NESTED, inline=['produce'], hints=dict(funcs=WS.FUNCS),
                    note='nested EPATH / typed_data / status producers by assumed contract (opaque byte strings); scalar producers inlined')
    path = ('opaque', '_g_path')
    specs = [
        mk('read_tag request', {'service': ('maybe', '_g_service_given', ('const', 0x4c)), 'path': path, 'read_tag': {'elements': ('int', '_g_elements')}},
           '0 <= _g_elements <= 0xffff', 'result == u8(0x4c) + _g_epath + u16(_g_elements)'),
        mk('read_frag request', {'service': ('maybe', '_g_service_given', ('const', 0x52)), 'path': path,
                                 'read_frag': {'elements': ('int', '_g_elements'), 'offset': ('int', '_g_offset')}},
           '0 <= _g_elements <= 0xffff and 0 <= _g_offset <= 0xffffffff', 'result == u8(0x52) + _g_epath + u16(_g_elements) + u32(_g_offset)'),
        mk('write_tag request', {'service': ('maybe', '_g_service_given', ('const', 0x4d)), 'path': path,
                                 'write_tag': {'type': ('int', '_g_type'), 'data': ('ints', '_g_data'), 'elements': ('maybe', '_g_elements_given', ('int', '_g_elements'))}},
           '0 <= _g_type <= 0xffff and len(_g_data) <= 0xffff and 0 <= _g_elements <= 0xffff',
           'result == u8(0x4d) + _g_epath + u16(_g_type) + u16(_g_elements if _g_elements_given else len(_g_data)) + _g_typed'),
        mk('write_frag request', {'service': ('maybe', '_g_service_given', ('const', 0x53)), 'path': path,
                                  'write_frag': {'type': ('int', '_g_type'), 'data': ('ints', '_g_data'), 'elements': ('int', '_g_elements'),
                                                 'offset': ('maybe', '_g_offset_given', ('int', '_g_offset'))}},
           '0 <= _g_type <= 0xffff and 0 <= _g_elements <= 0xffff and 0 <= _g_offset <= 0xffffffff',
           'result == u8(0x53) + _g_epath + u16(_g_type) + u16(_g_elements) + u32(_g_offset if _g_offset_given else 0) + _g_typed'),
    ]
    for svc, ctx in ((0xcc, 'read_tag'), (0xd2, 'read_frag')):
        specs.append(mk('%s reply' % ctx, {'service': ('const', svc), 'status': ('int', '_g_status'), ctx: {'type': ('int', '_g_type'), 'data': ('ints', '_g_data')}},
                        '0 <= _g_type <= 0xffff and 0 <= _g_status <= 255',
                        'result == u8(%d) + bytes_of(0) + _g_statusbytes + ((u16(_g_type) + _g_typed) if _g_status in (0x00, 0x06) else bytes_of())' % svc))
    for svc, ctx in ((0xcd, 'write_tag'), (0xd3, 'write_frag')):
        specs.append(mk('%s reply' % ctx, {'service': ('const', svc), 'status': ('int', '_g_status')}, '0 <= _g_status <= 255',
                        'result == u8(%d) + bytes_of(0) + _g_statusbytes' % svc))
    return specs


def unconnected_send_specs():
    req = {'service': ('const', 0x52), 'path': ('opaque', '_g_path'), 'priority': ('int', '_g_priority'), 'timeout_ticks': ('int', '_g_ticks'),
           'request': {'input': ('bytes', '_g_request')}, 'route_path': ('maybe', '_g_has_route', ('opaque', '_g_route'))}
    callees = dict(NESTED)
    callees['octets_encode'] = octets_identity
    s1 = Spec('unconnected_send.produce[request]', (P, 'unconnected_send.produce'), params={'data': rec_param(req)},
              requires='0 <= _g_priority <= 255 and 0 <= _g_ticks <= 255 and len(_g_request) <= 0xffff',
              ensures=[('layout: 0x52, path, priority, ticks, request length, request, pad byte iff odd, padded route path',
                        'result == u8(0x52) + _g_epath + u8(_g_priority) + u8(_g_ticks) + u16(len(_g_request)) + pad_even(_g_request) + _g_routepath')],
              raises={}, modifies=[], callees=callees, inline=['produce'], hints=dict(funcs=WS.FUNCS))
    rpy = {'service': ('const', 0xd2), 'status': ('int', '_g_status'), 'request': {'input': ('bytes', '_g_request')}}
    s2 = Spec('unconnected_send.produce[reply]', (P, 'unconnected_send.produce'), params={'data': rec_param(rpy)},
              requires='0 <= _g_status <= 255',
              ensures=[('error reply: 0xD2, reserved, status; otherwise the bare encapsulated reply',
                        'result == ((u8(0xd2) + bytes_of(0) + _g_statusbytes) if _g_status != 0 else _g_request)')],
              raises={}, modifies=[], callees=callees, inline=['produce'], hints=dict(funcs=WS.FUNCS))
    return [s1, s2]


CL = "server/enip/client.py"


def frag_wrapper_fields(eng, fdef):
    """the assignments of the fixed-size fields of the Unconnected Send wrapper in client.unconnected_send (inside `if send_path or route_path:`)"""
    import ast
    for n in ast.walk(fdef):
        if isinstance(n, ast.If) and ast.unparse(n.test) == 'send_path or route_path':
            want = ('us.service', 'us.status', 'us.priority', 'us.timeout_ticks')
            stmts = [x for x in n.body if isinstance(x, ast.Assign) and len(x.targets) == 1 and ast.unparse(x.targets[0]) in want]
            if sorted(ast.unparse(x.targets[0]) for x in stmts) != sorted(want):
                raise Unsupported('stale contract: the wrapper branch of client.unconnected_send does not assign service / status / priority / timeout_ticks once each')
            return stmts
    raise Unsupported('stale contract: client.unconnected_send has no `if send_path or route_path:` branch')


def replay_wrapper_fields(model, obligation):
    """the real client method with the transport replaced: the wrapper it sends is parsed back by the real parser and compared with the values supplied"""
    import cpppo
    from cpppo.server.enip import client, parser, logix

    class Offline(client.client):
        def __init__(self):
            self.session, self.dialect, self.profiler, self.conn, self.udp, self.sent = 0x12345678, logix.Logix, None, None, False, []

        def send(self, request, timeout=None):
            self.sent.append(bytes(request))
    m = model or {}
    cands = []
    try:
        cands.append((None if m.get('priority_time_tick.is_none') else int(m.get('priority_time_tick', 0)), None if m.get('timeout_ticks.is_none') else int(m.get('timeout_ticks', 0))))
    except Exception:
        pass
    cands += [(0, 0), (0, 255), (10, 0), (1, 1), (15, 255), (7, 155), (None, None), (None, 0), (0, None)]
    for prio, ticks in cands:
        if (prio is not None and not 0 <= prio <= 255) or (ticks is not None and not 0 <= ticks <= 255):
            continue
        cli = Offline()
        req = cli.read('SCADA[12]', elements=3, offset=0, send=False)
        cli.unconnected_send(request=req, route_path='1/0', send_path='@6/1', priority_time_tick=prio, timeout_ticks=ticks, sender_context=b'ctx')
        data = cpppo.dotdict()
        with parser.enip_machine(context='enip', terminal=True) as mach:
            for _ in mach.run(source=cpppo.chainable(cli.sent[-1]), data=data):
                pass
        with parser.CIP(terminal=True) as mach:
            for _ in mach.run(source=cpppo.peekable(data.enip.input), data=data, path='enip'):
                pass
        us = data.enip.CIP.send_data.CPF.item[1].unconnected_send
        want = (cli.priority_time_tick if prio is None else prio, cli.timeout_ticks if ticks is None else ticks)
        if (us.priority, us.timeout_ticks) != want or us.service != 0x52:
            return dict(confirmed=True, function='cpppo.server.enip.client.client.unconnected_send', input='priority_time_tick=%r, timeout_ticks=%r' % (prio, ticks),
                        observed='the wrapper sent parses back to service 0x%02x priority %r timeout_ticks %r' % (us.service, us.priority, us.timeout_ticks),
                        required='priority %r timeout_ticks %r: the values supplied (the client defaults only where none was supplied)' % want)
    return dict(confirmed=False)


def client_wrapper_spec():
    us_rec = ('Rec', {'service?': 'Int', 'status?': 'Int', 'priority?': 'Int', 'timeout_ticks?': 'Int'})
    return Spec('client.unconnected_send[wrapper fields]', (CL, 'client.unconnected_send'), fragment=frag_wrapper_fields, cls_name='client',
                params={'priority_time_tick': 'OptInt', 'timeout_ticks': 'OptInt'}, fields={'priority_time_tick': 'Int', 'timeout_ticks': 'Int'},
                hints=dict(locals={'us': us_rec}),
                requires='implies(priority_time_tick is not None, 0 <= priority_time_tick <= 255) and implies(timeout_ticks is not None, 0 <= timeout_ticks <= 255)',
                ensures=[('the service code of Unconnected Send, status 0', 'us.service == 0x52 and us.status == 0'),
                         ('a supplied priority/time_tick is the one encoded (0 included)', 'implies(priority_time_tick is not None, us.priority == priority_time_tick)'),
                         ('the client default only where none was supplied', 'implies(priority_time_tick is None, us.priority == self.priority_time_tick)'),
                         ('a supplied timeout_ticks is the one encoded (0 included)', 'implies(timeout_ticks is not None, us.timeout_ticks == timeout_ticks)'),
                         ('the client default only where none was supplied (ticks)', 'implies(timeout_ticks is None, us.timeout_ticks == self.timeout_ticks)')],
                raises={}, modifies=['us.service', 'us.status', 'us.priority', 'us.timeout_ticks'], replay=replay_wrapper_fields,
                note='FRAGMENT (T9): the four assignments of the fixed-size wrapper fields in client.unconnected_send; the record `us` is then encoded by '
                     'unconnected_send.produce (its own contract above); path / route_path / request are built by the statements around the fragment (not under contract)')


def encapsulation_specs():
    """register / send_data / connection_ID / connection_data / CPF_service producers (scalar producers inlined, CPF.produce and octets by assumed contract)"""
    callees = dict(NESTED)
    callees['octets_encode'] = octets_identity
    callees['CPF.produce'] = opaque_callee('_g_cpf')

    def mk(name, target, schema, requires, ensures, extra=()):
        def build(eng, nm, st):
            eng.init_vals['_g_cpf'] = SeqV(z3.Const('_g_cpf', IntSeq), 'bytes')
            return rec_param(schema)(eng, nm, st)
        return Spec(name, (P, target), params={'data': build}, requires=requires, ensures=[('layout', ensures)] + list(extra), raises={}, modifies=[],
                    callees=callees, inline=['produce'], hints=dict(funcs=WS.FUNCS),
                    note='scalar producers inlined; CPF.produce / octets_encode by assumed contract (opaque byte string / identity)')
    return [
        mk('register.produce', 'register.produce', {'protocol_version': ('int', '_g_pv'), 'options': ('int', '_g_opt')},
           '0 <= _g_pv <= 0xffff and 0 <= _g_opt <= 0xffff', 'result == u16(_g_pv) + u16(_g_opt)', [('size', 'len(result) == 4')]),
        mk('send_data.produce', 'send_data.produce', {'interface': ('int', '_g_if'), 'timeout': ('int', '_g_to'), 'CPF': ('opaque', '_g_cpfdata')},
           '0 <= _g_if <= 0xffffffff and 0 <= _g_to <= 0xffff', 'result == u32(_g_if) + u16(_g_to) + _g_cpf'),
        mk('connection_ID.produce', 'connection_ID.produce', {'connection': ('maybe', '_g_conn_given', ('int', '_g_conn'))},
           '0 <= _g_conn <= 0xffffffff', 'result == u32(_g_conn if _g_conn_given else 0)', [('size', 'len(result) == 4')]),
        mk('connection_data.produce', 'connection_data.produce', {'sequence': ('int', '_g_seq'), 'request': {'input': ('bytes', '_g_request')}},
           '0 <= _g_seq <= 0xffff', 'result == u16(_g_seq) + _g_request'),
        mk('CPF_service.produce', 'CPF_service.produce', {'CPF': ('maybe', '_g_cpf_given', ('opaque', '_g_cpfdata'))},
           'True', 'result == (_g_cpf if _g_cpf_given else bytes_of())'),
    ]


# ------------------------------------------------------------------------------------------------ CPF.produce (item count enumerated 0..2, all field values)
CPF_KINDS = {0x0001: 'legacy_CPF_0x0001', 0x00a1: 'connection_ID', 0x00b1: 'connection_data', 0x00b2: 'unconnected_send',
             0x0100: 'communications_service', 0x000c: 'identity_object'}


def produced_by_item(eng, recv, args, kw, st, n):
    """ASSUMED contract of an item parser's produce(): some byte string determined by the sub-record it is given (one ghost per item)"""
    a = args[0]
    if not isinstance(a, OpaqueV):
        raise Unsupported('item producer argument %r' % (a,))
    g = '_g_prod_' + a.what
    v = SeqV(z3.Const(g, IntSeq), 'bytes')
    eng.init_vals.setdefault(g, v)
    yield st, v


def cpf_data(nitems, with_item=True):
    def build(eng, name, st):
        st = st.clone()
        items = []
        for j in range(nitems):
            sch = {'type_id': ('int', '_g_type%d' % j), 'input': ('maybe', '_g_input%d_given' % j, ('bytes', '_g_input%d' % j))}
            for nm in CPF_KINDS.values():
                sch[nm] = ('maybe', '_g_sub%d_%s_given' % (j, nm), ('opaque', 'sub%d_%s' % (j, nm)))
            r, st = build_rec(eng, st, sch, track=True)
            items.append(r)
            for nm in CPF_KINDS.values():
                g = '_g_prod_sub%d_%s' % (j, nm)
                eng.init_vals[g] = SeqV(z3.Const(g, IntSeq), 'bytes')
        top = {}
        rid = eng.new_id()
        if with_item:
            st2, ref = eng.new_list(st, PyListV(items))
            st = st2
            st.heap[(rid, 'item')] = (z3.BoolVal(True), ref)
            st.heap[(rid, 'count')] = (z3.Bool('_g_count_given'), IntV(z3.Int('_g_count')))
            keys = ('item', 'count')
        else:
            st.heap[(rid, 'count')] = (z3.BoolVal(True), IntV(z3.Int('_g_count')))
            keys = ('count',)
        eng.init_vals['_g_count'] = IntV(z3.Int('_g_count'))
        st.heap[(rid, '__closed__')] = True
        st.heap[(rid, '__keys__')] = keys
        eng.tracked_refs.add(rid)
        return RefV(rid, 'rec'), st
    return build


def cpf_item_layout(j):
    known = ' or '.join('_g_type%d == %d' % (j, t) for t in CPF_KINDS)
    prod = 'bytes_of()'
    for t, nm in CPF_KINDS.items():
        prod = '(_g_prod_sub%d_%s if _g_type%d == %d else %s)' % (j, nm, j, t, prod)
    body = '(%s if (%s) else (_g_input%d if _g_input%d_given else bytes_of()))' % (prod, known, j, j)
    return 'u16(_g_type%d) + u16(len(%s)) + %s' % (j, body, body), known, body


def cpf_specs():
    callees = {'octets_encode': octets_identity}
    for nm in CPF_KINDS.values():
        callees['%s.produce' % nm] = produced_by_item
    out = [Spec('CPF.produce[no items: count == 0]', (P, 'CPF.produce'), params={'data': cpf_data(0, with_item=False)}, requires='_g_count == 0',
                ensures=[('layout: an item count of zero', 'result == u16(0)')], raises={}, modifies=[], callees=callees, inline=['produce'],
                hints=dict(funcs=WS.FUNCS), note='a CPF container without entries')]
    for n in (0, 1, 2):
        req, lay = [], 'u16(%d)' % n
        for j in range(n):
            item, known, body = cpf_item_layout(j)
            lay += ' + ' + item
            req.append('0 <= _g_type%d <= 0xffff and len(%s) <= 0xffff' % (j, body))
            for t, nm in CPF_KINDS.items():
                req.append('implies(_g_type%d == %d, _g_sub%d_%s_given)' % (j, t, j, nm))
        mods = []
        out.append(Spec('CPF.produce[%d items]' % n, (P, 'CPF.produce'), params={'data': cpf_data(n)}, requires=' and '.join(req) or 'True',
                        ensures=[('layout: count, then type id, length and payload of every item in order (a known item type is re-produced by its parser class)',
                                  'result == ' + lay)],
                        raises={}, modifies=['#%d.input' % (j + 1) for j in range(n)], callees=callees, inline=['produce'], hints=dict(funcs=WS.FUNCS),
                        note='ITEM COUNT ENUMERATED (0, 1, 2 items: what SendRRData / SendUnitData carry), all field values; the item producers are assumed '
                             'callees (one opaque byte string per item); not proved for general N. Frame: only the .input of each item record (#k = k-th item) is assigned'))
    return out


DV = "server/enip/device.py"


def connection_manager_specs():
    def mk(name, schema, requires, ensures, modifies=()):
        return Spec('Connection_Manager.produce[%s]' % name, (DV, 'Connection_Manager.produce'), params={'data': rec_param(schema)}, requires=requires,
                    ensures=[('layout', ensures)], raises={}, modifies=list(modifies), callees=NESTED, inline=['produce'], hints=dict(funcs=WS.FUNCS),
                    note='nested EPATH / status producers by assumed contract (opaque byte strings); scalar producers inlined. The Forward Open request '
                         '(constructs defaults.Connection objects) and the success replies with application data are bounded-only')
    ids = {'connection_serial': ('int', '_g_cs'), 'O_vendor': ('int', '_g_ov'), 'O_serial': ('int', '_g_os')}
    rng = '0 <= _g_cs <= 0xffff and 0 <= _g_ov <= 0xffff and 0 <= _g_os <= 0xffffffff'
    fc = dict(ids, priority_time_tick=('int', '_g_ptt'), timeout_ticks=('int', '_g_tt'), connection_path=('opaque', '_g_cpath'))
    fo_fail = dict(ids, remaining_path_size=('maybe', '_g_rps_given', ('int', '_g_rps')))
    return [
        mk('forward_close request', {'service': ('maybe', '_g_service_given', ('const', 0x4e)), 'path': ('opaque', '_g_path'), 'forward_close': fc},
           rng + ' and 0 <= _g_ptt <= 255 and 0 <= _g_tt <= 255',
           'result == u8(0x4e) + _g_epath + u8(_g_ptt) + u8(_g_tt) + u16(_g_cs) + u16(_g_ov) + u32(_g_os) + _g_routepath', ['data.service']),
    ] + [
        mk('forward_open %s reply, failure' % nm, {'service': ('const', svc), 'status': ('int', '_g_status'), 'forward_open': fo_fail},
           rng + ' and 1 <= _g_status <= 255 and 0 <= _g_rps <= 255',
           'result == u8(%d) + bytes_of(0) + _g_statusbytes + u16(_g_cs) + u16(_g_ov) + u32(_g_os) + ((u8(_g_rps) + bytes_of(0)) if _g_rps_given else bytes_of())' % svc)
        for nm, svc in (('small', 0xd4), ('large', 0xdb))
    ] + [
        mk('forward_open %s reply, success, no application data' % nm,
           {'service': ('const', svc), 'status': ('const', 0), 'forward_open': dict(ids, O_T={'connection_ID': ('int', '_g_otid'), 'API': ('int', '_g_otapi')},
                                                                                        T_O={'connection_ID': ('int', '_g_toid'), 'API': ('int', '_g_toapi')})},
           rng + ' and 0 <= _g_otid <= 0xffffffff and 0 <= _g_toid <= 0xffffffff and 0 <= _g_otapi <= 0xffffffff and 0 <= _g_toapi <= 0xffffffff',
           'result == u8(%d) + bytes_of(0) + _g_statusbytes + u32(_g_otid) + u32(_g_toid) + u16(_g_cs) + u16(_g_ov) + u32(_g_os) + u32(_g_otapi) + u32(_g_toapi) '
           '+ u8(0) + bytes_of(0)' % svc, ['data.forward_open.application'])
        for nm, svc in (('small', 0xd4), ('large', 0xdb))
    ]


def object_produce_specs():
    def mk(name, schema, requires, ensures, modifies=()):
        return Spec('Object.produce[%s]' % name, (DV, 'Object.produce'), params={'data': rec_param(schema)}, requires=requires,
                    ensures=[('layout', ensures)], raises={}, modifies=list(modifies), callees=NESTED, inline=['produce'], hints=dict(funcs=WS.FUNCS),
                    note='nested EPATH / typed_data / status producers by assumed contract (opaque byte strings); scalar producers inlined; '
                         'Get Attribute List and the generic service-code forms are bounded-only')
    path = ('opaque', '_g_path')
    out = []
    for nm, ctx, svc in (('get_attributes_all', 'get_attributes_all', 0x01), ('get_attribute_single', 'get_attribute_single', 0x0e)):
        out.append(mk('%s request' % nm, {'service': ('maybe', '_g_service_given', ('const', svc)), 'path': path, ctx: ('const', True)}, 'True',
                      'result == u8(%d) + _g_epath' % svc, ['data.service']))
    out.append(mk('set_attribute_single request', {'service': ('maybe', '_g_service_given', ('const', 0x10)), 'path': path,
                                                   'set_attribute_single': {'data': ('ints', '_g_data')}}, 'True',
                  'result == u8(0x10) + _g_epath + _g_typed', ['data.service']))
    for nm, ctx, svc in (('get_attributes_all', 'get_attributes_all', 0x81), ('get_attribute_single', 'get_attribute_single', 0x8e)):
        out.append(mk('%s reply' % nm, {'service': ('const', svc), 'status': ('int', '_g_status'), ctx: {'data': ('ints', '_g_data')}}, '0 <= _g_status <= 255',
                      'result == u8(%d) + bytes_of(0) + _g_statusbytes + (_g_typed if _g_status == 0 else bytes_of())' % svc))
    out.append(mk('set_attribute_single reply', {'service': ('const', 0x90), 'status': ('int', '_g_status')}, '0 <= _g_status <= 255',
                  'result == u8(0x90) + bytes_of(0) + _g_statusbytes'))
    return out


def replay_legacy(model, obligation):
    """legacy_CPF_0x0001.produce on concrete records against the layout written out with struct"""
    import struct
    import cpppo
    from cpppo.server.enip import parser
    m = model or {}
    cands = [dict(version=int(m.get('_g_version', 1)), family=int(m.get('_g_family', 2)), port=int(m.get('_g_port', 44818)), addr=int(m.get('_g_addr', 0x0a000001)), ip='10.0.0.9')]
    cands += [dict(version=1, family=2, port=44818, addr=0xac100101, ip='172.16.1.1'), dict(version=1, family=2, port=0xaf12, addr=0x0a000001, ip='192.168.0.24'),
              dict(version=7, family=-2, port=1, addr=0, ip='10.0.0.1'), dict(version=1, family=2, port=2222, addr=0xffffffff, ip='1.2.3.4')]
    for c in cands:
        if not (0 <= c['version'] <= 0xffff and -32768 <= c['family'] <= 32767 and 0 <= c['port'] <= 0xffff and 0 <= c['addr'] <= 0xffffffff):
            continue
        want = struct.pack('<HH', c['version'], 0) + struct.pack('>hHI', c['family'], c['port'], c['addr']) + b'\0' * 8 + c['ip'].encode('ascii').ljust(16, b'\0')[:16]
        d = cpppo.dotdict(version=c['version'], sin_family=c['family'], sin_port=c['port'], sin_addr=c['addr'], ip_address=c['ip'])
        try:
            got = bytes(parser.legacy_CPF_0x0001.produce(d))
        except Exception as e:
            got = 'raised %s: %s' % (type(e).__name__, e)
        if got != want:
            return dict(confirmed=True, function='cpppo.server.enip.parser.legacy_CPF_0x0001.produce', input=c, observed=repr(got)[:200], required=repr(want))
    return dict(confirmed=False)


def legacy_spec():
    """legacy_CPF_0x0001.produce with both address forms present (numeric sin_addr and textual ip_address)"""
    def data(eng, name, st):
        st = st.clone()
        rid = eng.new_id()
        ip = SeqV(z3.Const('_g_ip', IntSeq), 'str')
        j = z3.Int('ipj')
        st.pc.append(z3.ForAll([j], z3.Implies(z3.And(0 <= j, j < z3.Length(ip.t)), z3.And(ip.t[j] >= 0, ip.t[j] < 128))))
        flds = {'version': (z3.Bool('_g_version_given'), IntV(z3.Int('_g_version'))), 'unknown_1': (z3.Bool('_g_unknown_given'), IntV(z3.Int('_g_unknown'))),
                'sin_family': (z3.BoolVal(True), IntV(z3.Int('_g_family'))), 'sin_port': (z3.BoolVal(True), IntV(z3.Int('_g_port'))),
                'sin_addr': (z3.BoolVal(True), IntV(z3.Int('_g_addr'))), 'ip_address': (z3.BoolVal(True), ip)}
        for k, pv in flds.items():
            st.heap[(rid, k)] = pv
        st.heap[(rid, '__closed__')] = True
        st.heap[(rid, '__keys__')] = tuple(flds)
        for g in ('_g_version', '_g_unknown', '_g_family', '_g_port', '_g_addr'):
            eng.init_vals[g] = IntV(z3.Int(g))
        for g in ('_g_version_given', '_g_unknown_given'):
            eng.init_vals[g] = BoolV(z3.Bool(g))
        eng.init_vals['_g_ip'] = SeqV(ip.t, 'bytes')
        eng.tracked_refs.add(rid)
        return RefV(rid, 'rec'), st
    return Spec('legacy_CPF_0x0001.produce[sin_addr and ip_address]', (P, 'legacy_CPF_0x0001.produce'), params={'data': data},
                requires='0 <= _g_version <= 0xffff and 0 <= _g_unknown <= 0xffff and -32768 <= _g_family <= 32767 and 0 <= _g_port <= 0xffff and '
                         '0 <= _g_addr <= 0xffffffff and len(_g_ip) <= 255',
                ensures=[('layout: version, unknown, family and port in network order, the BINARY address from sin_addr, 8 zero bytes, the TEXT address in 16 bytes',
                          'result == u16(_g_version if _g_version_given else 1) + u16(_g_unknown if _g_unknown_given else 0) + be(_g_family, 2) + be(_g_port, 2) '
                          '+ be(_g_addr, 4) + bytes_of(0, 0, 0, 0, 0, 0, 0, 0) + (_g_ip[:16] if len(_g_ip) >= 16 else _g_ip + zeros(16 - len(_g_ip)))'),
                         ('size', 'len(result) == 36')],
                raises={}, modifies=[], inline=['produce'], hints=dict(funcs=WS.FUNCS), replay=replay_legacy,
                note='the branch taken when both address forms are in the record (a numeric sin_addr is encoded as it is, not derived from the text); '
                     'textual sin_addr (ipaddress module) and the missing-ip_address branch (runs the IPADDR parser) are bounded-only')



D = "server/enip/defaults.py"
NCP_SMALL = "(redundant << 15) + (type << 13) + (priority << 10) + (variable << 9) + size"
NCP_LARGE = "(redundant << 31) + (type << 29) + (priority << 26) + (variable << 25) + size"
NCP_RANGE = "0 <= variable <= 1 and 0 <= priority <= 3 and 0 <= type <= 3 and 0 <= redundant <= 1"


def connection_specs():
    out = []
    for large in (False, True):
        lim = 0xffff if large else 0x1ff
        enc = NCP_LARGE if large else NCP_SMALL
        out.append(Spec('Connection.__init__[%s, fully specified]' % ('large' if large else 'small'), (D, 'Connection.__init__'),
                        params={'large': ('Const', large), 'size': 'Int', 'variable': 'Int', 'priority': 'Int', 'type': 'Int', 'redundant': 'Int', 'NCP': 'None'},
                        requires=NCP_RANGE + ' and 1 <= size <= %d' % lim,
                        ensures=[('layout: network connection parameters of the %s Forward Open' % ('Large' if large else 'small'), 'self._NCP == ' + enc),
                                 ('large flag', 'self._large == %s' % large)],
                        raises={}, modifies=['self._NCP', 'self._large', 'self.other'], fields={},
                        note='bit layout from Vol 1 3-5.5.1.1 (quoted in the class docstring)'))
        out.append(Spec('Connection.__init__[%s, fully specified, stale NCP supplied]' % ('large' if large else 'small'), (D, 'Connection.__init__'),
                        params={'large': ('Const', large), 'size': 'Int', 'variable': 'Int', 'priority': 'Int', 'type': 'Int', 'redundant': 'Int', 'NCP': 'Int'},
                        requires=NCP_RANGE + ' and 1 <= size <= %d and NCP >= 0' % lim,
                        ensures=[('fully specified parameters are re-encoded (a supplied NCP of the other size class is not kept)', 'self._NCP == ' + enc)],
                        raises={}, modifies=['self._NCP', 'self._large', 'self.other'], fields={},
                        note='this is what the `large` setter relies on when it switches a connection between small and large'))
        g = dict(size='_g_size', variable='_g_variable', priority='_g_priority', type='_g_type', redundant='_g_redundant')
        enc_g = enc
        rng_g = NCP_RANGE + ' and 1 <= size <= %d' % lim
        for k, v in g.items():
            enc_g = enc_g.replace(k, v)
            rng_g = rng_g.replace(k, v)
        out.append(Spec('Connection.decoding[%s]' % ('large' if large else 'small'), (D, 'Connection.decoding'),
                        params=dict(('_g_' + k, 'Int') for k in g),
                        fields={'_NCP': 'Int', '_large': ('Const', large), 'other': ('Rec', {})},
                        requires=rng_g + ' and self._NCP == ' + enc_g,
                        ensures=[('decode(encode(fields)) == fields',
                                  'result.size == _g_size and result.variable == _g_variable and result.priority == _g_priority and '
                                  'result.type == _g_type and result.redundant == _g_redundant and result.NCP == self._NCP and result.large == %s' % large)],
                        raises={}, modifies=[]))
    return out




# ---- EPATH.produce ------------------------------------------------------------------------------------
from pyvc.vals import RecProto, ListV, TupV
from pyvc.calls import pack_int

EP_N = z3.Int('_g_nseg')
KINDS = ['symbolic', 'class', 'instance', 'connection', 'attribute', 'element', 'port']
HAS = dict((k, z3.Function('has_' + k, z3.IntSort(), z3.BoolSort())) for k in KINDS)
VAL = dict((k, z3.Function('val_' + k, z3.IntSort(), z3.IntSort())) for k in KINDS if k != 'symbolic')
SYM = z3.Function('val_symbolic', z3.IntSort(), IntSeq)
LINK_IS_INT = z3.Function('link_is_int', z3.IntSort(), z3.BoolSort())
LINK_I = z3.Function('link_int', z3.IntSort(), z3.IntSort())
LINK_S = z3.Function('link_str', z3.IntSort(), IntSeq)
EPF = z3.Function('EPF', z3.IntSort(), IntSeq)
BASE = {'class': 0x20, 'instance': 0x24, 'connection': 0x2c, 'attribute': 0x30, 'element': 0x28}


def cat(*ts):
    ts = [t for t in ts]
    return ts[0] if len(ts) == 1 else z3.Concat(*ts)


def unit(x):
    return z3.Unit(x if z3.is_expr(x) else z3.IntVal(x))


def pad(t):
    return z3.If(z3.Length(t) % 2 == 1, z3.Concat(t, unit(0)), t)


def seg_layout(i):
    """the encoding of segment i, written from the EPATH segment layout tables"""
    u16 = lambda x: pack_int('<H', x)[0]
    u32 = lambda x: pack_int('<I', x)[0]
    sym = cat(unit(0x91), unit(z3.Length(SYM(i))), pad(SYM(i)))
    p = VAL['port'](i)
    small = p < 15
    port_int = z3.If(small, cat(unit(p), unit(LINK_I(i))), cat(unit(0x0f), u16(p), unit(LINK_I(i))))
    ls = LINK_S(i)
    port_str = z3.If(small, cat(unit(p + 0x10), unit(z3.Length(ls)), pad(ls)), cat(unit(0x1f), unit(z3.Length(ls)), u16(p), pad(ls)))
    out = z3.If(LINK_IS_INT(i), port_int, port_str)
    for k, base in BASE.items():
        v = VAL[k](i)
        enc = z3.If(v <= 0xff, cat(unit(base), unit(v)),
                    z3.If(v <= 0xffff, cat(unit(base + 1), unit(0), u16(v)), cat(unit(base + 2), unit(0), u32(v))))
        out = z3.If(HAS[k](i), enc, out)
    return z3.If(HAS['symbolic'](i), sym, out)


def segment_list(eng, st):
    i = z3.Int('ei')
    j = z3.Int('ej')
    st.pc.append(EP_N >= 0)
    # exactly one kind per segment; value domains of the CIP segment formats
    one = z3.Sum([z3.If(HAS[k](i), 1, 0) for k in KINDS]) == 1
    dom = z3.And(
        z3.Implies(HAS['symbolic'](i), z3.And(z3.Length(SYM(i)) <= 255,
                                              z3.ForAll([j], z3.Implies(z3.And(0 <= j, j < z3.Length(SYM(i))), z3.And(SYM(i)[j] >= 0, SYM(i)[j] <= 255))))),
        z3.Implies(HAS['port'](i), z3.And(VAL['port'](i) >= 1, VAL['port'](i) <= 0xffff, LINK_I(i) >= 0, LINK_I(i) <= 255, z3.Length(LINK_S(i)) <= 255,
                                          z3.ForAll([j], z3.Implies(z3.And(0 <= j, j < z3.Length(LINK_S(i))), z3.And(LINK_S(i)[j] >= 0, LINK_S(i)[j] <= 255))))),
        *[z3.Implies(HAS[k](i), z3.And(VAL[k](i) >= 0, VAL[k](i) <= (0xffffffff if k == 'element' else 0xffff))) for k in BASE])
    st.pc.append(z3.ForAll([i], z3.Implies(z3.And(0 <= i, i < EP_N), z3.And(one, dom))))
    st.pc.append(EPF(0) == z3.Empty(IntSeq))
    st.pc.append(z3.ForAll([i], z3.Implies(z3.And(0 <= i, i < EP_N), EPF(i + 1) == z3.Concat(EPF(i), seg_layout(i)))))

    def get(k):
        f = {}
        f['symbolic'] = (HAS['symbolic'](k), SeqV(SYM(k), 'str'))
        for kind in BASE:
            f[kind] = (HAS[kind](k), IntV(VAL[kind](k)))
        f['port'] = (HAS['port'](k), IntV(VAL['port'](k)))
        f['link'] = (HAS['port'](k), UnionV([(LINK_IS_INT(k), IntV(LINK_I(k))), (z3.Not(LINK_IS_INT(k)), SeqV(LINK_S(k), 'str'))]))
        return RecProto(f)
    return ListV(EP_N, get, tag='segments')


def epath_data(eng, name, st):
    st = st.clone()
    segs = segment_list(eng, st)
    rid = eng.new_id()
    st.heap[(rid, 'segment')] = (z3.BoolVal(True), segs)
    st.heap[(rid, '__closed__')] = True
    st.heap[(rid, '__keys__')] = ('segment',)
    eng.init_vals['_g_nseg'] = IntV(EP_N)
    return RefV(rid, 'rec'), st


EP_FUNCS = dict(WS.FUNCS)
EP_FUNCS['EPF'] = lambda pe, k: SeqV(EPF(to_int_(k)), 'bytes')


def to_int_(v):
    from pyvc.pure import to_int
    return to_int(v)


def epath_specs():
    out = []
    for cls, single, padsize in (('EPATH', False, False), ('EPATH_padded', False, True), ('EPATH_single', True, False)):
        if single:
            ens = 'result == EPF(_g_nseg)'
        else:
            ens = 'result == u8(len(EPF(_g_nseg)) // 2) + %sEPF(_g_nseg)' % ('bytes_of(0) + ' if padsize else '')
        out.append(Spec('%s.produce' % cls, (P, 'EPATH.produce'), params={'data': epath_data}, cls_name=cls,
                        requires='len(EPF(_g_nseg)) // 2 <= 255',
                        loops={0: Loop(index='K', invariant=[('encoded-so-far', 'result == EPF(K)'), ('word-aligned', 'len(EPF(K)) % 2 == 0')])},
                        ensures=[('layout: size in words%s, then every segment by the segment format tables' % (', pad byte' if padsize else ''), ens)],
                        raises={}, modifies=[], inline=['produce'], hints=dict(funcs=EP_FUNCS),
                        replay=replay_epath,
                        note='all segment kinds: symbolic (odd/even pad), 8/16-bit class/instance/attribute/connection, 8/16/32-bit element, '
                             'port < 15 / extended port with numeric or address link; SEGMENTS dict unrolled from the class constant'))
    return out


def replay_epath(model, obligation):
    import cpppo
    from cpppo.server.enip import parser
    segs = all_segments(True)
    for p in [[s] for s in segs] + [[segs[0], segs[5]], [segs[20], segs[-1]]]:
        for cls, padded, single in ((parser.EPATH, False, False), (parser.EPATH_padded, True, False)):
            want = wire.epath(p, padded=padded)
            try:
                got = bytes(cls.produce(dd({'segment': [seg_dict(s) for s in p]})))
            except Exception as e:
                got = 'raised %s' % type(e).__name__
            if got != want:
                return dict(confirmed=True, function='cpppo.server.enip.parser.%s.produce' % cls.__name__, input=repr(p), observed=repr(got), required=repr(want))
    return dict(confirmed=False)




# ---- status.produce / typed_data.produce ------------------------------------------------------------------
def status_data(eng, name, st):
    st = st.clone()
    rid, xid = eng.new_id(), eng.new_id()
    exts = SeqV(z3.Const('_g_exts', IntSeq), 'list')
    st.heap[(xid, 'size')] = (z3.Bool('_g_has_size'), IntV(z3.Int('_g_size')))
    st.heap[(xid, 'data')] = (z3.Bool('_g_has_data'), exts)
    st.heap[(xid, '__closed__')] = True
    st.heap[(xid, '__keys__')] = ('size', 'data')
    st.heap[(rid, 'status')] = (z3.Bool('_g_has_status'), IntV(z3.Int('_g_status')))
    st.heap[(rid, 'status_ext')] = (z3.Bool('_g_has_ext'), RefV(xid, 'rec'))
    st.heap[(rid, '__closed__')] = True
    st.heap[(rid, '__keys__')] = ('status', 'status_ext')
    for k in ('_g_size', '_g_status'):
        eng.init_vals[k] = IntV(z3.Int(k))
    for k in ('_g_has_size', '_g_has_data', '_g_has_status', '_g_has_ext'):
        eng.init_vals[k] = BoolV(z3.Bool(k))
    eng.init_vals['_g_exts'] = exts
    return RefV(rid, 'rec'), st


def status_spec():
    defs = dict(ST='_g_status if _g_has_status else 0',
                EXT='_g_exts if (ST != 0 and _g_has_ext and _g_has_data) else _g_exts[:0]',
                SZ='_g_size if (ST != 0 and _g_has_ext and _g_has_size) else 0')
    return Spec('status.produce', (P, 'status.produce'), params={'data': status_data}, defs=defs,
                requires='0 <= _g_status <= 255 and forall(0, len(_g_exts), lambda j: 0 <= _g_exts[j] <= 0xffff) and len(_g_exts) <= 255',
                ensures=[('layout: status, number of extended status words, each word little-endian',
                          'result[:2] == u8(ST) + u8(len(EXT)) and len(result) == 2 + 2 * len(EXT) and '
                          'forall(0, len(EXT), lambda j: result[2 + 2 * j: 4 + 2 * j] == u16(EXT[j]))')],
                raises={'AssertionError': 'SZ != len(EXT)'}, refuses=[('inconsistent-size', 'SZ != len(EXT)')], accepts=[('consistent', 'SZ == len(EXT)')],
                modifies=[], inline=['produce'], hints=dict(funcs=WS.FUNCS),
                note='extended status only for a non-zero status; size must equal the number of words')


def typed_data_specs():
    out = []
    for cls, n, signed, big in SCALARS[:8]:
        tt = {'USINT': 0xc6, 'SINT': 0xc2, 'UINT': 0xc7, 'INT': 0xc3, 'UDINT': 0xc8, 'DINT': 0xc4, 'ULINT': 0xc9, 'LINT': 0xc5}[cls]
        lo, hi = (-(1 << (8 * n - 1)), (1 << (8 * n - 1)) - 1) if signed else (0, (1 << (8 * n)) - 1)
        schema = {'type': ('const', tt), 'data': ('ints', '_g_data')}

        def producer(eng, st, cls=cls):
            from pyvc.vals import FuncV
            ch = eng.repo.find_class(cls, prefer=eng.mod)
            c, m = ch.find_method('produce')
            return FuncV('%s.produce' % cls, ('classfn', ch, c, m))
        out.append(Spec('typed_data.produce[%s]' % cls, (P, 'typed_data.produce'), params={'data': rec_param(schema)},
                        env={'cls.TYPES_SUPPORTED[tag_type].produce': producer, 'tag_type in cls.TYPES_SUPPORTED': 'True'},
                        ensures=[('layout: the elements in order, each %d bytes little-endian' % n,
                                  'len(result) == %d * len(_g_data) and forall(0, len(_g_data), lambda j: result[%d * j: %d * j + %d] == le(_g_data[j], %d))' % (n, n, n, n, n))],
                        raises={'struct.error': 'not forall(0, len(_g_data), lambda j: %d <= _g_data[j] <= %d)' % (lo, hi)},
                        accepts=[('all-in-range', 'forall(0, len(_g_data), lambda j: %d <= _g_data[j] <= %d)' % (lo, hi))],
                        modifies=[], inline=['produce'], hints=dict(funcs=WS.FUNCS),
                        note='TYPES_SUPPORTED[%#x] modelled as class %s (the table itself is exercised in the bounded tier)' % (tt, cls)))
    return out


def contracts(repo):
    return (scalar_specs() + string_specs() + [enip_encode_spec()] + logix_produce_specs() + unconnected_send_specs() + [client_wrapper_spec()] + connection_specs()
            + epath_specs() + [status_spec()] + typed_data_specs() + encapsulation_specs() + cpf_specs() + connection_manager_specs() + object_produce_specs() + [legacy_spec()])
