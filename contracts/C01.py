"""C01 — wire codec round-trip over the whole EtherNet/IP CIP message grammar.

P: produce encoders proved equal to the layout (see proof section below).
B: produced bytes == independent reference encoder (contracts/wire.py); real parser recovers every
   field; re-producing the parsed message regenerates the bytes — over a boundary lattice.
"""
import itertools
import random
import struct

from . import wire

PROPERTY = 'C01'
LEVEL = 'exploration'


# ------------------------------------------------------------------------------------------------ bounded tier
def parse(machine, raw, path=None):
    import cpppo
    data = cpppo.dotdict()
    src = cpppo.peekable(raw)
    with machine as m:
        for _ in m.run(source=src, data=data, path=path):
            pass
        term = m.terminal
    return term, src.sent, data


def dd(x):
    """plain nested dict/list -> cpppo.dotdict tree (lists of dicts become lists of dotdicts)"""
    import cpppo
    if isinstance(x, cpppo.dotdict):
        return x
    if isinstance(x, dict):
        d = cpppo.dotdict()
        for k, v in x.items():
            d[k] = dd(v)
        return d
    if isinstance(x, list):
        return [dd(v) for v in x]
    return x


def seg_dict(s):
    if s[0] == 'port':
        return {'port': s[1], 'link': s[2]}
    return {s[0]: s[1]}


def plain(x):
    if hasattr(x, 'items'):
        return dict((k, plain(v)) for k, v in dict.items(x))
    if isinstance(x, (list, tuple)):
        return [plain(v) for v in x]
    if isinstance(x, bytearray):
        return bytes(x)
    if hasattr(x, 'tobytes'):
        return x.tobytes()
    return x


class Checker(object):
    def __init__(self):
        self.ev = 0
        self.distinct = set()
        self.violations = []
        self.samples = []

    def bad(self, key, obs, req):
        if len(self.violations) < 10:
            self.violations.append(dict(key=key, observed=str(obs)[:400], required=str(req)[:300]))

    def check(self, kind, key, produce, want, reparse=None):
        """produce() -> bytes must equal `want` (reference encoder); reparse(bytes) -> (ok, detail)"""
        self.ev += 1
        self.distinct.add((kind, key))
        try:
            got = bytes(produce())
        except Exception as e:
            self.bad('%s %s' % (kind, key), 'produce raised %s: %s' % (type(e).__name__, e), 'bytes %r' % (want,))
            return
        if got != want:
            self.bad('%s %s' % (kind, key), 'produced %r' % (got,), 'layout-table bytes %r' % (want,))
            return
        if reparse is not None:
            try:
                ok, detail = reparse(got)
            except Exception as e:
                ok, detail = False, 'parse raised %s: %s' % (type(e).__name__, e)
            if not ok:
                self.bad('%s %s (parse)' % (kind, key), detail, 'every encoded field recovered; re-produce regenerates the bytes')
        if len(self.samples) < 8 and len(want) > 6 and self.ev % 37 == 0:
            self.samples.append(dict(kind=kind, case=str(key)[:80], bytes=want.hex()[:80]))


INT_TYPES = [('USINT', 'B', 0xc6), ('SINT', 'b', 0xc2), ('UINT', '<H', 0xc7), ('INT', '<h', 0xc3), ('UDINT', '<I', 0xc8), ('DINT', '<i', 0xc4),
             ('ULINT', '<Q', 0xc9), ('LINT', '<q', 0xc5), ('WORD', '<H', 0xd2), ('DWORD', '<I', 0xd3)]


def bounds(fmt):
    n = struct.calcsize(fmt) * 8
    signed = fmt[-1].islower()
    lo, hi = (-(1 << (n - 1)), (1 << (n - 1)) - 1) if signed else (0, (1 << n) - 1)
    return sorted(set([lo, lo + 1, 0, 1, hi - 1, hi]))


def all_segments(thorough):
    segs = []
    for kind in ('class', 'instance', 'attribute', 'connection'):
        for v in (0, 1, 0xff, 0x100, 0xffff):
            segs.append((kind, v))
    for v in (0, 0xff, 0x100, 0xffff, 0x10000, 0xffffffff):
        segs.append(('element', v))
    for name in ('A', 'AB', 'Tag', 'x' * 40, u'\xe9t\xe9', 'y' * 255):
        segs.append(('symbolic', name))
    for port in (1, 14, 15, 16, 0xffff):
        segs.append(('port', port, 0))
        segs.append(('port', port, 255))
        segs.append(('port', port, '1.2.3.4'))
        segs.append(('port', port, '10.0.0.10'))
    return segs


def bounded(tier, seed):
    import cpppo
    from cpppo.server.enip import parser, logix, device
    from cpppo.server.enip import defaults
    from . import sim
    sim.fresh({'A': ('INT', 4)})            # a Message Router must exist for the Multiple Service Packet parser
    rng = random.Random(seed)
    C = Checker()
    thorough = tier != 'quick'
    # ---- (a) scalars
    for name, fmt, tt in INT_TYPES:
        cls = getattr(parser, name)
        for v in bounds(fmt):
            def rp(raw, cls=cls, v=v):
                t, s, d = parse(cls(context='v', terminal=True), raw, 'p')
                return (t and s == len(raw) and d.p.v == v and cls.produce(d.p.v) == raw), repr(plain(d))
            C.check('scalar', (name, v), lambda cls=cls, v=v: cls.produce(v), struct.pack(fmt, v), rp)
    for v in (0, 1, True, False, 2, 255):
        C.check('scalar', ('BOOL', v), lambda v=v: parser.BOOL.produce(v), b'\xff' if v else b'\x00',
                lambda raw, v=v: ((lambda r: (r[0] and r[2].p.v is bool(v), repr(plain(r[2]))))(parse(parser.BOOL(context='v', terminal=True), raw, 'p'))))
    for name, fmt in (('UINT_network', '>H'), ('INT_network', '>h'), ('UDINT_network', '>I'), ('DINT_network', '>i')):
        for v in bounds(fmt):
            C.check('scalar', (name, v), lambda name=name, v=v: getattr(parser, name).produce(v), struct.pack(fmt, v))
    for v in (0.0, 1.5, -2.25, 1e10):
        C.check('scalar', ('REAL', v), lambda v=v: parser.REAL.produce(v), struct.pack('<f', v))
        C.check('scalar', ('LREAL', v), lambda v=v: parser.LREAL.produce(v), struct.pack('<d', v))
    # ---- (b) strings
    for ln in (0, 1, 2, 3, 80, 254, 255):
        s = ''.join(chr(65 + (i % 26)) for i in range(ln))

        def rps(raw, s=s):
            t, sent, d = parse(parser.SSTRING(terminal=True), raw, 'p')
            return (t and sent == len(raw) and d.p.SSTRING.string == s and d.p.SSTRING.length == len(s) and parser.SSTRING.produce(d.p.SSTRING) == raw), repr(plain(d))[:200]
        C.check('SSTRING', ln, lambda s=s: parser.SSTRING.produce(s), bytes([ln]) + s.encode(), rps)
    for ln in (0, 1, 2, 3, 81, 254, 255, 256) + ((65534, 65535) if thorough else (1001,)):
        s = ''.join(chr(97 + (i % 26)) for i in range(ln))

        def rpS(raw, s=s):
            t, sent, d = parse(parser.STRING(terminal=True), raw, 'p')
            return (t and sent == len(raw) and d.p.STRING.string == s and d.p.STRING.length == len(s) and parser.STRING.produce(d.p.STRING) == raw), repr(plain(d))[:200]
        C.check('STRING', ln, lambda s=s: parser.STRING.produce(s), struct.pack('<H', ln) + wire.pad_even(s.encode()), rpS)
    # explicit length: truncate / NUL fill
    for s, ln in (('abc', 2), ('abc', 5), ('', 3), ('abcd', 4)):
        enc = (s.encode() + b'\x00' * ln)[:ln]
        C.check('SSTRING.length', (s, ln), lambda s=s, ln=ln: parser.SSTRING.produce(dd({'string': s, 'length': ln})), bytes([ln]) + enc)
        C.check('STRING.length', (s, ln), lambda s=s, ln=ln: parser.STRING.produce(dd({'string': s, 'length': ln})), struct.pack('<H', ln) + wire.pad_even(enc))
    # ---- (c) EPATH: every segment kind x width, 0..3 segments, padded / single
    segs = all_segments(thorough)
    paths = [[]] + [[s] for s in segs]
    for _ in range(60 if not thorough else 600):
        paths.append([rng.choice(segs) for _ in range(rng.choice([2, 3]))])
    for p in paths:
        if sum(len(wire.epath([s])) - 1 for s in p) > 510:
            continue

        def rpe(raw, p=p, cls=parser.EPATH):
            t, sent, d = parse(cls(terminal=True), raw, 'p')
            got = [plain(x) for x in d.p[cls.__name__].get('segment', [])] if cls.__name__ in d.p else None
            want = [seg_dict(s) for s in p]
            return (t and sent == len(raw) and got == want and cls.produce(d.p[cls.__name__]) == raw), 'segments %r' % (got,)
        C.check('EPATH', tuple(p), lambda p=p: parser.EPATH.produce(dd({'segment': [seg_dict(s) for s in p]})), wire.epath(p), rpe)
        C.check('EPATH_padded', tuple(p), lambda p=p: parser.EPATH_padded.produce(dd({'segment': [seg_dict(s) for s in p]})), wire.epath(p, padded=True),
                lambda raw, p=p: rpe(raw, p, parser.EPATH_padded))
    for s in [x for x in segs if x[0] == 'port']:
        C.check('EPATH_single', s, lambda s=s: parser.EPATH_single.produce(dd({'segment': [seg_dict(s)]})), wire.epath([s])[1:])
    # ---- (d) status
    for st, ext in ((0, []), (6, []), (5, [0]), (0xff, [0x2105]), (0xff, [0x2107, 1]), (1, [1, 2, 0xffff])):
        want = bytes([st, len(ext) if st else 0]) + (b''.join(struct.pack('<H', e) for e in ext) if st else b'')
        d0 = {'status': st}
        if ext:
            d0['status_ext'] = {'size': len(ext), 'data': list(ext)}

        def rpst(raw, st=st, ext=ext):
            t, sent, d = parse(parser.status(terminal=True), raw, 'p')
            dat = list(d.p.get('status_ext.data', []))
            return (t and sent == len(raw) and d.p.status == st and dat == (list(ext) if st else []) and parser.status.produce(d.p) == raw), repr(plain(d))
        C.check('status', (st, tuple(ext)), lambda d0=d0: parser.status.produce(dd(d0)), want, rpst)
    # ---- (e) Logix requests and replies
    names = ['A', 'Tag', 'SCADA_40001']
    for name in names:
        for elem in (None, 0, 255, 256, 70000):
            path = [('symbolic', name)] + ([('element', elem)] if elem is not None else [])
            pd = {'segment': [seg_dict(s) for s in path]}
            for elements in (1, 2, 0xffff):
                def rp_req(raw, ctx=None, fields=None):
                    t, sent, d = parse(logix.Logix.parser, raw)
                    ok = t and sent == len(raw) and all(d.get(k) == v for k, v in fields.items()) and bytes(logix.Logix.produce(d)) == raw
                    return ok, repr(plain(d))[:300]
                C.check('read_tag', (name, elem, elements), lambda pd=pd, elements=elements: logix.Logix.produce(dd({'path': pd, 'read_tag': {'elements': elements}})),
                        wire.read_tag(name, elem, elements), lambda raw, e=elements: rp_req(raw, fields={'service': 0x4c, 'read_tag.elements': e}))
                for off in (0, 6, 0xffffffff):
                    C.check('read_frag', (name, elem, elements, off),
                            lambda pd=pd, elements=elements, off=off: logix.Logix.produce(dd({'path': pd, 'read_frag': {'elements': elements, 'offset': off}})),
                            wire.read_frag(name, elem, elements, off),
                            lambda raw, e=elements, off=off: rp_req(raw, fields={'service': 0x52, 'read_frag.elements': e, 'read_frag.offset': off}))
            for tname, fmt, tt in INT_TYPES[:8] + [('REAL', '<f', 0xca), ('LREAL', '<d', 0xcb)]:
                if fmt in ('<f', '<d'):
                    vals = [1.5, -2.0]
                else:
                    vals = bounds(fmt)[:3] + bounds(fmt)[-1:]
                C.check('write_tag', (name, elem, tname), lambda pd=pd, tt=tt, vals=vals: logix.Logix.produce(dd({'path': pd, 'write_tag': {'type': tt, 'data': list(vals)}})),
                        wire.write_tag(name, elem, tt, vals),
                        lambda raw, tt=tt, vals=vals: rp_req(raw, fields={'service': 0x4d, 'write_tag.type': tt, 'write_tag.elements': len(vals), 'write_tag.data': list(vals)}))
                C.check('write_frag', (name, elem, tname),
                        lambda pd=pd, tt=tt, vals=vals: logix.Logix.produce(dd({'path': pd, 'write_frag': {'type': tt, 'elements': 100, 'offset': 8, 'data': list(vals)}})),
                        wire.write_frag(name, elem, tt, 100, 8, vals),
                        lambda raw, tt=tt, vals=vals: rp_req(raw, fields={'service': 0x53, 'write_frag.type': tt, 'write_frag.elements': 100, 'write_frag.offset': 8,
                                                                         'write_frag.data': list(vals)}))
    # replies: status x data
    for svc, ctx in ((0xcc, 'read_tag'), (0xd2, 'read_frag')):
        for st, ext in ((0, []), (6, []), (5, [0]), (0xff, [0x2105])):
            for tname, fmt, tt in (('INT', '<h', 0xc3), ('DINT', '<i', 0xc4), ('SINT', 'b', 0xc2), ('LINT', '<q', 0xc5), ('BOOL', 'B', 0xc1)):
                vals = [1, 0, 1] if tname == 'BOOL' else bounds(fmt)[:2] + [7]
                d0 = {'service': svc, 'status': st, ctx: {'type': tt, 'data': list(vals)}}
                if ext:
                    d0['status_ext'] = {'size': len(ext), 'data': list(ext)}
                want = bytes([svc, 0, st, len(ext) if st else 0]) + b''.join(struct.pack('<H', e) for e in ext)
                if st in (0, 6):
                    want += struct.pack('<H', tt) + wire.typed(tt, vals)

                def rp_rpy(raw, svc=svc, st=st, ctx=ctx, tt=tt, vals=vals):
                    t, sent, d = parse(logix.Logix.parser, raw)
                    ok = t and sent == len(raw) and d.service == svc and d.status == st and bytes(logix.Logix.produce(d)) == raw
                    if st in (0, 6):
                        got = list(d[ctx].data)
                        ok = ok and d[ctx].type == tt and got == ([bool(v) for v in vals] if tt == 0xc1 else list(vals))
                    return ok, repr(plain(d))[:300]
                C.check('read-reply', (svc, st, tname), lambda d0=d0: logix.Logix.produce(dd(d0)), want, rp_rpy)
    for svc in (0xcd, 0xd3):
        for st, ext in ((0, []), (0xff, [0x2107]), (5, [0])):
            d0 = {'service': svc, 'status': st}
            if ext:
                d0['status_ext'] = {'size': len(ext), 'data': list(ext)}
            want = bytes([svc, 0, st, len(ext) if st else 0]) + b''.join(struct.pack('<H', e) for e in ext)
            C.check('write-reply', (svc, st), lambda d0=d0: logix.Logix.produce(dd(d0)), want)
    # ---- (f) Multiple Service Packet
    for k in (1, 2, 4):
        reqs = [wire.read_tag(rng.choice(names), rng.choice([None, 1]), 1) for _ in range(k)]
        mem = []
        for r in reqs:
            t, s, d = parse(logix.Logix.parser, r)
            mem.append(d)

        def rp_m(raw, reqs=reqs):
            t, sent, d = parse(logix.Logix.parser, raw)
            got = [bytes(bytearray(m.input)) for m in d.multiple.request]
            return (t and sent == len(raw) and got == reqs and d.multiple.number == len(reqs)), repr(plain(d))[:300]
        C.check('multiple', k, lambda mem=mem: logix.Logix.produce(dd({'multiple': {'request': mem}})), wire.multiple(reqs), rp_m)
    # ---- (g) Unconnected Send, CPF, SendRRData, whole frames
    for cip in (wire.read_tag('A', 0, 1), wire.write_tag('Tag', 1, 0xc3, [1, 2, 3]), wire.read_tag('AB', None, 1)):
        for rp_ in ([('port', 1, 0)], [('port', 1, 0), ('port', 2, '10.0.0.1')], [('port', 17, 3)]):
            t, s, inner = parse(logix.Logix.parser, cip)
            us = {'service': 0x52, 'path': {'segment': [{'class': 6}, {'instance': 1}]}, 'priority': 5, 'timeout_ticks': 157,
                  'request': {'input': bytearray(cip)}, 'route_path': {'segment': [seg_dict(x) for x in rp_]}}
            wus = wire.unconnected_send(cip, route_path=rp_)

            def rp_us(raw, cip=cip, rp_=rp_):
                t, sent, d = parse(parser.unconnected_send(terminal=True), raw, 'p')
                u = d.p.unconnected_send
                return (t and sent == len(raw) and bytes(bytearray(u.request.input)) == cip and [plain(x) for x in u.route_path.segment] == [seg_dict(x) for x in rp_]
                        and u.priority == 5 and u.timeout_ticks == 157 and bytes(parser.unconnected_send.produce(u)) == raw), repr(plain(d))[:300]
            C.check('unconnected_send', (len(cip), tuple(rp_)), lambda us=us: parser.unconnected_send.produce(dd(us)), wus, rp_us)
            for sess, ctx in ((0, b'\x00' * 8), (0xfedcba98, b'ABCDEFGH')):
                frame = wire.send_rr_data(cip, session=sess, context=ctx, route_path=rp_)
                e = {'command': 0x6f, 'session_handle': sess, 'status': 0, 'options': 0, 'sender_context': {'input': bytearray(ctx)},
                     'CIP': {'send_data': {'interface': 0, 'timeout': 5, 'CPF': {'item': [{'type_id': 0}, {'type_id': 0xb2, 'unconnected_send': us}]}}}}

                def produce_frame(e=e):
                    d = dd(e)
                    d.input = bytearray(parser.CIP.produce(d))
                    return parser.enip_encode(d)

                def rp_f(raw, sess=sess, ctx=ctx, cip=cip):
                    t, sent, d = parse(parser.enip_machine(terminal=True), raw)
                    ok = t and sent == len(raw) and d.enip.command == 0x6f and d.enip.session_handle == sess and d.enip.length == len(raw) - 24 \
                        and bytes(bytearray(d.enip.sender_context.input)) == ctx
                    data = d
                    if ok:
                        src = cpppo.peekable(bytes(bytearray(d.enip.input)))
                        with parser.CIP(terminal=True) as m:
                            for _ in m.run(source=src, data=data, path='enip'):
                                pass
                            ok = m.terminal
                    if ok:
                        items = data.enip.CIP.send_data.CPF.item
                        ok = len(items) == 2 and items[0].type_id == 0 and items[1].type_id == 0xb2 and bytes(bytearray(items[1].unconnected_send.request.input)) == cip
                        ok = ok and bytes(parser.enip_encode(data.enip)) == raw
                    return ok, repr(plain(data))[:300]
                C.check('SendRRData frame', (len(cip), tuple(rp_), sess), produce_frame, frame, rp_f)
    # register / unregister / list services frames
    for sess in (0, 1, 0xffffffff):
        def pr(sess=sess):
            d = dd({'command': 0x65, 'session_handle': sess, 'status': 0, 'options': 0, 'sender_context': {'input': bytearray(8)},
                    'CIP': {'register': {'protocol_version': 1, 'options': 0}}})
            d.input = bytearray(parser.CIP.produce(d))
            return parser.enip_encode(d)
        C.check('register frame', sess, pr, wire.enip_frame(0x65, struct.pack('<HH', 1, 0), session=sess))
    # ---- (h) Forward Open NCP encode/decode (small and large)
    for size in (1, 2, 500, 511, 512, 4000, 0xffff):
        for variable in (0, 1):
            for priority in (0, 1, 2, 3):
                for typ in (0, 1, 2, 3):
                    for redundant in (0, 1):
                        for large in (False, True):
                            if not large and size > 511:
                                continue
                            C.ev += 1
                            C.distinct.add(('NCP', size, variable, priority, typ, redundant, large))
                            try:
                                c = defaults.Connection(size=size, variable=variable, priority=priority, type=typ, redundant=redundant, large=large)
                                ncp = c.encoding
                                if large:
                                    want = (redundant << 31) | (typ << 29) | (priority << 26) | (variable << 25) | size
                                else:
                                    want = (redundant << 15) | (typ << 13) | (priority << 10) | (variable << 9) | size
                                d2 = defaults.Connection(NCP=ncp, large=large).decoding
                                back = (d2.size, d2.variable, d2.priority, d2.type, d2.redundant)
                                if ncp != want or back != (size, variable, priority, typ, redundant):
                                    C.bad('NCP %r' % ((size, variable, priority, typ, redundant, large),), 'NCP 0x%x decoded %r' % (ncp, back),
                                          'NCP 0x%x (bit layout of the Forward Open network connection parameters) and the same fields back' % want)
                                # switching a connection given by its NCP between small and large keeps the parameters
                                if size <= 511:
                                    c3 = defaults.Connection(NCP=ncp, large=large)
                                    c3.large = not large
                                    want3 = ((redundant << 31) | (typ << 29) | (priority << 26) | (variable << 25) | size) if not large else \
                                        ((redundant << 15) | (typ << 13) | (priority << 10) | (variable << 9) | size)
                                    if c3.encoding != want3:
                                        C.bad('NCP re-encode %r -> large=%r' % ((size, variable, priority, typ, redundant, large), not large),
                                              'NCP 0x%x' % c3.encoding, 'NCP 0x%x' % want3)
                            except Exception as e:
                                C.bad('NCP %r' % ((size, variable, priority, typ, redundant, large),), 'raised %s: %s' % (type(e).__name__, e), 'encodes')
    # ---- (i) Get/Set Attribute Single/All
    for c_, i_, a_ in ((1, 1, 7), (2, 1, 1), (0x93, 3, 300)):
        p = [('class', c_), ('instance', i_), ('attribute', a_)]
        pd = {'segment': [seg_dict(s) for s in p]}
        C.check('get_attribute_single', (c_, i_, a_), lambda pd=pd: device.Object.produce(dd({'path': pd, 'get_attribute_single': True})), bytes([0x0e]) + wire.epath(p))
        C.check('set_attribute_single', (c_, i_, a_), lambda pd=pd: device.Object.produce(dd({'path': pd, 'set_attribute_single': {'data': [1, 2, 3, 250]}})),
                bytes([0x10]) + wire.epath(p) + bytes([1, 2, 3, 250]))
        C.check('get_attributes_all', (c_, i_), lambda pd=pd: device.Object.produce(dd({'path': {'segment': pd['segment'][:2]}, 'get_attributes_all': True})),
                bytes([0x01]) + wire.epath(p[:2]))
    for svc, ctx, st in ((0x8e, 'get_attribute_single', 0), (0x81, 'get_attributes_all', 0), (0x8e, 'get_attribute_single', 8)):
        d0 = {'service': svc, 'status': st, ctx: {'data': [1, 2, 255]}}
        want = bytes([svc, 0, st, 0]) + (bytes([1, 2, 255]) if st == 0 else b'')
        C.check('attribute-reply', (svc, st), lambda d0=d0: device.Object.produce(dd(d0)), want)
    return dict(evaluations=C.ev, distinct_nontrivial=len(C.distinct),
                rule='boundary lattice: every integer type at {min,min+1,0,1,max-1,max}, network-order variants, BOOL, REAL/LREAL; SSTRING/STRING lengths '
                     '{0,1,2,3,80,254,255,256,...} incl. odd lengths and explicit-length truncate/fill; EPATHs of 0..3 segments over every kind x width '
                     '(8/16/32 bit logical, symbolic odd/even/255, port <15 / =15 / extended, numeric and address links), padded and single variants; status with '
                     '0..3 extended words; Read/Write Tag [Fragmented] requests x element types x names x element widths and replies x status; Multiple Service '
                     'Packet; Unconnected Send x route paths; SendRRData and Register frames; all Forward Open network connection parameters (small/large); '
                     'attribute services. Each case: real produce() == reference encoder (contracts/wire.py), real parser recovers the fields, re-produce == bytes. '
                     'distinct = distinct (kind, case)',
                exhaustive=False, samples=C.samples, violations=C.violations[:20], seed=seed)


def contracts(repo):
    return []
