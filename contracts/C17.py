"""C17 — timestamps and durations survive render/parse; ordering matches the rendering.

P: duration._format: the emitted unit tokens decompose (days*86400+seconds, microseconds) exactly, each
   component in its range, in unit order; recomposed with the arithmetic of duration._parse they give
   back the same duration.  timestamp.__lt__/__gt__ (floats as reals, T8): consistent with the order
   of the millisecond renderings; equal renderings compare equal.
B: text level (re matching of the emitted tokens), render/parse over zones x transitions x precisions.
"""
from .util import distinct_keys
import math
import datetime
import random

import z3

from pyvc.spec import Spec, Custom
from pyvc.vals import IntV, SeqV, TupV, IntSeq, ConstV, Unsupported
from pyvc.pure import to_int, const_of, fresh

PROPERTY = 'C17'
LEVEL = 'proof'
LEVEL_TEXT = ('Partial deductive proof on the real history/times.py: (1) duration._format is executed symbolically with its text formatting '
              'abstracted to unit tokens: for every non-negative duration the tokens emitted (y w d h m, then one of the s / ms / us / fractional '
              'forms) recompose, with the arithmetic duration._parse applies to those same fields, to exactly the original seconds and '
              'microseconds, every component is in its unit range and the units appear once and in order; (2) timestamp.__lt__ / __gt__ with '
              'floats treated as reals: a < b implies the millisecond renderings are strictly ordered the same way, and equal renderings '
              'compare equal. That the regular expression maps the emitted text back to those tokens, and render/parse across every zone, '
              'DST transition and precision, are checked only up to a bound (not counted).')
LEVEL_NOTE = ('T8: floats as exact reals; rounding to milliseconds as any value within 0.0005 s. The token abstraction of str.format/rstrip is an '
              'assumed model (the text level is bounded). Domain calibrated on this image: only UTC and full-zone-name renderings are parseable '
              '(zoneinfo-based pytz shim, no abbreviation support); ambiguous wall-clock times must be rejected.')
TECHNIQUE = 'contract on duration._format over an abstract token log + lemmas over timestamp comparison, contracts on timestamp arithmetic and the rendering cache (reals), VCs from the real AST, z3; bounded render/parse over zones, transitions, precisions and duration texts'
TRUSTED = ['T8 floats as reals', 'arithmetic contracts: the constructor timestamp(x) by an assumed model (a new timestamp identified with its value)', 'cache contracts: render(ms=True) as an uninterpreted function of the value (its frame is the render_frame obligation, AST-decided)', 'str.format / rstrip abstracted to unit tokens (text level only in the bounded tier)', 'zoneinfo / pytz shim, re, datetime are external (T4)']
ASSUMPTIONS = ['non-negative durations', 'parseable renderings on this image: UTC default and tzdetail=True full zone names']

T = "history/times.py"
UNITS = {'years': 1, 'weeks': 2, 'days': 3, 'hours': 4, 'minutes': 5, 's': 6, 'us': 7, 'ms': 8}


def format_hook(eng, fmt, args, kw, st, n):
    """"{years}y".format(years=years) etc.: an opaque text, logged as the token (unit, value[, micro])"""
    line = getattr(n, 'lineno', None)
    if fmt == '{s}.{us:0>6}':
        tok = TupV([IntV(9), IntV(to_int(kw['s'])), IntV(to_int(kw['us']))])
    else:
        name = fmt.strip('{}').split('}')[0]
        if name not in UNITS or set(kw) != {name}:
            raise Unsupported('format string %r at line %s' % (fmt, line))
        tok = TupV([IntV(UNITS[name]), IntV(to_int(kw[name])), IntV(0)])
    st2 = eng.emit(st, tok, line)
    yield st2, SeqV(fresh('text', IntSeq), 'str')


def strip_hook(eng, recv, name, args, st, n):
    yield st, SeqV(fresh('stripped', IntSeq), 'str')


def tokens(pe):
    n = const_of(to_int(pe.ns['NOUT']))
    if n is None:
        raise Unsupported('token count is not concrete')
    out = []
    for j in range(n):
        t = pe.funcs['OUT'](pe, IntV(j))
        out.append([x.t for x in t.items])
    return out


WEIGHT = {1: 31557600, 2: 604800, 3: 86400, 4: 3600, 5: 60, 6: 1}


def tot_seconds(pe):
    """seconds as duration._parse recomposes them from the fields the tokens carry"""
    terms = []
    for code, a, b in tokens(pe):
        c = const_of(code)
        if c in WEIGHT:
            terms.append(a * WEIGHT[c])
        elif c == 9:
            terms.append(a)
    return IntV(z3.Sum(terms) if terms else z3.IntVal(0))


def tot_micro(pe):
    terms = []
    for code, a, b in tokens(pe):
        c = const_of(code)
        if c == 7:
            terms.append(a)
        elif c == 8:
            terms.append(a * 1000)
        elif c == 9:
            terms.append(b)
    return IntV(z3.Sum(terms) if terms else z3.IntVal(0))


def in_ranges(pe):
    lim = {2: 53, 3: 7, 4: 24, 5: 60, 6: 60, 7: 1000000, 8: 1000}
    cs = []
    prev = 0
    for code, a, b in tokens(pe):
        c = const_of(code)
        cs.append(z3.BoolVal(c > prev if c != 9 else prev <= 5))          # units once, in order y w d h m then seconds forms
        prev = c if c not in (7, 8) else max(prev, 6)
        if c in lim:
            cs.append(z3.And(a >= 1, a < lim[c]))
        elif c == 1:
            cs.append(a >= 1)
        elif c == 9:
            cs.append(z3.And(a >= 0, a < 60, b >= 1, b < 1000000))
    from pyvc.vals import BoolV
    return BoolV(z3.And(*cs) if cs else z3.BoolVal(True))


def format_spec():
    return Spec('duration._format', (T, 'duration._format'), params={'_g_days': 'Int', '_g_seconds': 'Int', '_g_micro': 'Int'},
                env={'delta.days': '_g_days', 'delta.seconds': '_g_seconds', 'delta.microseconds': '_g_micro'},
                requires='_g_days >= 0 and 0 <= _g_seconds < 86400 and 0 <= _g_micro < 1000000',
                yields=3,
                ensures=[('recomposition: the emitted fields give back exactly the seconds (arithmetic of duration._parse)', 'TOTSEC() == _g_days * 86400 + _g_seconds'),
                         ('recomposition: ... and the microseconds', 'TOTUS() == _g_micro'),
                         ('components in range, units once and in order', 'RANGES()'),
                         ('something is always emitted (the literal 0s only for the zero duration)', 'NOUT >= 1 or (_g_days == 0 and _g_seconds == 0 and _g_micro == 0)')],
                raises={}, modifies=[],
                hints=dict(str_format=format_hook, str_strip=strip_hook, funcs={'TOTSEC': tot_seconds, 'TOTUS': tot_micro, 'RANGES': in_ranges}),
                replay=replay_duration,
                note='text formatting abstracted to unit tokens; YR/WK/DY/HR/MN read from the class constants')


def cmp_specs():
    fields = {'value': 'Real'}
    rhs = ('Obj', 'timestamp', {'value': 'Real'})
    lt = Spec('timestamp.__lt__', (T, 'timestamp.__lt__'), params={'rhs': rhs}, fields=fields,
              ensures=[('less-than means more than one millisecond earlier', 'result == (self.value + 1/1000 < rhs.value)')],
              raises={}, modifies=[], note='T8: float arithmetic as exact reals; _epsilon read from the class constants (10**-3)')
    gt = Spec('timestamp.__gt__', (T, 'timestamp.__gt__'), params={'rhs': rhs}, fields=fields,
              ensures=[('greater-than means more than one millisecond later', 'result == (self.value - 1/1000 > rhs.value)')],
              raises={}, modifies=[])
    lt.returns = gt.returns = 'Bool'
    cal = {'timestamp.__lt__': lt, '__lt__': lt, 'timestamp.__gt__': gt, '__gt__': gt}
    LT, GT = '(self.value + 1/1000 < rhs.value)', '(self.value - 1/1000 > rhs.value)'
    ne = Spec('timestamp.__ne__', (T, 'timestamp.__ne__'), params={'rhs': rhs}, fields=fields,
              ensures=[('different means more than one millisecond apart', 'result == (%s or %s)' % (LT, GT))], raises={}, modifies=[], callees=cal, returns='Bool')
    eq = Spec('timestamp.__eq__', (T, 'timestamp.__eq__'), params={'rhs': rhs}, fields=fields,
              ensures=[('equal means within one millisecond: neither < nor >', 'result == (not %s and not %s)' % (LT, GT))], raises={}, modifies=[],
              callees=dict(cal, **{'timestamp.__ne__': ne, '__ne__': ne}))
    le = Spec('timestamp.__le__', (T, 'timestamp.__le__'), params={'rhs': rhs}, fields=fields,
              ensures=[('<= is not >', 'result == (not %s)' % GT)], raises={}, modifies=[], callees=cal)
    ge = Spec('timestamp.__ge__', (T, 'timestamp.__ge__'), params={'rhs': rhs}, fields=fields,
              ensures=[('>= is not <', 'result == (not %s)' % LT)], raises={}, modifies=[], callees=cal)
    return [lt, gt, ne, eq, le, ge]


RENDERED = z3.Function('ms_utc_rendering', z3.RealSort(), IntSeq)         # render(ms=True) of a value, as an uninterpreted function of the value


def render_callee(eng, recv, args, kw, st, n):
    """ASSUMED model of self.render(ms=True) inside __str__: a function of the current value only (its frame is the render_frame obligation)"""
    from pyvc.vals import RefV
    val = st.heap[(recv.id, 'value')]
    val = val[1] if isinstance(val, tuple) else val
    yield st, SeqV(RENDERED(val.t), 'str')


def replay_cache(model, obligation):
    from cpppo.history import times
    for v0 in (1000.0004, 1399326141.9994, 1414915323.1225, -5.5):
        for step in (0.0004, -0.0003, 0.002, 1, -1.5, 1e-4):
            ts = times.timestamp(v0)
            str(ts)
            ts += step
            a = (str(ts), str(times.timestamp(ts.value)))
            ts = times.timestamp(v0)
            str(ts)
            ts -= step
            b = (str(ts), str(times.timestamp(ts.value)))
            for got, fresh in (a, b):
                if got != fresh:
                    return dict(confirmed=True, function='cpppo.history.times.timestamp.__iadd__/__isub__/__str__', input='timestamp(%r); str(); adjust by %r; str()' % (v0, step),
                                observed=got, required='%s (the rendering of the adjusted value)' % fresh)
    return dict(confirmed=False)


def cache_specs():
    """the lazily cached millisecond UTC rendering stays coherent with the value: INV := _str is None or _str == rendering(value)"""
    fields = {'value': 'Real', '_str': ('Union', ['None', 'Str'])}
    funcs = dict(rendering=lambda pe, v: SeqV(RENDERED(v.t), 'str'))
    INV = '(self._str is None or self._str == rendering(self.value))'
    out = []
    for name, sign in (('__iadd__', '+'), ('__isub__', '-')):
        out.append(Spec('timestamp.%s' % name, (T, 'timestamp.%s' % name), params={'rhs': 'Real'}, fields=fields, requires=INV,
                        ensures=[('the value is adjusted by the amount given', 'self.value == old(self.value) %s rhs' % sign),
                                 ('the cached rendering is dropped whenever the value changes', 'implies(self.value != old(self.value), self._str is None)'),
                                 ('the cache stays coherent with the value', INV)],
                        raises={}, modifies=['self.value', 'self._str'], hints=dict(funcs=funcs), replay=replay_cache,
                        note='T8: float arithmetic as exact reals; the rendering is an uninterpreted function of the value'))
    out.append(Spec('timestamp.__str__', (T, 'timestamp.__str__'), params={}, fields=fields, requires=INV,
                    ensures=[('str() is the millisecond UTC rendering of the current value', 'result == rendering(self.value)'),
                             ('the cache stays coherent with the value', INV), ('the value is untouched', 'self.value == old(self.value)')],
                    raises={}, modifies=['self._str'], callees={'render': render_callee, 'timestamp.render': render_callee}, hints=dict(funcs=funcs), replay=replay_cache,
                    note='render(ms=True) by its assumed model (a function of the value; frame: render_frame)'))
    return out


def new_timestamp(eng, ch, args, kw, st, n):
    """ASSUMED model of the constructor `timestamp(x)` as a callee: a new timestamp is identified with its value - x itself for a number, x.value for a
    timestamp (timestamp.__init__ copies the value of a timestamp argument)."""
    from pyvc.vals import RefV
    if len(args) != 1 or kw:
        raise Unsupported('timestamp(...) with arguments %r %r' % (args, kw))
    a = args[0]
    if isinstance(a, RefV):
        val = st.heap[(a.id, 'value')]
        a = val[1] if isinstance(val, tuple) else val
    yield st, a


def replay_arith(model, obligation):
    from cpppo.history import times
    for v0 in (1000.25, 1399326141.5, -5.5, 0.0):
        for step in (0, 0.0, 0.5, -0.25, 3, -7):
            for name, want in (('+', v0 + step), ('-', v0 - step)):
                ts = times.timestamp(v0)
                txt = str(ts)
                got = ts + step if name == '+' else ts - step
                if not isinstance(got, times.timestamp) or got is ts or got.value != want or ts.value != v0 or str(ts) != txt or str(got) != str(times.timestamp(want)):
                    return dict(confirmed=True, function='cpppo.history.times.timestamp.__add__/__sub__', input='timestamp(%r) %s %r' % (v0, name, step),
                                observed='%r (operand now %r)' % (got, ts), required='a new timestamp of value %r, the operand unchanged' % (want,))
    return dict(confirmed=False)


def arith_specs():
    """timestamp + number / timestamp - number: a new timestamp of the adjusted value; the operand (value and cached rendering) is untouched"""
    fields = {'value': 'Real', '_str': ('Union', ['None', 'Str'])}
    out = []
    for name, sign in (('__add__', '+'), ('__sub__', '-')):
        out.append(Spec('timestamp.%s' % name, (T, 'timestamp.%s' % name), params={'rhs': 'Real'}, fields=fields,
                        ensures=[('the result is a timestamp of the value adjusted by the amount given', 'result == old(self.value) %s rhs' % sign),
                                 ('the operand keeps its value', 'self.value == old(self.value)')],
                        raises={}, modifies=[], hints=dict(construct={'timestamp': new_timestamp}), replay=replay_arith,
                        note='T8: float arithmetic as exact reals; timestamp(x) by its assumed model (a new timestamp is identified with its value)'))
    return out


def order_lemmas(repo):
    a, b, ra, rb = z3.Reals('a b ra rb')
    eps = z3.RealVal('1/1000')
    half = z3.RealVal('1/2000')
    rounding = [ra - a <= half, a - ra <= half, rb - b <= half, b - rb <= half]     # millisecond renderings (any rounding mode)
    lt = a + eps < b
    gt = a - eps > b
    eq = z3.Not(z3.Or(lt, gt))
    return [('a < b never contradicts the rendering order: the renderings are strictly ordered', rounding + [lt], ra < rb),
            ('a > b never contradicts the rendering order', rounding + [gt], ra > rb),
            ('equal millisecond renderings compare equal', rounding + [ra == rb], eq),
            ('trichotomy: exactly one of <, ==, >', [], z3.And(z3.Or(lt, gt, eq), z3.Not(z3.And(lt, gt)), z3.Not(z3.And(lt, eq)), z3.Not(z3.And(gt, eq))))]


def render_frame(repo):
    """Frame condition of timestamp.render (and of the class method it calls): rendering observes the instant, it assigns nothing of it.
    Decided on the AST of the real functions: stores to / deletions of an attribute or item of self / cls, setattr / delattr / object.__setattr__
    on them, access to their __dict__, and calls of other methods of self (whose frame is not known) are counted; the obligation is that the count is 0."""
    import ast
    out = []
    todo = ['render']
    done = []
    while todo:
        name = todo.pop(0)
        if name in done:
            continue
        done.append(name)
        qual = 'timestamp.' + name
        try:
            mod, cls, fdef = repo.find_function('history/times.py', qual)
        except Exception:
            raise Unsupported('stale contract: %s (called while rendering) is not a method of timestamp' % qual)
        recv = fdef.args.args[0].arg
        writes = []
        for n in ast.walk(fdef):
            if isinstance(n, (ast.Attribute, ast.Subscript)) and isinstance(n.ctx, (ast.Store, ast.Del)):
                base = n.value
                while isinstance(base, (ast.Attribute, ast.Subscript)):
                    base = base.value
                if isinstance(base, ast.Name) and base.id == recv:
                    writes.append('line %d: assigns %s' % (n.lineno - fdef.lineno, ast.unparse(n)))
            elif isinstance(n, ast.Call):
                f = n.func
                fname = f.id if isinstance(f, ast.Name) else (f.attr if isinstance(f, ast.Attribute) else '')
                if fname in ('setattr', 'delattr', '__setattr__', '__delattr__', '__setitem__', 'update', 'setdefault') and any(
                        isinstance(a, ast.Name) and a.id == recv or (isinstance(a, ast.Attribute) and isinstance(a.value, ast.Name) and a.value.id == recv)
                        for a in list(n.args) + ([f.value] if isinstance(f, ast.Attribute) else [])):
                    writes.append('line %d: %s' % (n.lineno - fdef.lineno, ast.unparse(n)[:60]))
                elif isinstance(f, ast.Attribute) and isinstance(f.value, ast.Name) and f.value.id == recv:
                    todo.append(f.attr)               # a method of the same object: its frame is checked as well
            elif isinstance(n, ast.Attribute) and n.attr == '__dict__' and isinstance(n.value, ast.Name) and n.value.id == recv:
                writes.append('line %d: reaches %s.__dict__' % (n.lineno - fdef.lineno, recv))
            elif isinstance(n, (ast.Global, ast.Nonlocal)):
                writes.append('line %d: %s' % (n.lineno - fdef.lineno, ast.unparse(n)))
        w = z3.Int('writes_in_%s' % name)
        out.append(('%s assigns nothing of %s' % (qual, recv), [w == len(writes)], w == 0))
    if len(out) < 2:
        raise Unsupported('stale contract: render no longer goes through datetime_from_number')
    return out


def replay_render_frame(model, obligation):
    from cpppo.history import times
    tz = times.pytz.timezone('America/Edmonton')
    for v in (1414915323.1225, 1000.0004, -1.25, 1700000000.987654):
        for ms in (1, 2, 4, 5, 6, 0, False, True, 3):
            for zone, tzd in ((None, None), (tz, None), (tz, False), (tz, True)):
                ts = times.timestamp(v)
                before = dict(vars(ts)) if hasattr(ts, '__dict__') else None
                ts.render(tzinfo=zone, ms=ms, tzdetail=tzd)
                fresh = times.timestamp(v)
                if str(ts) != str(fresh) or ts.value != fresh.value or ts.render(ms=True) != fresh.render(ms=True):
                    return dict(confirmed=True, function='cpppo.history.times.timestamp.render', input='timestamp(%r).render(%s, ms=%r, tzdetail=%r); str(ts)' % (v, zone, ms, tzd),
                                observed='str() %r / render(ms=True) %r' % (str(ts), ts.render(ms=True)), required='%r: rendering does not change what the timestamp is or renders as' % str(fresh))
    return dict(confirmed=False)


def contracts(repo):
    return [format_spec()] + cmp_specs() + cache_specs() + arith_specs() + [Custom('render_frame', render_frame, replay=replay_render_frame, targets=[(T, 'timestamp.render'), (T, 'timestamp.datetime_from_number'), (T, 'timestamp.timezone_info')],
                                                   note='frame condition decided on the AST of the real timestamp.render / datetime_from_number: no store to self / cls')] + [Custom('order', order_lemmas, note='over the contracts of __lt__/__gt__: lt := a + eps < b, gt := a - eps > b, eq := neither')]


# ------------------------------------------------------------------------------------------------ bounded
def replay_duration(model, obligation):
    from cpppo.history import times
    m = model or {}
    cands = [(int(m.get('_g_days', 0)), int(m.get('_g_seconds', 0)), int(m.get('_g_micro', 0)))]
    cands += [(0, 0, 0), (0, 59, 0), (0, 60, 0), (0, 3600, 0), (1, 0, 0), (7, 0, 0), (365, 21600, 0), (366, 1, 1), (0, 1, 500000), (0, 0, 1500), (0, 0, 1000), (400, 86399, 999999)]
    for d, s, us in cands:
        if d < 0 or not (0 <= s < 86400) or not (0 <= us < 1000000):
            continue
        td = datetime.timedelta(days=d, seconds=s, microseconds=us)
        try:
            txt = str(times.duration(td))
            back = times.duration(txt).timedelta
        except Exception as e:
            txt, back = 'raised', '%s: %s' % (type(e).__name__, e)
        if back != td:
            return dict(confirmed=True, function='cpppo.history.times.duration', input=repr(td), observed='%r -> %r' % (txt, back), required='duration(str(d)) == d')
    return dict(confirmed=False)


def bounded(tier, seed):
    import warnings
    import zoneinfo
    warnings.simplefilter('ignore')
    from cpppo.history import times
    rng = random.Random(seed)
    ev = 0
    distinct = set()
    violations = []
    samples = []

    def viol(key, obs, req):
        if len(violations) < 8:
            violations.append(dict(key=key, observed=str(obs)[:300], required=req))
    # durations: lattice of components + random
    comps = []
    for y in (0, 1, 3):
        for w in (0, 1, 52):
            for d in (0, 1, 6):
                for h in (0, 23):
                    for mi in (0, 59):
                        for s in (0, 1, 59):
                            for us in (0, 1, 999, 1000, 1500, 999000, 999999, 500000):
                                comps.append((y, w, d, h, mi, s, us))
    rng.shuffle(comps)
    for y, w, d, h, mi, s, us in comps[:600 if tier == 'quick' else len(comps)]:
        total = y * 31557600 + w * 604800 + d * 86400 + h * 3600 + mi * 60 + s
        td = datetime.timedelta(seconds=total, microseconds=us)
        ev += 1
        distinct.add(('d', total, us))
        try:
            txt = str(times.duration(td))
            back = times.duration(txt).timedelta
            ok = back == td
        except Exception as e:
            txt, ok, back = '?', False, '%s: %s' % (type(e).__name__, e)
        if not ok:
            viol('duration %r' % (td,), '%r parses back to %r' % (txt, back), 'duration(str(d)) == d')
        if len(samples) < 4 and us and s and y:
            samples.append(dict(duration=str(td), text=txt))
    # sub-second durations: every microsecond count 0..2999 and seeded 6-digit values (a fraction must parse back digit for digit, not through a float)
    for us in list(range(0, 3000)) + [rng.randint(0, 999999) for _ in range(2000 if tier == 'quick' else 20000)]:
        for secs in (0, 59):
            td = datetime.timedelta(seconds=secs, microseconds=us)
            ev += 1
            distinct.add(('us', secs, us))
            try:
                txt = str(times.duration(td))
                back = times.duration(txt).timedelta
                ok = back == td
            except Exception as e:
                txt, ok, back = '?', False, '%s: %s' % (type(e).__name__, e)
            if not ok:
                viol('duration %r' % (td,), '%r parses back to %r' % (txt, back), 'duration(str(d)) == d')
    # in-place adjustments (+=, -=) by less than a millisecond: the rendering is that of the adjusted value (not a cached older one),
    # so that it still parses back to the instant and agrees with the comparisons
    for v0 in (1000.0004, 1399326141.9994, 1700000000.0, 1414915323.1225):
        for step in (0.0002, 0.0004, -0.0003, 0.0009):
            ev += 1
            distinct.add(('nudge', v0, step))
            try:
                ts = times.timestamp(v0)
                str(ts)
                bad = None
                for k in range(5):
                    if step > 0:
                        ts += step
                    else:
                        ts -= -step
                    txt, fresh = str(ts), str(times.timestamp(ts.value))
                    if txt != fresh:
                        bad = 'after %d adjustments of %+g s the value is %r but str() gives %r (a fresh timestamp of that value renders %r)' % (k + 1, step, ts.value, txt, fresh)
                        break
            except Exception as e:
                bad = 'raised %s: %s' % (type(e).__name__, e)
            if bad:
                viol('in-place adjustment of timestamp(%r) by %+g' % (v0, step), bad, 'str(ts) is the rendering of the current value')
    # timestamps: UTC default rendering and full zone names around every DST transition
    zones = sorted(zoneinfo.available_timezones())
    if tier == 'quick':
        zones = ['UTC', 'America/Edmonton', 'Europe/Berlin', 'Australia/Lord_Howe', 'Asia/Kolkata', 'America/St_Johns', 'Pacific/Chatham', 'Africa/Casablanca', 'Africa/Porto-Novo', 'Etc/GMT-3'] + rng.sample(zones, 12)
    base_instants = [1000.0, 1399326141.999836, 1414915323.1225, 1414915323.9995, 1700000000.0005, 2000000000.25,
                     -1.25, -1000.001, -86400.75, -0.5, -1e9 + 0.125]             # instants before 1970 too
    for zn in zones:
        try:
            z = zoneinfo.ZoneInfo(zn)
        except Exception:
            continue
        # transitions of this zone in 2010..2030: scan by day for an offset change, then refine to the second
        insts = list(base_instants)
        t = 1262304000
        last = datetime.datetime.fromtimestamp(t, z).utcoffset()
        while t < 1900000000:
            t2 = t + 86400 * 7
            off = datetime.datetime.fromtimestamp(t2, z).utcoffset()
            if off != last:
                lo, hi = t, t2
                while hi - lo > 1:
                    mid = (lo + hi) // 2
                    if datetime.datetime.fromtimestamp(mid, z).utcoffset() == last:
                        lo = mid
                    else:
                        hi = mid
                # (-0.0004: a sub-millisecond fraction that rounds up INTO the transition second)
                for dlt in (-3600, -1, -0.001, -0.0004, 0, 0.001, 1, 1799, 3600):
                    insts.append(hi + dlt)
                last = off
                if tier == 'quick' and len(insts) > 30:
                    break
            t = t2
        for v in insts:
            for tzd in ((None, True) if zn != 'UTC' else (None,)):
                ev += 1
                distinct.add((zn, v, tzd))
                try:
                    ts = times.timestamp(v)
                    if zn == 'UTC' or tzd is None:
                        txt = ts.render(ms=True)             # default UTC rendering
                        back = times.timestamp(txt)
                    else:
                        txt = ts.render(tzinfo=times.pytz.timezone(zn), ms=True, tzdetail=True)
                        # ambiguous wall-clock time (fold) in this zone?
                        dt = datetime.datetime.fromtimestamp(round(v, 3), z)
                        amb = dt.replace(fold=0).utcoffset() != dt.replace(fold=1).utcoffset()
                        try:
                            back = times.timestamp(txt)
                        except Exception as e:
                            back = None
                            if not amb:
                                viol('timestamp %r zone %s' % (v, zn), '%r rejected: %s' % (txt, e), 'parses back to the same instant')
                            continue
                        if amb:
                            if abs(back.value - round(v, 3)) > 0.0005:
                                viol('ambiguous %r zone %s' % (v, zn), '%r -> %r' % (txt, back.value), 'rejected, or the same instant')
                            continue
                    if abs(back.value - round(v, 3)) > 0.00051:
                        viol('timestamp %r zone %s' % (v, zn), '%r -> %r' % (txt, back.value), 'the same instant to the millisecond')
                except Exception as e:
                    if 'timezone' in str(e).lower() and tzd:
                        continue
                    viol('timestamp %r zone %s' % (v, zn), 'raised %s: %s' % (type(e).__name__, e), 'renders and parses')
    # every rendering form: any zone, numeric UTC offsets (tzdetail=False) parsed into any target zone, any sub-second precision; and a rendering observes
    # the timestamp without changing it: str() / the ms UTC rendering afterwards are those of a fresh timestamp of the same value
    fold = 1414285200                      # 2014-10-26 01:00:00 UTC: Europe/London and Europe/Lisbon fall back to UTC+00:00
    render_zones = ['Europe/London', 'Europe/Lisbon', 'UTC', 'Africa/Abidjan', 'America/Edmonton', 'Asia/Kolkata', 'Australia/Lord_Howe', 'America/St_Johns', 'Pacific/Chatham']
    parse_zones = [None, 'UTC', 'Europe/London', 'America/Edmonton', 'Asia/Kolkata', 'Pacific/Chatham']
    if tier != 'quick':
        render_zones += rng.sample(sorted(zoneinfo.available_timezones()), 25)
    insts2 = [fold + m * 60 + f for m in (-90, -30, -1, 0, 1, 59, 150) for f in (0.0, 0.25, 0.999)] + [1399326141.999836, 1700000000.0005, -1000.001, 1404000000.5]
    for rz in render_zones:
        try:
            rtz = times.pytz.timezone(rz)
        except Exception:
            continue
        for v in insts2:
            for ms in (True, False, 1, 6) if tier == 'quick' else (True, False, 0, 1, 2, 3, 4, 5, 6):
                ev += 1
                distinct.add(('numeric', rz, v, ms))
                try:
                    ts = times.timestamp(v)
                    txt = ts.render(rtz, ms=ms, tzdetail=False)
                    digits = 3 if ms is True else int(ms)
                    want = round(v, digits) if digits else float(math.floor(v))
                    if str(ts) != str(times.timestamp(v)) or ts.render(ms=True) != times.timestamp(v).render(ms=True):
                        viol('timestamp(%r).render(%s, ms=%r, tzdetail=False) then str()' % (v, rz, ms), 'str() gives %r, render(ms=True) %r' % (str(ts), ts.render(ms=True)),
                             'the millisecond UTC rendering %r of the unchanged instant' % str(times.timestamp(v)))
                    for pz in parse_zones + [rz]:
                        back = times.timestamp(times.parse_datetime(txt, zone=pz))
                        if abs(back.value - want) > 0.00051:
                            viol('timestamp %r rendered in %s with numeric offset (ms=%r), parsed into zone %r' % (v, rz, ms, pz), '%r -> %r' % (txt, back.value),
                                 'the same instant %r: the text carries its own UTC offset' % want)
                            break
                except Exception as e:
                    viol('timestamp %r rendered in %s with numeric offset (ms=%r)' % (v, rz, ms), 'raised %s: %s' % (type(e).__name__, e), 'renders and parses')
    # comparisons vs rendering
    for _ in range(300 if tier == 'quick' else 5000):
        a = rng.choice(base_instants) + rng.choice([0, 0.0004, 0.0005, 0.0006, 0.001, 0.0011, 0.002, -0.001, 0.00099])
        b = a + rng.choice([0, 0.0004, 0.0005, 0.00051, 0.001, 0.00101, 0.0011, 0.002, -0.0011])
        ta, tb = times.timestamp(a), times.timestamp(b)
        ra, rb = ta.render(ms=True), tb.render(ms=True)
        ev += 1
        distinct.add(('c', a, b))
        if (ta < tb and not ra < rb) or (ta > tb and not ra > rb) or (ra == rb and not ta == tb):
            viol('compare %r %r' % (a, b), 'lt=%r gt=%r eq=%r renderings %r %r' % (ta < tb, ta > tb, ta == tb, ra, rb), 'comparison consistent with the renderings')
    return dict(evaluations=ev, distinct_nontrivial=len(distinct), distinct_keys=distinct_keys(distinct),
                rule='durations: lattice of (years, weeks, days, hours, minutes, seconds, microseconds) boundary values: duration(str(d)) == d; timestamps: UTC default '
                     'rendering and full-zone-name rendering (tzdetail=True) for zones of the installed database (10 fixed, two of them with `-` in the name, + 12 seeded in quick, all in thorough) at fixed '
                     'instants (sub-ms fractions rounding into the next second) and at every DST transition 2010-2030 -1h/-1s/-1ms/0/+1ms/+1s/+30min/+1h: parse(render) == '
                     'instant to the ms, ambiguous wall times rejected or exact; comparisons vs renderings at ms/sub-ms distances; distinct = distinct cases',
                exhaustive=False, samples=samples, violations=violations[:20], seed=seed)
