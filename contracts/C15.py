"""C15 — route-path filtering follows the configured device personality.

P: FRAGMENT of UCMM.request: the acceptance assertion with its guard `self.route_path is not None`
   is equivalent to the property's table; it precedes the dispatch `CM.request(...)` in the same
   block inside the try whose handler leaves a non-zero enip.status (checked on the AST).
B: textual route paths -> segments vs a reference parser; end-to-end accept/refuse x configurations.
"""
from .util import distinct_keys
import ast
import json
import random

import z3

from pyvc.spec import Spec
from pyvc.vals import IntV, BoolV, TupV, NONE, UnionV, Unsupported

PROPERTY = 'C15'
LEVEL = 'proof'
LEVEL_TEXT = ('Deductive proof of the decision: the real acceptance assertion of UCMM.request (with its guard) is executed symbolically over the '
              'value model {no configuration, simple device (falsy), configured path} x {no route path, empty, any path}: it accepts exactly when the '
              'table of the property says so; on the AST the assertion dominates the dispatch to the Connection Manager inside the try whose handler sets a '
              'non-zero encapsulation status, so a refused request performs no dispatch. Text -> segments (port/link strings, chained, JSON, IP links) '
              'and end-to-end accept/refuse pairs are compared with a reference only up to a bound (not counted).')
LEVEL_NOTE = ('FRAGMENT (T9): only the guard+assert statement of UCMM.request, route paths modelled by identity codes (list equality == code equality); '
              'the remote-routing branch (self.route table) is bounded-only. FRAGMENT of UCMM.__init__: the statement that loads "[UCMM] Route Path" keeps a personality given at run time and '
              'otherwise takes what the file says (parse_route_path modelled as any of none / false / 0 / a path; its text handling is bounded-only).')
TECHNIQUE = 'fragment contracts on the UCMM.request acceptance assertion (value model, AST dominance check) and on the UCMM.__init__ statement that loads the configured route path, z3; bounded reference parser for route-path texts and end-to-end pairs'
TRUSTED = ['T9 fragment; list equality modelled as equality of identity codes', 'device.parse_route_path / Object.config_str inside UCMM.__init__: assumed to return any of none / false / 0 / a route path (no contract)']
ASSUMPTIONS = ['text domain: p/l strings, chained p/l/p/l, JSON lists/dicts (scalars 0/false/null raise TypeError in parse_route_path on this tree: outside the domain)']

U = "server/enip/ucmm.py"


def frag_accept(eng, fdef):
    target = None
    for n in ast.walk(fdef):
        if isinstance(n, ast.If) and ast.unparse(n.test) == 'self.route_path is not None' and any(isinstance(b, ast.Assert) for b in n.body):
            target = n
    if target is None:
        raise Unsupported('stale contract: UCMM.request has no `if self.route_path is not None: assert ...`')
    # dominance: inside a Try with an `except Exception` handler that assigns enip.status; followed in the same block by CM.request(...)
    def find_block(node, path):
        for fld in ('body', 'orelse', 'finalbody', 'handlers'):
            for blk in [getattr(node, fld, [])]:
                if isinstance(blk, list) and target in blk:
                    return blk, path + [node]
                for ch in blk if isinstance(blk, list) else []:
                    r = find_block(ch, path + [node])
                    if r:
                        return r
        return None
    blk, path = find_block(fdef, [])
    after = blk[blk.index(target) + 1:]
    if not any('CM.request' in ast.unparse(s) for s in after):
        raise Unsupported('stale contract: the acceptance check is no longer followed by CM.request(...) in the same block')
    if any('.request(' in ast.unparse(s) for s in blk[:blk.index(target)]):
        raise Unsupported('stale contract: a request is dispatched before the acceptance check')
    tries = [p for p in path if isinstance(p, ast.Try)]
    ok = False
    for t in tries:
        for h in t.handlers:
            if h.type is not None and ast.unparse(h.type) == 'Exception' and 'enip.status' in ast.unparse(h) and '0x08' in ast.unparse(h).lower().replace('8', '0x08', 0):
                ok = True
            if h.type is not None and ast.unparse(h.type) == 'Exception' and "data['enip.status'] = 8" in ast.unparse(h):
                ok = True
    if not ok:
        raise Unsupported('stale contract: no enclosing `except Exception` handler sets a non-zero enip.status')
    return [target]


def path_value(prefix):
    """None | [] | a non-empty route path (identified by a code)"""
    def build(eng, name, st):
        sel = z3.Int(prefix + '_kind')
        st = st.clone()
        st.pc += [sel >= 0, sel <= 2]
        code = z3.Int(prefix + '_code')
        eng.init_vals[prefix + '_kind'] = IntV(sel)
        eng.init_vals[prefix + '_code'] = IntV(code)
        return UnionV([(sel == 0, NONE), (sel == 1, TupV([])), (sel == 2, TupV([IntV(code)]))]), st
    return build


def config_value(eng, name, st):
    """self.route_path: None (no configuration) | False (simple device) | configured path"""
    sel = z3.Int('_g_cfg_kind')
    st = st.clone()
    st.pc += [sel >= 0, sel <= 3]
    code = z3.Int('_g_cfg_code')
    eng.init_vals['_g_cfg_kind'] = IntV(sel)
    eng.init_vals['_g_cfg_code'] = IntV(code)
    return UnionV([(sel == 0, NONE), (sel == 1, BoolV(False)), (sel == 2, IntV(0)), (sel == 3, TupV([IntV(code)]))]), st


ACCEPT = ("_g_cfg_kind == 0 or "                                               # no configuration: any route path
          "(_g_cfg_kind in (1, 2) and _g_req_kind in (0, 1)) or "                # simple device: only requests without a route path
          "(_g_cfg_kind == 3 and (_g_req_kind in (0, 1) or (_g_req_kind == 2 and _g_req_code == _g_cfg_code)))")   # configured: none, or exactly it


def frag_init_config(eng, fdef):
    """the statement of UCMM.__init__ that loads the configured route path: `if self.route_path is None: self.route_path = device.parse_route_path(...)`"""
    target = [n for n in fdef.body if isinstance(n, ast.If) and 'route_path' in ast.unparse(n.test)
              and any(isinstance(b, ast.Assign) and ast.unparse(b.targets[0]) == 'self.route_path' for b in ast.walk(n))]
    if len(target) != 1:
        raise Unsupported('stale contract: UCMM.__init__ has %d statements that conditionally assign self.route_path' % len(target))
    others = [n for n in ast.walk(fdef) if isinstance(n, (ast.Assign, ast.AugAssign, ast.Delete)) and 'self.route_path' in
              [ast.unparse(t) for t in (n.targets if not isinstance(n, ast.AugAssign) else [n.target])] and not any(n in list(ast.walk(t)) for t in target)]
    if others:
        raise Unsupported('stale contract: UCMM.__init__ assigns self.route_path outside the configuration statement (line %d)' % others[0].lineno)
    return target


def replay_init(model, obligation):
    """a personality given at run time (class attribute, as main() does for --route-path / --simple) survives the construction of the UCMM object, with and
    without a "[UCMM] Route Path" in the configuration; without one the configuration decides"""
    import cpppo
    from cpppo.server.enip import device, ucmm
    loader = device.Object.config_loader
    for file_text, file_value in ((None, None), ('1/0', [{'port': 1, 'link': 0}]), ('false', False)):
        had = loader.has_section('UCMM')
        saved = dict(loader.items('UCMM', raw=True)) if had else None
        try:
            if file_text is not None:
                loader.read_string('[UCMM]\nRoute Path = %s\n' % file_text)
            for given in (False, 0, [{'port': 1, 'link': 0}], [{'port': 2, 'link': '10.0.0.1'}], None):
                device.lookup_reset()
                class UCMM(ucmm.UCMM):
                    route_path = given
                try:
                    got = UCMM().route_path
                finally:
                    device.lookup_reset()
                want = given if given is not None else file_value
                if got != want or type(got) is not type(want):
                    return dict(confirmed=True, function='cpppo.server.enip.ucmm.UCMM.__init__',
                                input='UCMM subclass with route_path = %r, configuration %s' % (given, 'without a Route Path' if file_text is None else '"[UCMM] Route Path = %s"' % file_text),
                                observed='route_path %r after construction' % (got,),
                                required='%r, %s' % (want, 'the personality given at run time' if given is not None else 'what the configuration says'))
        finally:
            if file_text is not None:
                if had:
                    loader.remove_option('UCMM', 'Route Path')
                    for k, v in saved.items():
                        loader.set('UCMM', k, v)
                else:
                    loader.remove_section('UCMM')
    return dict(confirmed=False)


def init_spec():
    from pyvc.expr import ModuleHandle
    from pyvc.vals import OpaqueV
    from pyvc.pure import USort
    def parse(eng, recv, args, kw, st, n):
        # what the configuration file says: nothing | false / 0 | some route path (any of them, unconstrained)
        sel, code = z3.Int('_g_file_kind'), z3.Int('_g_file_code')
        st = st.clone()
        st.pc += [sel >= 0, sel <= 3]
        eng.init_vals['_g_file_kind'] = IntV(sel)
        eng.init_vals['_g_file_code'] = IntV(code)
        yield st, UnionV([(sel == 0, NONE), (sel == 1, BoolV(False)), (sel == 2, IntV(0)), (sel == 3, TupV([IntV(code)]))])
    cfg = Spec('config_str', ('server/enip/device.py', 'Object.config_str'), params={'a': 'Opaque', 'b': 'Opaque'}, returns='Opaque')
    KEPT = '_g_cfg_kind == 0 or self.route_path == old(self.route_path)'
    return Spec('UCMM.__init__[configured route path]', (U, 'UCMM.__init__'), params={}, fragment=frag_init_config,
                fields={'route_path': config_value},
                consts={'device': ModuleHandle('device')},
                callees={'device.parse_route_path': parse, 'self.config_str': cfg, 'config_str': cfg, 'UCMM.config_str': cfg},
                ensures=[('a personality given at run time (simple device, or a route path) is not replaced by the configuration file', KEPT),
                         ('without one, the configuration file decides: nothing configured means any route path is accepted',
                          'implies(_g_cfg_kind == 0 and _g_file_kind == 0, self.route_path is None)'),
                         ('without one, the configuration file decides: a configured path is the one accepted',
                          'implies(_g_cfg_kind == 0 and _g_file_kind == 3, self.route_path == (_g_file_code,))')],
                raises={}, modifies=['self.route_path'], replay=replay_init,
                note='FRAGMENT: the statement that loads "[UCMM] Route Path"; AST: no other statement of __init__ assigns self.route_path. '
                     'parse_route_path / config_str are assumed (any value) here; the texts parse_route_path accepts are compared with a reference only up to a bound')


def contracts(repo):
    return [init_spec(), Spec('UCMM.request[route_path acceptance]', (U, 'UCMM.request'), params={}, fragment=frag_accept,
                 fields={'route_path': config_value},
                 hints=dict(locals={'route_path': path_value('_g_req')}),
                 raises={'AssertionError': 'not (%s)' % ACCEPT},
                 refuses=[('refused', 'not (%s)' % ACCEPT)], accepts=[('accepted', ACCEPT)],
                 ensures=[('accepted-only-per-table', ACCEPT)], modifies=[], replay=replay_accept,
                 note='FRAGMENT: guard + acceptance assert; AST dominance: precedes CM.request in the same block, inside try/except Exception -> enip.status 0x08')]


def e2e(config, req_route):
    """one Read Tag through the real logix.process with the given UCMM personality; returns (enip status, cip status, tag unchanged)"""
    import cpppo
    from cpppo.server.enip import logix, device, parser, ucmm
    from . import sim, wire
    sim.quiet()
    device.lookup_reset()
    logix.setup_reset()
    kw = {}
    if config != 'none':
        class UCMM(ucmm.UCMM):
            route_path = False if config == 'simple' else config
        kw['UCMM_class'] = UCMM
    tags = {'A': cpppo.dotdict(attribute=device.Attribute('A', parser.INT, default=[5, 6, 7]), error=0)}
    cip = wire.write_tag('A', 0, 0xc3, [42])
    if req_route is None:
        frame = wire.send_rr_data(cip, session=1, route=False)
    else:
        frame = wire.send_rr_data(cip, session=1, route_path=req_route)
    data = cpppo.dotdict()
    data.request = cpppo.dotdict()
    src = cpppo.peekable(frame)
    with parser.enip_machine(context='enip') as m:
        for _ in m.run(source=src, data=data.request):
            pass
    ok = logix.process(('127.0.0.1', 1), data=data, tags=tags, **kw)
    st = data.response.enip.status
    vals = sim.tag_values('A')
    return st, vals


def replay_accept(model, obligation):
    bad = check_pairs(limit=60)
    if bad:
        return dict(confirmed=True, function='UCMM.request via logix.process', input=bad[0]['key'], observed=bad[0]['observed'], required=bad[0]['required'])
    return dict(confirmed=False)


def seg(p):
    return [{'port': a, 'link': b} for a, b in p]


def check_pairs(limit=None):
    from . import wire
    # (the last configuration and the last two requests differ only in the KIND of the link: the number 5 vs the address string '5')
    configs = ['none', 'simple', seg([(1, 0)]), seg([(1, 1)]), seg([(2, '10.0.0.1')]), seg([(1, 5)])]
    reqs = [None, [('port', 1, 0)], [('port', 1, 1)], [('port', 2, 0)], [('port', 2, '10.0.0.1')], [('port', 1, 0), ('port', 1, 1)], [('port', 1, 5)], [('port', 1, '5')]]
    out = []
    n = 0
    for cfg in configs:
        for rq in reqs:
            n += 1
            if limit and n > limit:
                break
            rq_segs = None if rq is None else [{'port': s[1], 'link': s[2]} for s in rq]
            if cfg == 'none':
                accept = True
            elif cfg == 'simple':
                accept = rq is None
            else:
                accept = rq is None or rq_segs == cfg
            try:
                st, vals = e2e(cfg, rq)
                ok = (st == 0 and vals == [42, 6, 7]) if accept else (st != 0 and vals == [5, 6, 7])
                obs = 'enip status 0x%x tag %r' % (st, vals)
            except Exception as e:
                ok, obs = False, 'raised %s: %s' % (type(e).__name__, e)
            if not ok:
                out.append(dict(key='config %r request route %r' % (cfg, rq), observed=obs,
                                required='accepted and the write applied' if accept else 'refused with a non-zero status and no tag access'))
    return out


def check_hops(tier):
    """every port number (direct 1..14, extended 15 and above) x link kind (number, address) as a hop of the request / of the configuration"""
    out = []
    n = 0
    ports = list(range(1, 18)) + [255, 256, 4000, 65535]
    if tier == 'quick':
        ports = list(range(1, 17)) + [255, 4000]
    for port in ports:
        for link, other in ((3, 4), ('10.0.0.1', '10.0.0.2'), ('a-plc.example.com', 'b-plc.example.com')):
            hop = ('port', port, link)
            cases = [('simple', [hop], False), (seg([(port, link)]), [hop], True), (seg([(port, link)]), [('port', port, other)], False),
                     (seg([(port, link)]), [hop, ('port', 1, 0)], False), (seg([(port, link)]), None, True)]
            if (port, link) != (1, 2):
                cases += [(seg([(1, 2)]), [hop], False), (seg([(1, 2)]), [('port', 1, 2), hop], False), (seg([(1, 2), (port, link)]), [('port', 1, 2), hop], True),
                          (seg([(1, 2), (port, link)]), [('port', 1, 2)], False)]
            for cfg, rq, accept in cases:
                n += 1
                try:
                    st, vals = e2e(cfg, rq)
                    ok = (st == 0 and vals == [42, 6, 7]) if accept else (st != 0 and vals == [5, 6, 7])
                    obs = 'enip status 0x%x tag %r' % (st, vals)
                except Exception as e:
                    ok, obs = False, 'raised %s: %s' % (type(e).__name__, e)
                if not ok and len(out) < 6:
                    out.append(dict(key='config %r request route %r' % (cfg, rq), observed=obs,
                                    required='accepted and the write applied' if accept else 'refused with a non-zero status and no tag access'))
    return n, out


def bundled_foreign_route(order):
    """writes T[k] = k+1 through the real client with multiple=500; operation k carries route path 1/1 (order[k] == 0) or 1/5 (1);
    the simulator accepts only 1/1.  Returns the tag afterwards."""
    from . import netsim, sim
    from cpppo.server.enip import client, ucmm

    class Sim(ucmm.UCMM):
        route_path = [{'port': 1, 'link': 1}]
    with netsim.Server({'T': ('INT', 4)}, UCMM_class=Sim) as srv:
        ops = list(client.parse_operations(['T[%d]=(INT)%d' % (k, k + 1) for k in range(len(order))]))
        for o, which in zip(ops, order):
            o['route_path'] = [{'port': 1, 'link': 1 if which == 0 else 5}]
        try:
            with client.connector(host='127.0.0.1', port=srv.port, timeout=2.0) as conn:
                for _ in conn.pipeline(operations=ops, depth=2, multiple=500, timeout=2.0):
                    pass
        except Exception:
            pass            # a refused bundle ends the session; what counts is what was written
        return list(sim.tag_values('T'))


def client_write_through(config, route):
    """one write T[0] = 7 through the real client (its EPATH producer) with the given route path to a simulator configured with `config`;
    returns the tag afterwards"""
    from . import netsim, sim
    from cpppo.server.enip import client, ucmm

    class Sim(ucmm.UCMM):
        route_path = config
    with netsim.Server({'T': ('INT', 2)}, UCMM_class=Sim) as srv:
        ops = list(client.parse_operations(['T[0]=(INT)7']))
        ops[0]['route_path'] = route
        try:
            with client.connector(host='127.0.0.1', port=srv.port, timeout=2.0) as conn:
                for _ in conn.pipeline(operations=ops, depth=1, multiple=0, timeout=2.0):
                    pass
        except Exception:
            pass
        return list(sim.tag_values('T'))


def main_personality(argv):
    """run the real enip main() up to the point where it would start serving; return the route_path of the UCMM class it configured"""
    from cpppo.server import network
    from cpppo.server.enip import main as enip_main, device, logix
    captured = {}

    def fake_server_main(*a, **k):
        captured.update(k)
        k['kwargs']['server']['control']['done'] = True        # main() loops until the server control says done
        return 0
    orig = network.server_main
    network.server_main = fake_server_main
    enip_main.network.server_main = fake_server_main
    try:
        device.lookup_reset()
        logix.setup_reset()
        import cpppo
        enip_main.options = cpppo.dotdict()           # module-global options persist between main() calls
        enip_main.main(argv=['-a', '127.0.0.1:0'] + list(argv) + ['A=INT[2]'])
    except SystemExit:
        pass
    except Exception as e:
        return 'raised %s: %s' % (type(e).__name__, e)
    finally:
        network.server_main = orig
        enip_main.network.server_main = orig
    kw = captured.get('kwargs', captured)
    cls = None
    for v in list(captured.values()) + [kw]:
        if isinstance(v, dict) and 'UCMM_class' in v:
            cls = v['UCMM_class']
    def walk(x, depth=0):
        if isinstance(x, dict) and depth < 4:
            if 'UCMM_class' in x:
                return x['UCMM_class']
            for y in x.values():
                r = walk(y, depth + 1)
                if r is not None:
                    return r
        return None
    cls = cls or walk(captured)
    if cls is None:
        return 'none'
    rp = cls.route_path
    return [dict(x) for x in rp] if isinstance(rp, list) else rp


def ref_route(text):
    """reference parser of route-path texts: 'p/l', chained 'p/l/p/l', JSON list of dicts / of 'p/l' strings; links int or address"""
    def link(x):
        if isinstance(x, int):
            return x
        try:
            return int(x)
        except ValueError:
            return x
    t = text.strip()
    if t.startswith('['):
        items = json.loads(t)
        out = []
        for it in items:
            if isinstance(it, dict):
                out.append({'port': int(it['port']), 'link': link(it['link'])})
            else:
                out += ref_route(it)
        return out
    parts = t.split('/')
    assert len(parts) % 2 == 0
    return [{'port': int(parts[i]), 'link': link(parts[i + 1])} for i in range(0, len(parts), 2)]


def bounded(tier, seed):
    from cpppo.server.enip import device
    from . import sim
    sim.quiet()
    rng = random.Random(seed)
    ev = 0
    distinct = set()
    violations = []
    samples = []
    ports = [1, 2, 15, 255]
    links = ['0', '1', '255', '10.0.0.1', '192.168.1.253']
    texts = []
    for p in ports:
        for l in links:
            texts.append('%d/%s' % (p, l))
    for _ in range(40 if tier == 'quick' else 400):
        k = rng.choice([2, 3])
        texts.append('/'.join('%d/%s' % (rng.choice(ports), rng.choice(links)) for _ in range(k)))
        items = [{'port': rng.choice(ports), 'link': rng.choice([0, 5, '10.1.1.1'])} for _ in range(rng.choice([1, 2]))]
        texts.append(json.dumps(items))
        texts.append(json.dumps(['%d/%s' % (it['port'], it['link']) for it in items]))
    for t in texts:
        ev += 1
        distinct.add(t)
        try:
            got = [dict(x) for x in device.parse_route_path(t)]
        except Exception as e:
            got = 'raised %s: %s' % (type(e).__name__, e)
        want = ref_route(t)
        if got != want and len(violations) < 6:
            violations.append(dict(key='parse_route_path(%r)' % t, observed=repr(got)[:200], required=repr(want)[:200]))
        if len(samples) < 5 and '[' in t:
            samples.append(dict(text=t, segments=want))
    # route table ranges "p/lo-hi": every link of the range, inclusive
    from cpppo.server.enip import ucmm
    for pl in ('1/1-15', '2/7-7', '3/0-2', '4/5', '5/1.2.3.4', '1/3-2'):
        ev += 1
        distinct.add(('expand', pl))
        got = list(ucmm.port_link_expand([(pl, 'T')]))
        try:
            port, rng_ = pl.split('/', 1)
            lo, hi = [int(x) for x in rng_.split('-', 1)]
            want = [('%s/%d' % (port, l), 'T') for l in range(lo, hi + 1)]
        except Exception:
            want = [(pl, 'T')]
        if got != want and len(violations) < 8:
            violations.append(dict(key='port_link_expand(%r)' % pl, observed=repr(got)[:200], required=repr(want)[:200]))
    # main(): --route-path / --simple -> the UCMM personality actually configured
    for argv, want in (([], 'none'), (['-S'], False), (['--simple'], False), (['--route-path', '1/0'], [{'port': 1, 'link': 0}]),
                       (['--route-path', '[{"port": 2, "link": "10.0.0.1"}]'], [{'port': 2, 'link': '10.0.0.1'}]), (['-S', '--route-path', '[]'], []),
                       # the textual spellings of the simple personality that the --route-path help documents ("0/false to accept only empty route_path")
                       (['--route-path', '0'], 'simple'), (['--route-path', 'false'], 'simple'), (['--route-path', '[]'], 'simple'),
                       (['--route-path', 'null'], None)):
        ev += 1
        distinct.add(('main', tuple(argv)))
        got = main_personality(argv)
        if want == 'simple':
            ok = got is not None and not isinstance(got, str) and not got          # False / 0 / []: only requests without a route path
        else:
            ok = got == want
        if not ok and len(violations) < 8:
            violations.append(dict(key='main(%r)' % (argv,), observed='UCMM personality %r' % (got,), required='%r' % (want,)))
    # the real client bundling operations for a simulator configured with route path 1/1: an operation spelled with another route path (1/5)
    # must not be applied, whatever bundle it travels in
    for order in ((0, 1, 0), (0, 0, 1, 0), (1, 0), (0, 1, 1, 0)):
        ev += 1
        distinct.add(('bundled-route', order))
        try:
            vals = bundled_foreign_route(order)
            want = [(k + 1) if o == 0 else 0 for k, o in enumerate(order)]
            # an operation under the configured path may or may not have been reached (a refusal ends the session); a foreign one must never be applied
            ok = all(v == 0 for v, o in zip(vals, order) if o == 1) and vals[0] == want[0]
            obs = 'tag %r' % (vals,)
        except Exception as e:
            ok, obs = False, 'raised %s: %s' % (type(e).__name__, e)
        if not ok and len(violations) < 8:
            violations.append(dict(key='bundled writes with route paths %r to a 1/1 simulator' % (['1/1' if o == 0 else '1/5' for o in order],), observed=obs,
                                   required='no write spelled with route path 1/5 is applied'))
    # the client's own route-path producer at the port-number boundaries (14 direct, 15 and above in the extended form)
    for cfg, route, applied in (([{'port': 15, 'link': 1}], [{'port': 15, 'link': 1}], True), ([{'port': 14, 'link': 1}], [{'port': 14, 'link': 1}], True),
                                ([{'port': 16, 'link': 2}], [{'port': 16, 'link': 2}], True), ([{'port': 257, 'link': 0}], [{'port': 15, 'link': 1}, {'port': 1, 'link': 0}], False),
                                ([{'port': 15, 'link': 1}], [{'port': 14, 'link': 1}], False), ([{'port': 15, 'link': '10.0.0.1'}], [{'port': 15, 'link': '10.0.0.1'}], True)):
        ev += 1
        distinct.add(('client-route', repr(cfg), repr(route)))
        try:
            vals = client_write_through(cfg, route)
            ok = (vals[0] == 7) == applied
            obs = 'tag %r' % (vals,)
        except Exception as e:
            ok, obs = False, 'raised %s: %s' % (type(e).__name__, e)
        if not ok and len(violations) < 8:
            violations.append(dict(key='client write with route path %r to a simulator configured %r' % (route, cfg), observed=obs,
                                   required='applied' if applied else 'refused, the tag untouched'))
    nh, badh = check_hops(tier)
    ev += nh
    distinct |= set(('hop', i) for i in range(nh))
    violations.extend(badh[:5])
    bad = check_pairs()
    ev += 48
    for b in bad[:5]:
        violations.append(b)
    distinct |= set(('pair', i) for i in range(48))
    return dict(evaluations=ev, distinct_nontrivial=len(distinct), distinct_keys=distinct_keys(distinct),
                rule='route-path texts (p/l for ports {1,2,15,255} x numeric/IP links, chained 2..3 hops, JSON lists of dicts and of p/l strings) vs a reference '
                     'parser; every (personality in none/simple/3 configured paths) x (request route path absent / equal / differing in port, link, link kind, length) '
                     'through the real logix.process with a Write Tag: accepted => applied, refused => non-zero status and the tag untouched; the same for every port number 1..16, 255, 4000 (quick) x link kind (number, IP address, host name) as the only / the second hop of the request or configuration; bundled client writes with mixed route paths to a 1/1 simulator: none spelled 1/5 is applied; distinct = distinct texts / pairs',
                exhaustive=False, samples=samples, violations=violations[:20], seed=seed)
