"""A real EtherNet/IP server (cpppo.server.enip.main.enip_srv + logix.process) on an ephemeral
localhost TCP port, one thread per connection -- for the bounded tier (C02, C06, C12)."""
import socket
import threading
import time

import cpppo
from cpppo.server.enip import main as enip_main, logix, device, parser
from . import sim


class Server(object):
    def __init__(self, tags, max_bytes=None, process=None, **kwds):
        sim.quiet()
        device.lookup_reset()
        logix.setup_reset()
        self.cfg = {}
        for name, spec in tags.items():
            typ, ln = spec[0], spec[1]
            cls = sim.TYPES[typ]
            zero = 0.0 if typ in ('REAL', 'LREAL') else 0
            ent = cpppo.dotdict(attribute=device.Attribute(name, cls, default=zero if ln is None else [zero] * ln), error=0)
            if len(spec) > 2 and spec[2]:
                ent.path = spec[2]
            self.cfg[name] = ent
        self.kwds = dict(kwds)
        self.kwds['tags'] = self.cfg
        self.kwds['server'] = cpppo.dotdict(control=cpppo.dotdict(done=False, disable=False, latency=0.02, timeout=2.0))
        logix.setup(**self.kwds)
        if max_bytes is not None:
            device.lookup(0x02, 1).MAX_BYTES = max_bytes
        self.process = process or logix.process
        self.lsock = socket.socket(socket.AF_INET, socket.SOCK_STREAM)
        self.lsock.setsockopt(socket.SOL_SOCKET, socket.SO_REUSEADDR, 1)
        self.lsock.bind(('127.0.0.1', 0))
        self.lsock.listen(16)
        self.port = self.lsock.getsockname()[1]
        self.threads = []
        self.errors = []
        self.done = False
        self.acceptor = threading.Thread(target=self._accept, daemon=True)
        self.acceptor.start()

    def _accept(self):
        self.lsock.settimeout(0.1)
        while not self.done:
            try:
                conn, addr = self.lsock.accept()
            except socket.timeout:
                continue
            except OSError:
                break
            t = threading.Thread(target=self._serve, args=(conn, addr), daemon=True)
            t.start()
            self.threads.append(t)

    def _serve(self, conn, addr):
        try:
            enip_main.enip_srv(conn, addr, enip_process=self.process, **self.kwds)
        except Exception as e:
            self.errors.append('%s: %s' % (type(e).__name__, e))

    def close(self):
        self.done = True
        self.kwds['server']['control']['done'] = True
        try:
            self.lsock.close()
        except Exception:
            pass
        for t in self.threads:
            t.join(2.0)
        self.acceptor.join(1.0)

    def __enter__(self):
        return self

    def __exit__(self, *a):
        self.close()
