"""C11 — regular-expression machines accept exactly the expression's language.  (bounded; one deductive lemma on the lookup order)

No contract within reach of pyvc expresses "accepts exactly L(r)": state.from_regex translates an
automaton of an external library (greenery) into a state graph that only means something through the
interpreter.  Bounded stand-in: all expressions up to a size bound over a small alphabet x all input
strings up to a length bound x chunkings, against an independent Brzozowski-derivative matcher.
"""
from .util import distinct_keys
import itertools
import random

PROPERTY = 'C11'
LEVEL = 'exploration'
LEVEL_TEXT = ('Deciding tier is bounded (the translation from_regex consumes a greenery automaton and produces a graph for the '
              'DFA interpreter, which no contract within reach of pyvc covers). One deductive contract IS discharged for all symbols and tables: '
              'state.__getitem__ looks a symbol up most-specific-first (the exact symbol, else the wildcard when a symbol is present, else the no-input '
              'transition, else KeyError) - the determinism every translated graph relies on. Exhaustive over a stated scope: every regular expression with up to 1 operator and a sample of those with 2 (quick) / all with up to 2 and 1000 sampled with 3 (thorough) over the '
              'atoms a, b, [ab], [^a], ., and the two-byte symbol e-acute, with literals, classes, negated classes, dot, alternation, grouping, * + ? and {m,n}; '
              'every input string up to length 3 and a sample of length 4 (quick) / every string up to length 4 and 300 of length 5 (thorough) over {a,b,c,e-acute}; for regex and regex_bytes (UTF-8), whole and symbol-at-a-time chunking. '
              'Oracle: an independent derivative-based matcher giving the longest prefix still extensible to a sentence, acceptance iff that prefix '
              '(length >= 1) is a sentence.')
LEVEL_NOTE = 'greenery and the interpreter are exercised as they are; only the lookup order of one state is proved (states without predicate recognizers and encoder). The only alphabet symbols used in inputs are a, b, c and e-acute.'
TECHNIQUE = 'bounded exhaustive enumeration of small regular expressions x short inputs against an independent Brzozowski-derivative oracle; deductive contract (pyvc, z3) on state.__getitem__ lookup order'
TRUSTED = ['the derivative oracle in this file', 'T10: CPython keeps the integers -5..256 as singletons (`enc is not self.NON`)', 'the dict part of a state is an uninterpreted table']
ASSUMPTIONS = ['scope: expressions <= 2 (quick) / 3 (thorough) operators, inputs <= 4 / 5 symbols; expressions with 3 operators and inputs of 5 symbols are sampled']

ALPHA = ['a', 'b', 'c', u'\xe9']

# ---- regex AST: ('lit', c) ('cls', frozenset, negated) ('dot',) ('cat', x, y) ('alt', x, y) ('star', x) ('plus', x) ('opt', x) ('rep', x, m, n) ('eps',) ('nul',)
EPS, NUL = ('eps',), ('nul',)


def show(r, top=True):
    k = r[0]
    if k == 'lit':
        return r[1]
    if k == 'cls':
        return '[%s%s]' % ('^' if r[2] else '', ''.join(sorted(r[1])))
    if k == 'dot':
        return '.'
    if k == 'cat':
        return ''.join(show(x, False) if x[0] != 'alt' else '(%s)' % show(x) for x in r[1:])
    if k == 'alt':
        s = '%s|%s' % (show(r[1], False), show(r[2], False))
        return s if top else '(%s)' % s
    body = show(r[1], False)
    if r[1][0] in ('star', 'plus', 'opt', 'rep') or (r[1][0] in ('cat', 'alt') and not (body.startswith('(') and body.endswith(')') and body.count('(') == 1)):
        body = '(%s)' % body          # a quantifier applies to one group: stacked quantifiers and sequences are parenthesised
    if k == 'star':
        return body + '*'
    if k == 'plus':
        return body + '+'
    if k == 'opt':
        return body + '?'
    if k == 'rep':
        return body + '{%d,%d}' % (r[2], r[3])
    raise ValueError(r)


def nullable(r):
    k = r[0]
    if k in ('eps', 'star', 'opt'):
        return True
    if k in ('nul', 'lit', 'cls', 'dot'):
        return False
    if k == 'cat':
        return nullable(r[1]) and nullable(r[2])
    if k == 'alt':
        return nullable(r[1]) or nullable(r[2])
    if k == 'plus':
        return nullable(r[1])
    if k == 'rep':
        return r[2] == 0 or nullable(r[1])


def cat(x, y):
    if x == NUL or y == NUL:
        return NUL
    if x == EPS:
        return y
    if y == EPS:
        return x
    return ('cat', x, y)


def alt(x, y):
    if x == NUL:
        return y
    if y == NUL:
        return x
    if x == y:
        return x
    return ('alt', x, y)


def deriv(r, c):
    k = r[0]
    if k in ('eps', 'nul'):
        return NUL
    if k == 'lit':
        return EPS if r[1] == c else NUL
    if k == 'cls':
        return EPS if ((c in r[1]) != r[2]) else NUL
    if k == 'dot':
        return EPS
    if k == 'cat':
        d = cat(deriv(r[1], c), r[2])
        return alt(d, deriv(r[2], c)) if nullable(r[1]) else d
    if k == 'alt':
        return alt(deriv(r[1], c), deriv(r[2], c))
    if k == 'star':
        return cat(deriv(r[1], c), r)
    if k == 'plus':
        return cat(deriv(r[1], c), ('star', r[1]))
    if k == 'opt':
        return deriv(r[1], c)
    if k == 'rep':
        m, n = r[2], r[3]
        if n == 0:
            return NUL
        rest = ('rep', r[1], max(m - 1, 0), n - 1) if n - 1 > 0 else EPS
        d = cat(deriv(r[1], c), rest)
        if nullable(r[1]) and m > 0:
            d = alt(d, deriv(rest, c))
        return d


def empty(r):
    """L(r) is empty"""
    k = r[0]
    if k == 'nul':
        return True
    if k in ('eps', 'lit', 'dot', 'star', 'opt'):
        return False
    if k == 'cls':
        return False          # over an open universe a (negated) class is never empty here
    if k == 'cat':
        return empty(r[1]) or empty(r[2])
    if k == 'alt':
        return empty(r[1]) and empty(r[2])
    if k in ('plus',):
        return empty(r[1])
    if k == 'rep':
        return r[2] > 0 and empty(r[1])


def to_bytes_re(r):
    """the same expression over the byte alphabet: a multi-byte literal is the chain of its UTF-8 bytes; classes,
    negated classes and '.' range over single bytes"""
    k = r[0]
    if k == 'lit':
        bs = r[1].encode('utf-8')
        out = ('lit', bs[0:1])
        for i in range(1, len(bs)):
            out = ('cat', out, ('lit', bs[i:i + 1]))
        return out
    if k == 'cls':
        return ('cls', frozenset(c.encode('utf-8') for c in r[1]), r[2])
    if k in ('dot', 'eps', 'nul'):
        return r
    if k in ('cat', 'alt'):
        return (k, to_bytes_re(r[1]), to_bytes_re(r[2]))
    if k == 'rep':
        return ('rep', to_bytes_re(r[1]), r[2], r[3])
    return (k, to_bytes_re(r[1]))


def oracle(r, text):
    """(consumed prefix length, accepted); text is a str, or bytes for the byte-alphabet reading"""
    cur = r
    n = 0
    if isinstance(text, bytes):
        text = [text[i:i + 1] for i in range(len(text))]
    for ch in text:
        d = deriv(cur, ch)
        if empty(d):
            break
        cur = d
        n += 1
    return n, (n >= 1 and nullable(cur))


def has_wild(r):
    if r[0] == 'dot' or (r[0] == 'cls' and r[2]):
        return True
    return any(has_wild(x) for x in r[1:] if isinstance(x, tuple))


def atoms():
    return [('lit', 'a'), ('lit', 'b'), ('cls', frozenset('ab'), False), ('cls', frozenset('a'), True), ('dot',), ('lit', u'\xe9')]


def exprs(ops):
    """all expressions with exactly `ops` operators"""
    if ops == 0:
        for a in atoms():
            yield a
        return
    for x in exprs(ops - 1):
        yield ('star', x)
        yield ('plus', x)
        yield ('opt', x)
        for m, n in ((0, 1), (1, 2), (2, 2), (0, 2)):
            yield ('rep', x, m, n)
    for i in range(ops):
        for x in exprs(i):
            for y in exprs(ops - 1 - i):
                yield ('cat', x, y)
                yield ('alt', x, y)


_GREENERY = {}


def greenery_view(rx):
    """(fsm of the expression as reduced by greenery.lego.parse - what cpppo builds its machine from, fsm of the expression as written, differ?)
    differ: the two automata do not accept the same strings up to length 4 over their alphabet: greenery's reduction changed the language"""
    if rx in _GREENERY:
        return _GREENERY[rx]
    import greenery.lego as lego
    red = lego.parse(rx).fsm()
    pat, i = lego.pattern.match(rx, 0)
    wri = pat.fsm() if i == len(rx) else None
    differ = False
    if wri is not None:
        alpha = sorted((set(red.alphabet) | set(wri.alphabet)) - {None}) + [u'\u2400']
        for n in range(0, 5):
            for t in itertools.product(alpha, repeat=n):
                if fsm_accepts(red, t) != fsm_accepts(wri, t):
                    differ = True
                    break
            if differ:
                break
    _GREENERY[rx] = (red, wri, differ)
    return _GREENERY[rx]


def fsm_step(f, state, ch):
    row = f.map.get(state, {})
    return row.get(ch, row.get(None)) if (ch in row or None in row) else None


def fsm_accepts(f, text):
    st = f.initial
    for ch in text:
        st = fsm_step(f, st, ch)
        if st is None:
            return False
    return st in f.finals


def fsm_live(f, state, _cache={}):
    key = (id(f), state)
    if key not in _cache:
        seen, todo, live = set(), [state], False
        while todo:
            x = todo.pop()
            if x in seen:
                continue
            seen.add(x)
            if x in f.finals:
                live = True
                break
            todo.extend(v for v in f.map.get(x, {}).values())
        _cache[key] = live
    return _cache[key]


def fsm_oracle(f, text):
    """what a faithful translation of the automaton f does: consume while the next state can still reach a final state"""
    st, n = f.initial, 0
    for ch in text:
        nx = fsm_step(f, st, ch)
        if nx is None or not fsm_live(f, nx):
            break
        st, n = nx, n + 1
    return n, (n >= 1 and st in f.finals)


def run_real(rx, text, as_bytes, chunked):
    import cpppo
    cls = cpppo.regex_bytes if as_bytes else cpppo.regex
    m = cls(name='r', initial=rx, context='x', terminal=True)
    data = cpppo.dotdict()
    src = cpppo.chainable()
    raw = text.encode('utf-8') if as_bytes else text
    if chunked:
        pend = [raw[i:i + 1] for i in range(len(raw))]
    else:
        pend = [raw] if len(raw) else []
    exc = None
    term = False
    try:
        with m:
            for mm, s in m.run(source=src, data=data, path='p'):
                if s is None and src.peek() is None:
                    if not pend:
                        break
                    src.chain(pend.pop(0))
            term = m.terminal
    except Exception as e:
        exc = type(e).__name__
    got = data.get('p.x.input')
    stored = None
    if got is not None:
        stored = bytes(bytearray(got)) if as_bytes else ''.join(got)
    return term, src.sent, stored, exc


def bounded(tier, seed, part=(0, 1)):
    from . import sim
    sim.quiet()
    rng = random.Random(seed)
    ev = 0
    distinct = set()
    violations = []
    samples = []
    maxlen = 4 if tier == 'quick' else 5
    strings = ['']
    for n in range(1, maxlen + 1):
        strings += [''.join(t) for t in itertools.product(ALPHA, repeat=n)]
    res = list(exprs(0)) + list(exprs(1))
    two = list(exprs(2))
    if tier == 'quick':
        res += rng.sample(two, 70)
        strs = [s for s in strings if len(s) <= 3] + rng.sample([s for s in strings if len(s) == 4], 60)
    else:
        # thorough: every expression with up to 2 operators and a sample of those with 3, divided over the parallel runs (run i of n takes every
        # n-th expression; the sample is drawn with a fixed seed so that all runs agree on it); all inputs up to length 4 and a sample of length 5
        fixed = random.Random(11)
        res += two + fixed.sample(list(exprs(3)), 1000)
        res = [r for k, r in enumerate(res) if k % part[1] == part[0]]
        strs = [s for s in strings if len(s) <= 4] + fixed.sample([s for s in strings if len(s) == 5], 300)
    # fixed expressions with a repeated repetition (3 operators): always part of the enumeration, both tiers
    b_, a_ = ('lit', 'b'), ('lit', 'a')
    res += [('star', ('cat', ('plus', b_), b_)), ('opt', ('cat', ('plus', b_), b_)), ('star', ('cat', a_, ('plus', a_))), ('plus', ('cat', ('plus', b_), b_)),
            ('star', ('rep', a_, 2, 2))]
    seen = set()
    unsupported = set()
    greenery_hits = []
    for r in res:
        rx = show(r)
        if rx in seen:
            continue
        seen.add(rx)
        for text in strs:
            rb = to_bytes_re(r)
            for as_bytes, chunked in ((False, False), (True, False), (False, True), (True, True)):
                raw = text.encode('utf-8')
                n, acc = oracle(rb, raw) if as_bytes else oracle(r, text)
                if chunked and (ev % 5):
                    ev += 0
                if chunked and rng.random() > 0.15:
                    continue
                ev += 1
                if (rx, as_bytes) in unsupported:
                    continue
                if as_bytes and has_wild(r) and (u'\xe9' in text or u'\xe9' in rx):
                    # calibration: over bytes a wildcard / negated class ranges over single bytes while the expression is simplified
                    # over characters first; multi-byte symbols are only in the checked domain where they occur as literals
                    continue
                try:
                    term, sent, stored, exc = run_real(rx, text, as_bytes, chunked)
                except AssertionError as e:
                    if 'Can only expand' in str(e) or 'must be' in str(e):
                        # documented limitation of the multi-byte expansion: the machine is refused at construction
                        unsupported.add((rx, as_bytes))
                        continue
                    term, sent, stored, exc = False, -1, None, 'construct:AssertionError'
                except Exception as e:
                    term, sent, stored, exc = False, -1, None, 'construct:' + type(e).__name__
                want_sent = n
                want_stored = (raw[:n] if as_bytes else text[:n]) if n else None
                ok = (term == acc) and sent == want_sent and (stored or None) == (want_stored or None)
                # input that can not continue while not accepting must fail (NonTerminal), not be absorbed
                if not acc and n < len(text) and exc is None and term:
                    ok = False
                if not ok and not as_bytes:
                    # attribution: cpppo builds the machine from greenery.lego.parse(rx), which also *reduces* the expression; where that
                    # reduction changes the language and the real machine does exactly what the reduced automaton says, the cause is the
                    # known defect of the greenery library (recorded finding), not the translation or the interpreter
                    try:
                        red, wri, differ = greenery_view(rx)
                        if differ and fsm_oracle(red, text) == (sent, term):
                            greenery_hits.append((rx, text))
                            continue
                    except Exception:
                        pass
                if not ok and as_bytes and (rx, text) in set(greenery_hits):
                    continue
                if not ok and len(violations) < 8:
                    violations.append(dict(key='regex %r input %r bytes=%r chunked=%r' % (rx, text, as_bytes, chunked),
                                           observed='terminal=%r consumed=%r stored=%r exception=%r' % (term, sent, stored, exc),
                                           required='consume %r (%d symbols), accept=%r' % (want_stored, want_sent, acc)))
        distinct.add(rx)
        if len(samples) < 6 and len(rx) > 4:
            samples.append(dict(regex=rx, example_input='abab', oracle=oracle(r, 'abab')))
        if len(violations) >= 8:
            break
    if greenery_hits:
        exprs_hit = sorted(set(rx for rx, _ in greenery_hits))
        rx0, t0 = greenery_hits[0]
        violations.append(dict(key='greenery reduction changes the language: regex %r input %r' % (rx0, t0),
                               observed='the machine does what greenery.lego.parse(%r) == %s says; %d (expression, input) pairs over %d expressions behave like this, eg. %s'
                                        % (rx0, __import__('greenery.lego').lego.parse(rx0), len(greenery_hits), len(exprs_hit), ', '.join(map(repr, exprs_hit[:6]))),
                               required='the language of the expression as written (greenery.lego.pattern.match(rx).fsm() and the derivative oracle agree on it)'))
    # ---- literals whose UTF-8 encoding takes 3 and 4 bytes (regex_bytes expands them into chains of states)
    wide = [('lit', u'\u20ac'), ('lit', u'\U0001d11e'), ('lit', 'a')]
    wexprs = list(wide)
    for x in wide:
        wexprs += [('star', x), ('plus', x), ('opt', x), ('rep', x, 1, 2)]
        for y in wide:
            wexprs += [('cat', x, y), ('alt', x, y)]
    wexprs += [('cat', ('star', ('dot',)), ('lit', u'\u20ac')), ('cat', ('cat', ('star', ('dot',)), ('lit', u'\U0001d11e')), ('star', ('dot',)))]
    wstrings = ['']
    for n_ in range(1, 4):
        wstrings += [''.join(t) for t in itertools.product(['a', u'\u20ac', u'\U0001d11e'], repeat=n_)]
    for r in wexprs:
        rx = show(r)
        for text in wstrings:
            for as_bytes in (False, True):
                if (rx, as_bytes) in unsupported:
                    continue
                if as_bytes and has_wild(r):
                    # wildcards over bytes: compared against the str machine (the wildcard swallows whole symbols here)
                    n, acc = oracle(r, text)
                    n = len(text[:n].encode('utf-8'))
                else:
                    n, acc = oracle(to_bytes_re(r), text.encode('utf-8')) if as_bytes else oracle(r, text)
                ev += 1
                try:
                    term, sent, stored, exc = run_real(rx, text, as_bytes, False)
                except AssertionError as e:
                    if 'Can only expand' in str(e) or 'must be' in str(e):
                        unsupported.add((rx, as_bytes))
                        continue
                    term, sent, stored, exc = False, -1, None, 'construct:AssertionError'
                distinct.add(rx)
                if not (term == acc and sent == n) and len(violations) < 8:
                    violations.append(dict(key='regex %r input %r bytes=%r (wide symbols)' % (rx, text, as_bytes),
                                           observed='terminal=%r consumed=%r stored=%r exception=%r' % (term, sent, stored, exc),
                                           required='consume %d symbols, accept=%r' % (n, acc)))
    return dict(evaluations=ev, distinct_nontrivial=len(distinct), distinct_keys=distinct_keys(distinct),
                rule='all expressions with 0..1 operators and %s with 2 (and 3 in thorough) over atoms {a, b, [ab], [^a], ., e-acute} and operators cat, |, *, +, ?, {0,1},{1,2},{2,2},{0,2}; '
                     'x input strings up to length %d over {a,b,c,e-acute} (all up to 3, sampled at 4 in quick); for cpppo.regex and cpppo.regex_bytes, whole input and (sampled) '
                     'symbol-at-a-time chunking; oracle = derivative matcher: longest extensible prefix consumed and stored, accepted iff it is a sentence of length >= 1, '
                     'never accepting past an unacceptable symbol; plus expressions over the 3- and 4-byte symbols U+20AC / U+1D11E (literals, * + ? {1,2}, pairs, .*X and .*X.*) x strings up to length 3; distinct = distinct expressions' % ('70 sampled' if tier == 'quick' else 'all', maxlen),
                exhaustive=(tier != 'quick'), samples=samples, violations=violations[:20], seed=seed)


# ------------------------------------------------------------------------------------------------ deductive core: the transition lookup order
import z3 as _z3

A_F = 'automata.py'
HAS = _z3.Function('tx_has', _z3.IntSort(), _z3.BoolSort())      # the state's transition table (its dict part): symbol -> present?, target id
TGT = _z3.Function('tx_target', _z3.IntSort(), _z3.IntSort())


def table_lookup(eng, recv, name, args, st, n):
    """dict.__getitem__ of the state's own transition table: the target id when the key is present, else KeyError"""
    from pyvc.vals import IntV, ExcV, Unsupported
    from pyvc.pure import to_int
    if name != '__getitem__' or len(args) != 1:
        raise Unsupported('super().%s' % name)
    for s0, a in eng.split(st, args[0]):
        k = to_int(a)
        for s, ok in eng.fork(s0, HAS(k)):
            if ok:
                yield s, IntV(TGT(k))
            else:
                yield s, ExcV('KeyError', 'no such transition', getattr(n, 'lineno', None))


def lookup_spec():
    from pyvc.spec import Spec
    from pyvc.vals import IntV, BoolV
    from pyvc.pure import to_int
    def enc(pe, x):
        from pyvc.pure import alts_of
        from pyvc.vals import NoneV
        t = None
        for g, v in alts_of(x):
            val = _z3.IntVal(-2) if isinstance(v, NoneV) else to_int(v)
            t = val if t is None else _z3.If(g, val, t)
        return IntV(t)
    funcs = dict(enc=enc, has=lambda pe, k: BoolV(HAS(to_int(k))), tgt=lambda pe, k: IntV(TGT(to_int(k))))
    ENC = 'enc(inp)'
    return Spec('state.__getitem__', (A_F, 'state.__getitem__'), params={'inp': 'OptInt'}, cls_name='state',
                fields={'recognizers': ('Const', ()), 'encoder': 'None'}, inline=['encode'],
                requires='inp is None or inp >= 0',
                defs=dict(E=ENC),
                ensures=[('most specific first: the transition on exactly this symbol',
                          'implies(has(E), result == tgt(E))'),
                         ('else, when a symbol is present, the wildcard transition', 'implies(not has(E) and inp is not None and has(-1), result == tgt(-1))'),
                         ('else the no-input transition', 'implies(not has(E) and (inp is None or not has(-1)), result == tgt(-2))')],
                raises={'KeyError': 'not has(E) and (inp is None or not has(-1)) and not has(-2)'},
                refuses=[('no transition at all', 'not has(E) and (inp is None or not has(-1)) and not has(-2)')],
                accepts=[('some transition applies', 'has(E) or (inp is not None and has(-1)) or has(-2)')],
                modifies=[], hints=dict(funcs=funcs, super_builtin=table_lookup),
                note='whole function, for a state without predicate recognizers and without an encoder (the states from_regex builds for text); '
                     'the dict part of the state is an uninterpreted table; symbols are non-negative code points, ANY == -1, NON == -2 (read from the class)')


def contracts(repo):
    return [lookup_spec()]

