"""Contracts shared by C03/C04/C05 on server/enip/logix.py: Logix.reply_elements."""
import z3

from pyvc.spec import Spec, Loop, Lemma, Custom
from pyvc.pure import PureEval, truthy
from pyvc.vals import IntV, BoolV, UnionV, NONE, TupV

RD_TAG, RD_FRG, WR_TAG, WR_FRG = 0xCC, 0xD2, 0xCD, 0xD3

RE_PARAMS = dict(_g_service='Int', _g_idx='Int', _g_off='OptInt', _g_max_size='OptInt', _g_elements='OptInt',
                 _g_cnt='Int', _g_siz='Int', _g_ndata='Int', _g_MAX_BYTES='Int')

RE_ENV = {   # access path in the real source  ->  symbolic input (DESIGN 2.4)
    "data.service": "_g_service",
    "resolve_element(data.path)": "(_g_idx,)",
    "attribute.parser.struct_calcsize": "_g_siz",
    "len(attribute)": "_g_cnt",
    "data[context].get('offset')": "_g_off",
    "data[context].get('max_size')": "_g_max_size",
    "data[context].get('elements', cnt - beg)": "_g_elements if _g_elements is not None else _g_cnt - _g_idx",
    "len(data[context].data)": "_g_ndata",
    "self.MAX_BYTES": "_g_MAX_BYTES",
}

RE_REQUIRES = ("_g_siz >= 1 and _g_cnt >= 0 and _g_idx >= 0 and _g_MAX_BYTES >= 1 and _g_ndata >= 0 "
               "and (_g_off is None or _g_off >= 0) and (_g_max_size is None or _g_max_size >= 0) "
               "and _g_service in (0xCC, 0xD2, 0xCD, 0xD3)")

RE_DEFS = dict(
    OFF="(_g_off or 0) if _g_service in (0xD2, 0xD3) else 0",
    BUDGET="_g_max_size or _g_MAX_BYTES",
    ELM="_g_elements if _g_elements is not None else _g_cnt - _g_idx",
    READ="_g_service in (0xCC, 0xD2)",
    # from the property text (C05): the addressed elements [idx, idx+ELM) must lie inside the tag
    in_range="0 <= _g_idx and ELM >= 1 and _g_idx + ELM <= _g_cnt",
    ADV="OFF // _g_siz",
)

RE_ENSURES = [  # result == (beg, end, endactual, offremains, max_size)
    ("beg", "result[0] == _g_idx + OFF // _g_siz"),
    ("offremains", "result[3] == OFF % _g_siz"),
    ("endactual", "result[2] == _g_idx + ELM"),
    ("budget", "result[4] == BUDGET"),
    ("end-read", "implies(READ, result[1] == min(_g_idx + ELM, result[0] + max((result[3] + BUDGET + _g_siz - 1) // _g_siz, 1)))"),
    ("end-write", "implies(not READ, result[1] == result[0] + _g_ndata)"),
    ("order", "0 <= result[0] < result[1] <= result[2]"),
    ("inside", "result[2] <= _g_cnt"),
]

# refusals demanded by the property text (C05) -- none of them derived from the code
RE_REFUSES = [
    ("range:no-elements", "ELM < 1"),
    ("range:more-elements-than-tag", "ELM > _g_cnt"),
    ("range:beyond-end", "_g_idx + ELM > _g_cnt"),
    ("range:offset-beyond-tag", "_g_idx + OFF // _g_siz >= _g_cnt"),
    ("range:write-beyond-tag", "not READ and _g_idx + OFF // _g_siz + _g_ndata > _g_cnt"),
]
RE_ACCEPTS = [
    ("in-range", "in_range and OFF // _g_siz < ELM and (READ or (1 <= _g_ndata and OFF // _g_siz + _g_ndata <= ELM))"),
]


def _sample(rng):
    siz = rng.choice([1, 2, 4, 8, 3])
    cnt = rng.choice([0, 1, 2, 5, 17, 100])
    svc = rng.choice([RD_TAG, RD_FRG, WR_TAG, WR_FRG])
    idx = rng.choice([0, 0, 1, cnt - 1, cnt, cnt + 1, rng.randint(0, max(cnt, 1))])
    if idx < 0:
        idx = 0
    elements = rng.choice([None, 0, 1, 2, cnt, cnt + 1, max(cnt - idx, 0), rng.randint(0, cnt + 2)])
    off = rng.choice([None, 0, siz, 2 * siz, siz + 1, rng.randint(0, siz * (cnt + 2))])
    max_size = rng.choice([None, None, 0, 1, siz, 3 * siz + 1, 10])
    ndata = rng.choice([0, 1, 2, cnt, rng.randint(0, cnt + 1)])
    MAXB = rng.choice([1, 7, 16, 488])
    return dict(_g_service=svc, _g_idx=idx, _g_off=off, _g_max_size=max_size, _g_elements=elements,
                _g_cnt=cnt, _g_siz=siz, _g_ndata=ndata, _g_MAX_BYTES=MAXB)


def run_reply_elements(vals):
    """concretiser: a real Logix instance (no __init__), a real Attribute and a real dotdict request"""
    import cpppo
    from cpppo.server.enip import logix, device, parser
    siz = vals['_g_siz']
    typ = {1: parser.SINT, 2: parser.INT, 4: parser.DINT, 8: parser.LINT}.get(siz)
    if typ is None:
        typ = type('T%d' % siz, (parser.SINT,), dict(struct_calcsize=siz))
    cnt = vals['_g_cnt']
    att = device.Attribute('tag', typ, default=[0] * cnt)
    svc = vals['_g_service']
    ctx = {RD_TAG: 'read_tag', RD_FRG: 'read_frag', WR_TAG: 'write_tag', WR_FRG: 'write_frag'}[svc]
    data = cpppo.dotdict()
    data.service = svc
    data.path = {'segment': [cpppo.dotdict({'symbolic': 'tag'}), cpppo.dotdict({'element': vals['_g_idx']})]}
    data[ctx] = {}
    if vals['_g_off'] is not None:
        data[ctx].offset = vals['_g_off']
    if vals['_g_max_size'] is not None:
        data[ctx].max_size = vals['_g_max_size']
    if vals['_g_elements'] is not None:
        data[ctx].elements = vals['_g_elements']
    data[ctx].data = [0] * vals['_g_ndata']
    obj = logix.Logix.__new__(logix.Logix)
    obj.MAX_BYTES = vals['_g_MAX_BYTES']
    try:
        r = logix.Logix.reply_elements(obj, att, data, ctx)
        return ('return', tuple(r))
    except Exception as e:
        return ('raise', type(e).__name__)


def model_vals(model):
    vals = {}
    for k in RE_PARAMS:
        if RE_PARAMS[k] == 'OptInt' and model.get(k + '.is_none', False):
            vals[k] = None
        else:
            vals[k] = int(model.get(k, 0))
    return vals


def native_defs(v):
    svc = v['_g_service']
    OFF = (v['_g_off'] or 0) if svc in (RD_FRG, WR_FRG) else 0
    ELM = v['_g_elements'] if v['_g_elements'] is not None else v['_g_cnt'] - v['_g_idx']
    READ = svc in (RD_TAG, RD_FRG)
    in_range = 0 <= v['_g_idx'] and ELM >= 1 and v['_g_idx'] + ELM <= v['_g_cnt']
    return OFF, ELM, READ, in_range


def replay_reply_elements(model, obligation):
    vals = model_vals(model)
    out = run_reply_elements(vals)
    OFF, ELM, READ, in_range = native_defs(vals)
    siz, cnt, idx, nd = vals['_g_siz'], vals['_g_cnt'], vals['_g_idx'], vals['_g_ndata']
    must_refuse = (not in_range) or idx + OFF // siz >= cnt or ((not READ) and idx + OFF // siz + nd > cnt)
    confirmed = False
    required = None
    if obligation.startswith('refuses'):
        required = 'refusal (AssertionError/KeyError): the request addresses elements outside the tag'
        confirmed = must_refuse and out[0] == 'return'
    elif obligation.startswith('accepts') or obligation.startswith('noexc'):
        required = 'normal return'
        confirmed = (not must_refuse) and out[0] == 'raise'
    elif obligation.startswith('post'):
        required = 'post-condition %s' % obligation
        if out[0] == 'return':
            beg, end, endactual, offrem, ms = out[1]
            BUDGET = vals['_g_max_size'] or vals['_g_MAX_BYTES']
            exp_end = min(idx + ELM, beg + max((offrem + BUDGET + siz - 1) // siz, 1)) if READ else beg + nd
            ok = (beg == idx + OFF // siz and offrem == OFF % siz and endactual == idx + ELM and ms == BUDGET
                  and end == exp_end and 0 <= beg < end <= endactual <= cnt)
            confirmed = not ok
    return dict(confirmed=bool(confirmed), function='cpppo.server.enip.logix.Logix.reply_elements',
                input=vals, observed=repr(out), required=required,
                rerun="contracts.logix_common.run_reply_elements(%r)" % (vals,))


def reply_elements_spec(name='Logix.reply_elements', ensures=True, refuses=True, accepts=True):
    return Spec(
        name, ("server/enip/logix.py", "Logix.reply_elements"),
        params=dict(RE_PARAMS), env=dict(RE_ENV), requires=RE_REQUIRES, defs=dict(RE_DEFS),
        ensures=RE_ENSURES if ensures else [],
        raises={"AssertionError": "True"},
        refuses=RE_REFUSES if refuses else [], accepts=RE_ACCEPTS if accepts else [],
        pure_on_raise=True, modifies=[],
        replay=replay_reply_elements,
        hints=dict(sample=_sample, concrete=run_reply_elements),
        note='whole function; env models for the dotdict request, the Attribute length and element size')


def instance(prefix, overrides=None, returned=True):
    """z3 facts describing one call of reply_elements that returned normally, derived mechanically
    from the contract above (requires + ensures + not refuses); returns (ns, hyps, result tuple)"""
    ns = {}
    for nm, sort in RE_PARAMS.items():
        if sort == 'Int':
            ns[nm] = IntV(z3.Int(prefix + nm))
        else:
            isn = z3.Bool(prefix + nm + '.is_none')
            ns[nm] = UnionV([(isn, NONE), (z3.Not(isn), IntV(z3.Int(prefix + nm)))])
    if overrides:
        ns.update(overrides)
    res = TupV([IntV(z3.Int('%sresult%d' % (prefix, i))) for i in range(5)])
    ns['result'] = res
    pe = PureEval(ns, defs=dict(RE_DEFS))
    hyps = [pe.boolean(RE_REQUIRES)]
    for _, t in RE_ENSURES:
        hyps.append(pe.boolean(t))
    return ns, hyps + pe.facts, res, pe
