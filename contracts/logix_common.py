"""Contracts shared by C03/C04/C05 on server/enip/logix.py: Logix.reply_elements."""
import z3

from pyvc.spec import Spec, Loop, Lemma, Custom
from pyvc.pure import PureEval, truthy
from pyvc.vals import IntV, BoolV, UnionV, NONE, TupV

RD_TAG, RD_FRG, WR_TAG, WR_FRG = 0xCC, 0xD2, 0xCD, 0xD3

RE_PARAMS = dict(_g_service='Int', _g_idx='Int', _g_off='OptInt', _g_max_size='OptInt', _g_elements='OptInt',
                 _g_cnt='Int', _g_siz='Int', _g_ndata='Int', _g_MAX_BYTES='Int')

RE_ENV = {   # access path in the real source  ->  symbolic input (DESIGN 2.4)
    "data.service": "_g_service",
    "resolve_element(data.path)": "(_g_idx,)",
    "attribute.parser.struct_calcsize": "_g_siz",
    "len(attribute)": "_g_cnt",
    "data[context].get('offset')": "_g_off",
    "data[context].get('max_size')": "_g_max_size",
    "data[context].get('elements', cnt - beg)": "_g_elements if _g_elements is not None else _g_cnt - _g_idx",
    "len(data[context].data)": "_g_ndata",
    "self.MAX_BYTES": "_g_MAX_BYTES",
}

RE_REQUIRES = ("_g_siz >= 1 and _g_cnt >= 0 and _g_idx >= 0 and _g_MAX_BYTES >= 1 and _g_ndata >= 0 "
               "and (_g_off is None or _g_off >= 0) and (_g_max_size is None or _g_max_size >= 0) "
               "and _g_service in (0xCC, 0xD2, 0xCD, 0xD3)")

RE_DEFS = dict(
    OFF="(_g_off or 0) if _g_service in (0xD2, 0xD3) else 0",
    BUDGET="_g_max_size or _g_MAX_BYTES",
    ELM="_g_elements if _g_elements is not None else _g_cnt - _g_idx",
    READ="_g_service in (0xCC, 0xD2)",
    # from the property text (C05): the addressed elements [idx, idx+ELM) must lie inside the tag
    in_range="0 <= _g_idx and ELM >= 1 and _g_idx + ELM <= _g_cnt",
    ADV="OFF // _g_siz",
)

RE_ENSURES = [  # result == (beg, end, endactual, offremains, max_size)
    ("beg", "result[0] == _g_idx + OFF // _g_siz"),
    ("offremains", "result[3] == OFF % _g_siz"),
    ("endactual", "result[2] == _g_idx + ELM"),
    ("budget", "result[4] == BUDGET"),
    ("end-read", "implies(READ, result[1] == min(_g_idx + ELM, result[0] + max((result[3] + BUDGET + _g_siz - 1) // _g_siz, 1)))"),
    ("end-write", "implies(not READ, result[1] == result[0] + _g_ndata)"),
    ("order", "0 <= result[0] < result[1] <= result[2]"),
    ("inside", "result[2] <= _g_cnt"),
]

# refusals demanded by the property text (C05) -- none of them derived from the code
RE_REFUSES = [
    ("range:no-elements", "ELM < 1"),
    ("range:more-elements-than-tag", "ELM > _g_cnt"),
    ("range:beyond-end", "_g_idx + ELM > _g_cnt"),
    ("range:offset-beyond-tag", "_g_idx + OFF // _g_siz >= _g_cnt"),
    ("range:write-beyond-tag", "not READ and _g_idx + OFF // _g_siz + _g_ndata > _g_cnt"),
]
RE_ACCEPTS = [
    ("in-range", "in_range and OFF // _g_siz < ELM and (READ or (1 <= _g_ndata and OFF // _g_siz + _g_ndata <= ELM))"),
]


def _sample(rng):
    siz = rng.choice([1, 2, 4, 8, 3])
    cnt = rng.choice([0, 1, 2, 5, 17, 100])
    svc = rng.choice([RD_TAG, RD_FRG, WR_TAG, WR_FRG])
    idx = rng.choice([0, 0, 1, cnt - 1, cnt, cnt + 1, rng.randint(0, max(cnt, 1))])
    if idx < 0:
        idx = 0
    elements = rng.choice([None, 0, 1, 2, cnt, cnt + 1, max(cnt - idx, 0), rng.randint(0, cnt + 2)])
    off = rng.choice([None, 0, siz, 2 * siz, siz + 1, rng.randint(0, siz * (cnt + 2))])
    max_size = rng.choice([None, None, 0, 1, siz, 3 * siz + 1, 10])
    ndata = rng.choice([0, 1, 2, cnt, rng.randint(0, cnt + 1)])
    MAXB = rng.choice([1, 7, 16, 488])
    return dict(_g_service=svc, _g_idx=idx, _g_off=off, _g_max_size=max_size, _g_elements=elements,
                _g_cnt=cnt, _g_siz=siz, _g_ndata=ndata, _g_MAX_BYTES=MAXB)


def run_reply_elements(vals):
    """concretiser: a real Logix instance (no __init__), a real Attribute and a real dotdict request"""
    import cpppo
    from cpppo.server.enip import logix, device, parser
    siz = vals['_g_siz']
    typ = {1: parser.SINT, 2: parser.INT, 4: parser.DINT, 8: parser.LINT}.get(siz)
    if typ is None:
        typ = type('T%d' % siz, (parser.SINT,), dict(struct_calcsize=siz))
    cnt = vals['_g_cnt']
    att = device.Attribute('tag', typ, default=[0] * cnt)
    svc = vals['_g_service']
    ctx = {RD_TAG: 'read_tag', RD_FRG: 'read_frag', WR_TAG: 'write_tag', WR_FRG: 'write_frag'}[svc]
    data = cpppo.dotdict()
    data.service = svc
    data.path = {'segment': [cpppo.dotdict({'symbolic': 'tag'}), cpppo.dotdict({'element': vals['_g_idx']})]}
    data[ctx] = {}
    if vals['_g_off'] is not None:
        data[ctx].offset = vals['_g_off']
    if vals['_g_max_size'] is not None:
        data[ctx].max_size = vals['_g_max_size']
    if vals['_g_elements'] is not None:
        data[ctx].elements = vals['_g_elements']
    data[ctx].data = [0] * vals['_g_ndata']
    obj = logix.Logix.__new__(logix.Logix)
    obj.MAX_BYTES = vals['_g_MAX_BYTES']
    try:
        r = logix.Logix.reply_elements(obj, att, data, ctx)
        return ('return', tuple(r))
    except Exception as e:
        return ('raise', type(e).__name__)


def model_vals(model):
    vals = {}
    for k in RE_PARAMS:
        if RE_PARAMS[k] == 'OptInt' and model.get(k + '.is_none', False):
            vals[k] = None
        else:
            vals[k] = int(model.get(k, 0))
    return vals


def native_defs(v):
    svc = v['_g_service']
    OFF = (v['_g_off'] or 0) if svc in (RD_FRG, WR_FRG) else 0
    ELM = v['_g_elements'] if v['_g_elements'] is not None else v['_g_cnt'] - v['_g_idx']
    READ = svc in (RD_TAG, RD_FRG)
    in_range = 0 <= v['_g_idx'] and ELM >= 1 and v['_g_idx'] + ELM <= v['_g_cnt']
    return OFF, ELM, READ, in_range


def replay_reply_elements(model, obligation):
    vals = model_vals(model)
    out = run_reply_elements(vals)
    OFF, ELM, READ, in_range = native_defs(vals)
    siz, cnt, idx, nd = vals['_g_siz'], vals['_g_cnt'], vals['_g_idx'], vals['_g_ndata']
    must_refuse = (not in_range) or idx + OFF // siz >= cnt or ((not READ) and idx + OFF // siz + nd > cnt)
    confirmed = False
    required = None
    if obligation.startswith('refuses'):
        required = 'refusal (AssertionError/KeyError): the request addresses elements outside the tag'
        confirmed = must_refuse and out[0] == 'return'
    elif obligation.startswith('accepts') or obligation.startswith('noexc'):
        required = 'normal return'
        confirmed = (not must_refuse) and out[0] == 'raise'
    elif obligation.startswith('post'):
        required = 'post-condition %s' % obligation
        if out[0] == 'return':
            beg, end, endactual, offrem, ms = out[1]
            BUDGET = vals['_g_max_size'] or vals['_g_MAX_BYTES']
            exp_end = min(idx + ELM, beg + max((offrem + BUDGET + siz - 1) // siz, 1)) if READ else beg + nd
            ok = (beg == idx + OFF // siz and offrem == OFF % siz and endactual == idx + ELM and ms == BUDGET
                  and end == exp_end and 0 <= beg < end <= endactual <= cnt)
            confirmed = not ok
    return dict(confirmed=bool(confirmed), function='cpppo.server.enip.logix.Logix.reply_elements',
                input=vals, observed=repr(out), required=required,
                rerun="contracts.logix_common.run_reply_elements(%r)" % (vals,))


def re_data(ctx):
    """the request record seen by reply_elements for service context `ctx`: data.service is the
    reply code, data[ctx] holds the optional elements/offset/max_size fields and the write data"""
    def build(eng, name, st):
        st = st.clone()
        rid, sid = eng.new_id(), eng.new_id()

        def opt(nm):
            isn = z3.Bool(nm + '.is_none')
            eng.init_vals[nm] = UnionV([(isn, NONE), (z3.Not(isn), IntV(z3.Int(nm)))])
            return (z3.Not(isn), IntV(z3.Int(nm)))
        sub = {'elements': opt('_g_elements'), 'offset': opt('_g_off'), 'max_size': opt('_g_max_size')}
        nd = z3.Int('_g_ndata')
        eng.init_vals['_g_ndata'] = IntV(nd)
        from pyvc.vals import ListV
        sub['data'] = (z3.BoolVal(True), ListV(nd, lambda i: IntV(z3.Int('_g_wd')), tag='write data'))
        for k, pv in sub.items():
            st.heap[(sid, k)] = pv
        st.heap[(sid, '__closed__')] = True
        st.heap[(sid, '__keys__')] = tuple(sub.keys())
        svc = {'read_tag': RD_TAG, 'read_frag': RD_FRG, 'write_tag': WR_TAG, 'write_frag': WR_FRG}[ctx]
        from pyvc.vals import OpaqueV, USort, RefV
        top = {'service': (z3.BoolVal(True), IntV(svc)),
               'path': (z3.BoolVal(True), OpaqueV(z3.Const('_g_path', USort), 'path')),
               ctx: (z3.BoolVal(True), RefV(sid, 'rec'))}
        for k, pv in top.items():
            st.heap[(rid, k)] = pv
        st.heap[(rid, '__closed__')] = True
        st.heap[(rid, '__keys__')] = tuple(top.keys())
        eng.init_vals['_g_service'] = IntV(svc)
        eng.tracked_refs.add(rid)
        return RefV(rid, 'rec'), st
    return build


def reply_elements_spec(name='Logix.reply_elements', ensures=True, refuses=True, accepts=True, ctx=None):
    """ctx None: the env-style contract (used as callee contract and for the lemmas);
    ctx given: the same contract with `data` modelled as a real record for that service"""
    if ctx is not None:
        env = {"resolve_element(data.path)": "(_g_idx,)",
               "attribute.parser.struct_calcsize": "_g_siz",
               "len(attribute)": "_g_cnt",
               "self.MAX_BYTES": "_g_MAX_BYTES"}
        return Spec(
            '%s[%s]' % (name, ctx), ("server/enip/logix.py", "Logix.reply_elements"),
            params={'data': re_data(ctx), 'context': ('Const', ctx), '_g_idx': 'Int', '_g_cnt': 'Int', '_g_siz': 'Int', '_g_MAX_BYTES': 'Int'},
            env=env, requires=RE_REQUIRES, defs=dict(RE_DEFS),
            ensures=RE_ENSURES if ensures else [], raises={"AssertionError": "True"},
            refuses=RE_REFUSES if refuses else [], accepts=RE_ACCEPTS if accepts else [],
            pure_on_raise=True, modifies=[], replay=replay_reply_elements,
            note='whole function; the request is a record with optional elements/offset/max_size fields; env models only for '
                 'resolve_element(data.path), len(attribute), attribute.parser.struct_calcsize, self.MAX_BYTES')
    return Spec(
        name, ("server/enip/logix.py", "Logix.reply_elements"),
        params=dict(RE_PARAMS), env=dict(RE_ENV), requires=RE_REQUIRES, defs=dict(RE_DEFS),
        ensures=RE_ENSURES if ensures else [],
        raises={"AssertionError": "True"},
        refuses=RE_REFUSES if refuses else [], accepts=RE_ACCEPTS if accepts else [],
        pure_on_raise=True, modifies=[],
        replay=replay_reply_elements,
        hints=dict(sample=_sample, concrete=run_reply_elements),
        note='whole function; env models for the dotdict request, the Attribute length and element size')


def instance(prefix, overrides=None, returned=True):
    """z3 facts describing one call of reply_elements that returned normally, derived mechanically
    from the contract above (requires + ensures + not refuses); returns (ns, hyps, result tuple)"""
    ns = {}
    for nm, sort in RE_PARAMS.items():
        if sort == 'Int':
            ns[nm] = IntV(z3.Int(prefix + nm))
        else:
            isn = z3.Bool(prefix + nm + '.is_none')
            ns[nm] = UnionV([(isn, NONE), (z3.Not(isn), IntV(z3.Int(prefix + nm)))])
    if overrides:
        ns.update(overrides)
    res = TupV([IntV(z3.Int('%sresult%d' % (prefix, i))) for i in range(5)])
    ns['result'] = res
    pe = PureEval(ns, defs=dict(RE_DEFS))
    hyps = [pe.boolean(RE_REQUIRES)]
    for _, t in RE_ENSURES:
        hyps.append(pe.boolean(t))
    return ns, hyps + pe.facts, res, pe


# ================================================================================================
# Logix.request (whole method) — one contract per Logix tag service
# ================================================================================================
from pyvc.vals import RefV, SeqV, OpaqueV, ConstV, USort, IntSeq, BoolV
from . import attribute_common as AC

SERVICES = {'read_tag': 0x4c, 'read_frag': 0x52, 'write_tag': 0x4d, 'write_frag': 0x53}


def request_data(ctx):
    """builds the request record `data` for service context `ctx` from the ghost inputs
    _g_elements/_g_off/_g_max_size (OptInt: None == field absent), _g_reqtype, _g_wdata"""
    def build(eng, name, st):
        st = st.clone()
        rid, sid = eng.new_id(), eng.new_id()

        def opt(nm):
            isn = z3.Bool(nm + '.is_none')
            eng.init_vals[nm] = UnionV([(isn, NONE), (z3.Not(isn), IntV(z3.Int(nm)))])
            return (z3.Not(isn), IntV(z3.Int(nm)))
        sub = {'elements': opt('_g_elements')}
        if ctx in ('read_frag', 'write_frag'):
            sub['offset'] = opt('_g_off')
        else:
            eng.init_vals['_g_off'] = NONE
        if ctx.startswith('read'):
            sub['max_size'] = opt('_g_max_size') if ctx == 'read_frag' else None
            if sub['max_size'] is None:
                del sub['max_size']
                eng.init_vals['_g_max_size'] = NONE
            eng.init_vals['_g_wdata'] = SeqV(z3.Empty(IntSeq), 'list')
        else:
            eng.init_vals['_g_max_size'] = NONE
            wd = SeqV(z3.Const('_g_wdata', IntSeq), 'list')
            eng.init_vals['_g_wdata'] = wd
            sub['data'] = (z3.BoolVal(True), wd)
            rt = IntV(z3.Int('_g_reqtype'))
            eng.init_vals['_g_reqtype'] = rt
            sub['type'] = (z3.BoolVal(True), rt)
        for k, pv in sub.items():
            st.heap[(sid, k)] = pv
        st.heap[(sid, '__closed__')] = True
        st.heap[(sid, '__keys__')] = tuple(sub.keys())
        has_service = z3.Bool('_g_service_given')
        top = {'service': (has_service, IntV(SERVICES[ctx])),
               'path': (z3.BoolVal(True), OpaqueV(z3.Const('_g_path', USort), 'path')),
               ctx: (z3.BoolVal(True), RefV(sid, 'rec'))}
        for k, pv in top.items():
            st.heap[(rid, k)] = pv
        st.heap[(rid, '__closed__')] = True
        st.heap[(rid, '__keys__')] = tuple(top.keys())
        eng.init_vals['_g_service'] = IntV(SERVICES[ctx] | 0x80)
        eng.tracked_refs.add(rid)
        return RefV(rid, 'rec'), st
    return build


def produce_model(eng, st):
    return SeqV(z3.Const('_g_produced', IntSeq), 'bytes')


REQ_DEFS = dict(RE_DEFS)
REQ_DEFS.update(
    _g_cnt="len(old(_g_attribute.default))",
    _g_ndata="len(_g_wdata)",
    _g_MAX_BYTES="self.MAX_BYTES",
    VALS0="old(_g_attribute.default)",
    VALS="_g_attribute.default",
    FOUND="_g_path_ok and _g_found and _g_clid == 0x02 and _g_inid == self.instance_id",
    BEG="_g_idx + OFF // _g_siz",
    UNCHANGED="_g_attribute.default == old(_g_attribute.default)",
    ERR="_g_attribute.error",
)


def resolve_spec():
    return Spec('resolve', ("server/enip/device.py", "resolve"), params={'path': 'Opaque', 'attribute': 'Int'},
                raises={'AssertionError': 'not _g_path_ok'}, returns=('Tuple', ['Int', 'Int', 'Int']),
                ensures=['result[0] == _g_clid and result[1] == _g_inid'], hints=dict(defaults=dict(attribute=False)),
                note='ASSUMED callee contract: resolves (class, instance, attribute) or raises; symbol table not modelled')


def re_callee():
    sp = reply_elements_spec()
    sp.hints = dict(sp.hints)
    sp.hints['formals'] = ['self', 'attribute', 'data', 'context']
    sp.hints['bind'] = {
        '_g_service': 'data.service',
        '_g_idx': 'resolve_element(data.path)[0]',
        '_g_off': "data[context].get('offset')",
        '_g_max_size': "data[context].get('max_size')",
        '_g_elements': "data[context].get('elements')",
        '_g_cnt': 'len(attribute)',
        '_g_siz': 'attribute.parser.struct_calcsize',
        '_g_ndata': "len(data[context].data) if 'data' in data[context] else 0",
        '_g_MAX_BYTES': 'self.MAX_BYTES',
    }
    sp.returns = ('Tuple', ['Int', 'Int', 'Int', 'Int', 'Int'])
    return sp


def attribute_callees():
    out = {}
    for sp in AC.specs('vector'):
        if sp.name.startswith('Attribute.__getitem__[vector][slice]'):
            sp.hints = dict(sp.hints, unpack=AC.unpack_slice)
            out['Attribute.__getitem__'] = sp
        if sp.name.startswith('Attribute.__setitem__[vector][slice]'):
            sp.hints = dict(sp.hints, unpack=AC.unpack_slice)
            out['Attribute.__setitem__'] = sp
    return out


def request_spec(ctx, ensures, name=None, refuses=(), extra_requires='True'):
    read = ctx.startswith('read')
    callees = {'resolve': resolve_spec(), 'Logix.reply_elements': re_callee()}
    callees.update(attribute_callees())
    return Spec(
        name or 'Logix.request[%s]' % ctx, ("server/enip/logix.py", "Logix.request"),
        params={'data': request_data(ctx),
                '_g_attribute': ('Obj', 'Attribute', AC.VEC_FIELDS),
                '_g_found': 'Bool', '_g_path_ok': 'Bool', '_g_idx': 'Int', '_g_siz': 'Int', '_g_tagtype': 'Int',
                '_g_clid': 'Int', '_g_inid': 'Int'},
        fields={'MAX_BYTES': 'Int', 'instance_id': 'Int'},
        env={
            "self.route(data, fail=Message_Router.ROUTE_FALSE)": "None",
            "resolve_element(data.path)": "(_g_idx,)",
            "attribute.parser.struct_calcsize": "_g_siz",
            "attribute.parser.tag_type": "_g_tagtype",
            "lookup(clid, inid, atid)": "_g_attribute if _g_found else None",
            "self.produce(data)": produce_model,
        },
        requires=("_g_siz >= 1 and _g_idx >= 0 and self.MAX_BYTES >= 1 and 0 < _g_tagtype < 0xd0 "
                  "and (_g_off is None or _g_off >= 0) and (_g_max_size is None or _g_max_size >= 0) and " + extra_requires),
        defs=dict(REQ_DEFS),
        ensures=ensures, refuses=list(refuses),
        raises={},
        modifies=['_g_attribute.default', 'data.service', 'data.status', 'data.status_ext', 'data.input'],
        callees=callees, inline=['__len__'], replay=replay_request(ctx),
        hints=dict(defaults={}),
        note='whole method for one service; env: route() -> None (request is for this object), lookup() -> the tag or None, '
             'produce() -> opaque bytes; resolve() by assumed contract; reply_elements and Attribute slices by their proved contracts')


# ---- what "a data type the tag can hold" means (from the CIP type ranges, not from the code) ----
INT_RANGE = {0xc1: (0, 1), 0xc2: (-2 ** 7, 2 ** 7 - 1), 0xc3: (-2 ** 15, 2 ** 15 - 1), 0xc4: (-2 ** 31, 2 ** 31 - 1),
             0xc5: (-2 ** 63, 2 ** 63 - 1), 0xc6: (0, 2 ** 8 - 1), 0xc7: (0, 2 ** 16 - 1), 0xc8: (0, 2 ** 32 - 1),
             0xc9: (0, 2 ** 64 - 1)}
TYPE_NAME = {0xc1: 'BOOL', 0xc2: 'SINT', 0xc3: 'INT', 0xc4: 'DINT', 0xc5: 'LINT', 0xc6: 'USINT', 0xc7: 'UINT',
             0xc8: 'UDINT', 0xc9: 'ULINT', 0xca: 'REAL', 0xcb: 'LREAL'}


def holdable(tag, req):
    """every value of request type `req` is representable in tag type `tag` (integer types)"""
    if tag in INT_RANGE and req in INT_RANGE:
        return INT_RANGE[tag][0] <= INT_RANGE[req][0] and INT_RANGE[req][1] <= INT_RANGE[tag][1]
    if tag in (0xca, 0xcb):
        return req in INT_RANGE or req == tag or (tag == 0xcb and req == 0xca)
    return tag == req


HOLDABLE_TEXT = ' or '.join('(_g_tagtype == %d and _g_reqtype in %r)' % (t, tuple(r for r in TYPE_NAME if holdable(t, r)))
                            for t in TYPE_NAME)
INT_TYPES_TEXT = repr(tuple(INT_RANGE))

COMMON_ENSURES = [
    ('reply-bit: the reply service is the request service | 0x80', 'data.service == _g_service'),
    ('returns-true', 'result == True'),
    ('one-reply-payload-produced', "has(data, 'input')"),
    ('unknown-tag-or-attribute: status 0x05', 'implies(not FOUND, data.status == 0x05)'),
]
RANGE_BAD = "(not in_range or BEG >= _g_cnt)"
EXT = "data.status_ext.data[0]"
END_READ = "min(_g_idx + ELM, BEG + max((OFF % _g_siz + BUDGET + _g_siz - 1) // _g_siz, 1))"

READ_ENSURES = COMMON_ENSURES + [
    ('a-read-never-changes-the-tag', 'UNCHANGED'),
    ('range-error: 0xFF/0x2105', "implies(FOUND and %s, data.status == 0xFF and %s == 0x2105 and has(data, 'status_ext'))" % (RANGE_BAD, EXT)),
    ('in-range-read-succeeds', 'implies(FOUND and ERR == 0 and in_range and OFF // _g_siz < ELM and OFF % _g_siz == 0, data.status in (0x00, 0x06))'),
    ('success-only-in-range', 'implies(data.status in (0x00, 0x06), FOUND and in_range)'),
    ('success-returns-exactly-the-addressed-elements',
     'implies(data.status in (0x00, 0x06), data.CTX.data == VALS0[BEG:%s] and data.CTX.type == _g_tagtype)' % END_READ),
    ('status-0x00-iff-the-last-requested-element-was-sent',
     'implies(data.status in (0x00, 0x06), (data.status == 0x00) == (%s == _g_idx + ELM))' % END_READ),
    ('forced-error-code-is-reported', 'implies(FOUND and ERR != 0 and in_range and OFF // _g_siz < ELM and OFF % _g_siz == 0, data.status == ERR)'),
]

WRITE_ENSURES = COMMON_ENSURES + [
    ('refused-writes-leave-the-tag-unchanged', 'implies(data.status != 0x00, UNCHANGED)'),
    ('unknown-tag: unchanged', 'implies(not FOUND, UNCHANGED)'),
    ('type-mismatch: 0xFF/0x2107 and unchanged',
     "implies(FOUND and not (%s), data.status == 0xFF and %s == 0x2107 and has(data, 'status_ext') and UNCHANGED)" % (HOLDABLE_TEXT, EXT)),
    ('range-error: 0xFF', "implies(FOUND and (%s or BEG + _g_ndata > _g_cnt), data.status == 0xFF and %s in (0x2105, 0x2107) and UNCHANGED)" % (RANGE_BAD, EXT)),
    ('range-error-with-matching-type: 0xFF/0x2105',
     "implies(FOUND and _g_reqtype == _g_tagtype and (%s or BEG + _g_ndata > _g_cnt), data.status == 0xFF and %s == 0x2105)" % (RANGE_BAD, EXT)),
    ('in-range-write-of-the-tag-type-succeeds',
     'implies(FOUND and _g_reqtype == _g_tagtype and in_range and OFF // _g_siz < ELM and 1 <= _g_ndata and OFF // _g_siz + _g_ndata <= ELM, data.status == 0x00)'),
    ('success-stores-exactly-the-values-at-the-addressed-elements',
     'implies(data.status == 0x00, FOUND and in_range and VALS == VALS0[:BEG] + _g_wdata + VALS0[BEG + _g_ndata:] and len(VALS) == _g_cnt)'),
    ('status-is-0x00-0x05-or-0xFF', 'data.status in (0x00, 0x05, 0xFF)'),
]


def request_specs(which=('read_tag', 'read_frag', 'write_tag', 'write_frag')):
    out = []
    for ctx in which:
        ens = READ_ENSURES if ctx.startswith('read') else WRITE_ENSURES
        ens = [(l, t.replace('CTX', ctx)) for l, t in ens]
        extra = "_g_attribute.error >= 0 and _g_attribute.error != 6"
        if ctx.startswith('write'):
            extra = "_g_attribute.error == 0 and _g_tagtype in %s" % (tuple(TYPE_NAME),)
        out.append(request_spec(ctx, ens, extra_requires=extra))
    return out


# ---- replay of counter-models of Logix.request obligations on the real simulator objects ----------
SIZ_TYPE = {1: ('SINT', 0xc2), 2: ('INT', 0xc3), 4: ('DINT', 0xc4), 8: ('LINT', 0xc5)}


def replay_request(ctx):
    def replay(model, obligation):
        from . import sim
        if model is None:
            return dict(confirmed=False)
        m = model
        tagtype = int(m.get('_g_tagtype', 0xc3))
        tname = TYPE_NAME.get(tagtype)
        if tname is None or tname in ('REAL', 'LREAL'):
            tname = SIZ_TYPE.get(int(m.get('_g_siz', 2)), ('INT', 0xc3))[0]
        code = dict((n, c) for c, n in TYPE_NAME.items())
        lo, hi = INT_RANGE[code[tname]]
        vals0 = [min(max(int(x), lo), hi) for x in (m.get('_g_attribute.default') or []) if not isinstance(x, str)]
        if len(vals0) > 2000:
            return dict(confirmed=False, note='model too large to replay')
        found = bool(m.get('_g_found', True)) and bool(m.get('_g_path_ok', True))
        lx = sim.fresh({'T': (tname, max(len(vals0), 1))}, max_bytes=max(int(m.get('self.MAX_BYTES', 488)), 1))
        if vals0:
            sim.write_tag(lx, 'T', 0, len(vals0), code[tname], vals0)
        else:
            vals0 = sim.tag_values('T')
        name = 'T' if found else 'NoSuchTag'
        idx = max(int(m.get('_g_idx', 0)), 0)
        elm = None if m.get('_g_elements.is_none', False) else int(m.get('_g_elements', 1))
        off = None if m.get('_g_off.is_none', True) else int(m.get('_g_off', 0))
        wdata = [int(x) for x in (m.get('_g_wdata') or []) if not isinstance(x, str)]
        reqtype = int(m.get('_g_reqtype', code[tname]))
        sub = {}
        if elm is not None:
            sub['elements'] = elm
        if ctx.endswith('frag') and off is not None:
            sub['offset'] = off
        if ctx.startswith('write'):
            sub['type'] = reqtype
            sub['data'] = wdata
        before = list(sim.tag_values('T'))
        d = sim.request(lx, service=SERVICES[ctx], path=sim.sympath(name, idx), **{ctx: sub})
        st, ext = sim.status_of(d)
        after = list(sim.tag_values('T'))
        n = len(before)
        siz = {'SINT': 1, 'USINT': 1, 'BOOL': 1, 'INT': 2, 'UINT': 2, 'DINT': 4, 'UDINT': 4, 'LINT': 8, 'ULINT': 8}[tname]
        ELM = elm if elm is not None else n - idx
        OFF = (off or 0) if ctx.endswith('frag') else 0
        adv = OFF // siz
        in_range = ELM >= 1 and idx + ELM <= n
        problems = []
        if d.service != (SERVICES[ctx] | 0x80):
            problems.append('reply service is not request | 0x80')
        if not found and st != 0x05:
            problems.append('unknown tag must give status 0x05')
        if ctx.startswith('read'):
            if after != before:
                problems.append('a read changed the tag')
            if found and (not in_range or idx + adv >= n) and not (st == 0xFF and ext == [0x2105]):
                problems.append('range error must give 0xFF/0x2105')
            if st in (0, 6):
                got = list(d[ctx].data)
                if not (found and in_range) or got != before[idx + adv: idx + adv + len(got)] or not got or d[ctx].type != code[tname]:
                    problems.append('successful read must return exactly the addressed elements and the tag type')
                if (st == 0) != (idx + adv + len(got) == idx + ELM):
                    problems.append('status 0x00 exactly when the last requested element was sent')
        else:
            if st != 0 and after != before:
                problems.append('a refused write changed the tag')
            if found and not holdable(code[tname], reqtype) and not (st == 0xFF and ext == [0x2107]):
                problems.append('a type the tag cannot hold must give 0xFF/0x2107')
            if found and reqtype == code[tname] and (not in_range or idx + adv + len(wdata) > n) and not (st == 0xFF and ext == [0x2105]):
                problems.append('range error must give 0xFF/0x2105')
            if st == 0 and not (found and in_range and after == before[:idx + adv] + wdata + before[idx + adv + len(wdata):] and len(after) == n):
                problems.append('a successful write must store exactly the values at the addressed elements')
            if st not in (0, 5, 0xFF):
                problems.append('status must be 0x00, 0x05 or 0xFF')
        return dict(confirmed=bool(problems), function='cpppo.server.enip.logix.Logix.request',
                    input=dict(service=ctx, tag_type=tname, tag_values=before, found=found, index=idx, request=sub),
                    observed='status %r ext %r tag %r reply %r' % (st, ext, after, dict(d.get(ctx, {})) if hasattr(d.get(ctx, {}), 'items') else None),
                    required='; '.join(problems) or 'property holds on this input')
    return replay
