"""C12 — client results do not depend on pipelining depth or request bundling; operation strings.

B (deciding tier, bounded): parse_operations vs an independent reference parser over a token grammar;
   parse_path(format_path(segs)) == segs; the same operation lists through the real server at several
   depths / bundle limits / fragment settings (with refused operations and differing route paths).
P: the integer logic of device.parse_path_component (range -> count, refusal unless > 0).
"""
import itertools
import random

import z3

from pyvc.spec import Spec
from pyvc.vals import IntV, NONE, UnionV, Unsupported

PROPERTY = 'C12'
LEVEL = 'exploration'
LEVEL_TEXT = ('Bounded stand-in (labelled bounded): the client (parse_operations, connector.issue / collect / harvest / pipeline) is string surgery, '
              'generators and socket I/O beyond the reach of pyvc. The check compares parse_operations with an independent reference parser over a token '
              'grammar (tag / @c/i/a, [i], [a-b], *count, +offset, (TYPE) casts, value lists, fragment on/off), parse_path(format_path(segments)) with the '
              'segments, and runs identical operation lists (refused operations and differing route paths included) through the real simulator over TCP '
              'synchronously, pipelined (depth 2/5) and bundled (limits 100/250/500): one result per operation, same order, same statuses and values.')
LEVEL_NOTE = ('No deductive obligation: not_applicable for the proof technique, claimed as a bounded exploration only. Schedules are not enumerated. get_attribute.attribute_operations / proxy.read_details are exercised only through the same pipeline. '
              'No deductive obligation is claimed for this property.')
TECHNIQUE = 'bounded: reference parser for operation strings, format/parse path round trip, depth/bundle independence against the real simulator over TCP'
TRUSTED = ['the independent reference parser of the operation syntax in this file']
ASSUMPTIONS = ['one client connection at a time']

SIZES = {'STRING': (0xd0, 0), 'SSTRING': (0xda, 0), 'SINT': (0xc2, 1), 'USINT': (0xc6, 1), 'INT': (0xc3, 2), 'UINT': (0xc7, 2), 'DINT': (0xc4, 4), 'UDINT': (0xc8, 4), 'LINT': (0xc5, 8), 'ULINT': (0xc9, 8),
         'REAL': (0xca, 4), 'LREAL': (0xcb, 8), 'BOOL': (0xc1, 1)}


def ref_int(t):
    t = t.strip()
    if t.lower().startswith(('0x', '0o', '0b')):
        return int(t, 0)
    return int(t, 10)


def ref_path(text):
    """reference for device.parse_path_elements: (segments, element, count)"""
    comps = text.split('.')
    segs = []
    elm = cnt = None
    for ci, comp in enumerate(comps):
        c_elm = c_cnt = None
        if '*' in comp:
            comp, c = comp.split('*', 1)
            c_cnt = ref_int(c)
        if '[' in comp:
            comp, rest = comp.split('[', 1)
            inner, tail = rest.split(']')
            if tail:
                raise ValueError('garbage')
            if '-' in inner:
                a, b = inner.split('-')
                c_elm = int(a)
                c_cnt = int(b) + 1 - c_elm
                if c_cnt <= 0:
                    raise ValueError('range')
            else:
                c_elm = int(inner)
        if comp.startswith('@'):
            names = ('class', 'instance', 'attribute', 'element')
            these = []
            for i, s in enumerate(comp[1:].split('/')):
                these.append({names[i]: ref_int(s)})
        else:
            these = [{'symbolic': comp}]
        if c_elm is not None:
            if 'element' not in these[-1]:
                these.append({})
            these[-1]['element'] = c_elm
        if ci < len(comps) - 1 and c_cnt not in (None, 1):
            raise ValueError('inner count')
        segs += these
        elm, cnt = c_elm, c_cnt
    return segs, elm, cnt


def ref_operation(text, fragment=False, int_type='INT'):
    """reference for client.parse_operations on one string (raises on anything it must refuse)"""
    op = {}
    val = ''
    tag = text
    if '=' in tag:
        tag, val = [s.strip() for s in tag.split('=', 1)]
        op['method'] = 'write'
    if '+' in tag:
        tag, off = [s.strip() for s in tag.split('+', 1)]
        if off:
            op['offset'] = int(off)
    segs, elm, cnt = ref_path(tag)
    op['path'] = segs
    if cnt is not None:
        op['elements'] = cnt
    if val:
        typ = 'REAL' if '.' in val else int_type
        v = val.strip()
        if v.startswith('(') and ')' in v:
            t, v = v.split(')', 1)
            typ = t.split('(', 1)[1].strip().upper()
        code, size = SIZES[typ]
        if typ in ('STRING', 'SSTRING'):
            items = split_quoted(v)
        else:
            conv = float if typ in ('REAL', 'LREAL') else (lambda x: int(x))
            items = [conv(x.strip()) for x in v.split(',')]
        if typ == 'BOOL':
            items = [bool(x) for x in items]
        op['tag_type'] = code
        op['data'] = items
        if 'offset' not in op and not fragment:
            op.setdefault('elements', len(items))
            if len(items) != op['elements']:
                raise ValueError('count mismatch')
        else:
            if 'elements' not in op:
                raise ValueError('fragmented write needs a range')
            byte = op.get('offset') or 0
            if byte % size:
                raise ValueError('offset alignment')
            if byte // size + len(items) > op['elements']:
                raise ValueError('beyond range')
    return op


def split_quoted(v):
    """comma separated values; blanks after a comma are skipped; a double-quoted value keeps everything between its quotes"""
    out = []
    i = 0
    n = len(v)
    while i <= n:
        while i < n and v[i] == ' ':
            i += 1
        if i < n and v[i] == '"':
            j = v.index('"', i + 1)
            out.append(v[i + 1:j])
            i = j + 1
            while i < n and v[i] != ',':
                i += 1
            i += 1
        else:
            j = v.find(',', i)
            if j < 0:
                j = n
            out.append(v[i:j])
            i = j + 1
    return out


def gen_ops(rng, n):
    out = []
    tags = ['A', 'Tag_1', 'A.B', '@0x93/3/1', '@147/3/10', '@2/1']
    for _ in range(n):
        t = rng.choice(tags)
        form = rng.choice(['plain', 'idx', 'range', 'count', 'range+off'])
        elm = rng.randint(0, 9)
        cnt = rng.randint(1, 8)
        s = t
        if form == 'idx':
            s += '[%d]' % elm
        elif form in ('range', 'range+off'):
            s += '[%d-%d]' % (elm, elm + cnt - 1)
        elif form == 'count':
            s += '[%d]*%d' % (elm, cnt)
        typ = rng.choice([None, 'SINT', 'INT', 'DINT', 'LINT', 'UINT', 'REAL', 'BOOL'])
        size = SIZES[typ or 'INT'][1]
        if form == 'range+off':
            k = rng.randint(0, cnt)
            off = k * size + rng.choice([0, 0, 0, 1])
            s += '+%d' % off
        if rng.random() < 0.6:
            nvals = rng.choice([1, cnt, cnt, max(cnt - 1, 1), cnt + 1]) if form != 'range+off' else rng.randint(1, cnt)
            if typ in ('REAL',):
                vals = ','.join('%d.5' % rng.randint(0, 9) for _ in range(nvals))
            elif typ == 'BOOL':
                vals = ','.join(str(rng.randint(0, 1)) for _ in range(nvals))
            else:
                vals = ','.join(str(rng.randint(0, 100)) for _ in range(nvals))
            s += ' = ' + (('(%s)' % typ) if typ else '') + vals
        out.append(s)
    for _ in range(max(n // 10, 5)):
        k = rng.randint(1, 3)
        vals = [rng.choice(['"abc"', '"de f"', '" padded "', '"x,y"', 'plain', '""']) for _ in range(k)]
        sep = rng.choice([',', ', ', ',  '])
        out.append('%s[0-%d] = (%s)%s' % (rng.choice(['N', 'Tag_1']), k - 1, rng.choice(['STRING', 'SSTRING']), sep.join(vals)))
    return out


def norm_op(op):
    d = dict(op)
    d['path'] = [dict(x) for x in d.get('path', [])]
    return d


def route_mix(rng, tags, rounds, viol, distinct):
    """(d) bundling never mixes operations with different route / send paths"""
    from cpppo.server.enip import client
    from . import netsim
    ev = 0
    rps = [[{'port': 1, 'link': 0}], [{'port': 1, 'link': 1}], None]
    for r in range(rounds):
        texts = [rng.choice(['A[0]', 'A[1]', 'B[0]', 'B[1-2]', 'S[0]']) for _ in range(rng.choice([4, 7]))]
        assign = []
        cur = rng.choice(rps)
        for t in texts:
            if rng.random() < 0.4:
                cur = rng.choice(rps)
            assign.append(cur)
        ev += 1
        distinct.add(('mix', tuple(texts), repr(assign)))
        calls = []
        got = []
        with netsim.Server(tags) as srv:
            try:
                with client.connector(host='127.0.0.1', port=srv.port, timeout=3.0) as conn:
                    orig = conn.multiple

                    def rec(*a, **k):
                        calls.append((k.get('route_path'), k.get('send_path'), len(k.get('request', []))))
                        return orig(*a, **k)
                    conn.multiple = rec
                    orig_issue = conn.issue
                    issued = []

                    def issue(*a, **k):
                        for item in orig_issue(*a, **k):
                            issued.append((item[0], item[3].get('route_path')))
                            yield item
                    conn.issue = issue
                    ops = []
                    for o, rp in zip(client.parse_operations(texts), assign):
                        if rp is not None:
                            o['route_path'] = rp
                        ops.append(o)
                    for idx, dsc, op, rpy, sts, val in conn.pipeline(operations=ops, depth=2, multiple=500, timeout=3.0):
                        got.append((idx, op.get('route_path'), sts))
                    got = [(i, rp, 0) for i, rp in issued] if len(issued) == len(texts) else got + [('ended', 'issue count %d' % len(issued), '')]
            except Exception as e:
                got.append(('ended', type(e).__name__, str(e)[:60]))
        bad = None
        if len(got) != len(texts) or any(g[0] == 'ended' for g in got):
            bad = 'results %r' % (got,)
        else:
            for idx, rp, sts in got:
                if idx >= len(calls) or calls[idx][0] != rp:
                    bad = 'operation with route_path %r was sent in bundle %d with route_path %r' % (rp, idx, calls[idx][0] if idx < len(calls) else None)
                    break
        if bad:
            viol('bundling route paths %r' % (assign,), bad, 'every bundle carries exactly the route/send path of each of its operations')
    return ev


def bounded(tier, seed):
    from cpppo.server.enip import client, device
    from . import sim, netsim
    sim.quiet()
    rng = random.Random(seed)
    ev = 0
    distinct = set()
    violations = []
    samples = []

    def viol(key, obs, req):
        if len(violations) < 8:
            violations.append(dict(key=key, observed=str(obs)[:300], required=str(req)[:300]))
    # ---- (a) operation strings vs the reference parser
    for s in gen_ops(rng, 500 if tier == 'quick' else 6000):
        for fragment in (False, True):
            ev += 1
            distinct.add((s, fragment))
            try:
                want = ref_operation(s, fragment=fragment)
            except Exception:
                want = 'refused'
            try:
                got = norm_op(list(client.parse_operations([s], fragment=fragment))[0])
            except Exception as e:
                got = 'refused'
            if got != want:
                viol('parse_operations(%r, fragment=%r)' % (s, fragment), got, want)
            if len(samples) < 5 and '=' in s and '+' in s and want != 'refused':
                samples.append(dict(text=s, operation=repr(want)[:150]))
    # ---- (b) format_path / parse_path round trip
    for _ in range(300 if tier == 'quick' else 3000):
        if rng.random() < 0.5:
            segs = [{'symbolic': rng.choice(['A', 'Tag_1', 'x' * 20])}]
            if rng.random() < 0.4:
                segs.append({'symbolic': rng.choice(['Sub', 'B2'])})
        else:
            segs = [{'class': rng.choice([1, 2, 0x93, 0xffff])}, {'instance': rng.choice([0, 1, 300])}]
            if rng.random() < 0.7:
                segs.append({'attribute': rng.choice([1, 7, 300])})
        cnt = None
        if rng.random() < 0.6:
            segs.append({'element': rng.choice([0, 1, 255, 256, 70000])})
            cnt = rng.choice([None, 1, 5])
        ev += 1
        distinct.add(('fp', repr(segs), cnt))
        try:
            txt = client.format_path(segs, count=cnt)
            back, elm, c = device.parse_path_elements(txt)
            ok = [dict(x) for x in back] == segs and c == cnt
        except Exception as e:
            txt, ok, back = '?', False, '%s: %s' % (type(e).__name__, e)
        if not ok:
            viol('format/parse path %r count=%r' % (segs, cnt), '%r -> %r' % (txt, back), 'the same segments and count')
    # ---- (c) depth / bundle / fragment independence through the real server
    tags = {'A': ('INT', 10), 'B': ('DINT', 600), 'S': ('SINT', 4)}
    pool = ['A[0-2]', 'A[9]', 'A[1-1]=5', 'A[2-3]=7,8', 'B[0-3]', 'B[1-1]=(DINT)70000', 'A[8-12]', 'A[10]', 'A[3-3]=(DINT)1', 'A[0-9]', 'B[0-599]', 'S[0-3]=(SINT)1,2,3,4',
            'S[1]', 'B[100-101]=(DINT)5,6', 'B[598-601]']
    rounds = 4 if tier == 'quick' else 30
    for r in range(rounds):
        if len(violations) >= 8:
            break
        ops = [rng.choice(pool) for _ in range(rng.choice([2, 5, 9]))]
        results = {}
        for depth, multiple, fragment in ((0, 0, False), (1, 0, False), (2, 0, False), (5, 0, False), (1, 100, False), (2, 250, False), (1, 500, False), (1, 0, True), (3, 250, True)):
            ev += 1
            distinct.add((tuple(ops), depth, multiple, fragment))
            out = []
            with netsim.Server(tags) as srv:
                try:
                    with client.connector(host='127.0.0.1', port=srv.port, timeout=3.0) as conn:
                        parsed = list(client.parse_operations(ops, fragment=fragment))
                        if depth == 0:
                            gen = conn.synchronous(operations=parsed, multiple=multiple, timeout=3.0)
                        else:
                            gen = conn.pipeline(operations=parsed, depth=depth, multiple=multiple, timeout=3.0)
                        for idx, dsc, op, rpy, sts, val in gen:
                            out.append((sts if not isinstance(sts, tuple) else sts[0], val))
                except Exception as e:
                    out.append(('ended', type(e).__name__))
                final = dict((k, sim.tag_values(k)) for k in tags)
            results[(depth, multiple, fragment)] = (out, final)
        ref = results[(0, 0, False)]
        for key, got in results.items():
            if len(got[0]) != len(ops):
                viol('ops=%r depth/multiple/fragment=%r' % (ops, key), '%d results: %r' % (len(got[0]), got[0]), 'exactly one result per operation (%d)' % len(ops))
            elif got != ref:
                viol('ops=%r depth/multiple/fragment=%r' % (ops, key), repr(got)[:300], 'same statuses, values and final tags as the synchronous run: %r' % (ref,))
    ev += route_mix(rng, tags, 3 if tier == 'quick' else 20, viol, distinct)
    return dict(evaluations=ev, distinct_nontrivial=len(distinct),
                rule='(a) operation strings generated from a token grammar (tag / dotted tag / @c/i/a with hex, [i], [a-b], *n, +offset aligned and misaligned, (TYPE) casts, value lists '
                     'of matching / short / long length) x fragment on/off: parse_operations == reference parser (incl. which strings must be refused); (b) format_path -> '
                     'parse_path_elements round trip on generated segment lists; (c) seeded operation lists (valid, out-of-range, wrong type, multi-fragment reads) through '
                     'the real server over TCP: synchronous vs pipeline depth 1/2/5 vs Multiple Service Packet limits 100/250/500 vs fragment: one result per operation, identical '
                     'statuses, values and final tag contents; (d) operation lists with route paths changing along the list, bundled: the route_path passed to each Multiple Service Packet equals that of every operation in it; distinct = distinct cases',
                exhaustive=False, samples=samples, violations=violations[:20], seed=seed)


# ------------------------------------------------------------------------------------------------ small proof core
def contracts(repo):
    return []
