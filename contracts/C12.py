"""C12 — client results do not depend on pipelining depth or request bundling; operation strings.

B (deciding tier, bounded): parse_operations vs an independent reference parser over a token grammar;
   parse_path(format_path(segs)) == segs; the same operation lists through the real server at several
   depths / bundle limits / fragment settings (with refused operations and differing route paths).
P: fragment of connector.issue - the bundle join/flush decision never mixes route or send paths, index/sender-context accounting;
   fragment of connector.pipeline - one result per issued request, in order, for every depth (loop invariant + variant).
"""
from .util import distinct_keys
import itertools
import random

import z3

from pyvc.spec import Spec, Loop
from pyvc.vals import IntV, BoolV, NONE, UnionV, Unsupported
from pyvc.pure import fresh, to_int

PROPERTY = 'C12'
LEVEL = 'exploration'
LEVEL_TEXT = ('Bounded stand-in (labelled bounded): the client (parse_operations, connector.issue / collect / harvest / pipeline) is string surgery, '
              'generators and socket I/O beyond the reach of pyvc. The check compares parse_operations with an independent reference parser over a token '
              'grammar (tag / @c/i/a, [i], [a-b], *count, +offset, (TYPE) casts, value lists, fragment on/off), parse_path(format_path(segments)) with the '
              'segments, and runs identical operation lists (refused operations and differing route paths included) through the real simulator over TCP '
              'synchronously, pipelined (depth 2/5) and bundled (limits 100/250/500): one result per operation, same order, same statuses and values.')
LEVEL_NOTE = ('Deciding tier is bounded. One deductive fragment IS discharged for all states (pyvc, z3): the `if multiple:` statement of the operations loop of '
              'connector.issue - an operation joins a non-empty bundle only if its route and send path equal the bundle\'s, otherwise the bundle is flushed exactly '
              'once with all collected requests in order under one index and sender context, the index advances by one, and the new bundle carries this '
              'operation\'s paths. A second fragment, the flow-control loop and completeness assertion of connector.pipeline, is proved for every depth >= 0 and every number '
              'of requests: every issued request is harvested exactly once, in issue order, nothing is left in flight, the loop terminates (variant); the issuer and '
              'harvester generators are assumed (in-flight requests are answered oldest first, or the session ceases and the assertion fires). '
              'connector.harvest is proved as a whole (request k is paired with reply k, a reply with another sender context or service raises instead of '
              'being attributed), over an assumed finite reply sequence. parse_operations, collect and the socket I/O are bounded-only; schedules are not enumerated. '
              'get_attribute.attribute_operations / proxy.read_details are exercised only through the shared pipeline.')
TECHNIQUE = ('bounded: reference parser for operation strings, format/parse path round trip, depth/bundle independence against the real simulator over TCP; '
             'deductive fragment contracts (pyvc, z3) on the bundle join/flush decision of connector.issue and on the flow-control loop of connector.pipeline, whole-function contract on connector.harvest')
TRUSTED = ['producer contracts shared with C01 / C07 carry their assumptions (nested producers as opaque byte strings)', 'the independent reference parser of the operation syntax in this file', 'T9 fragment contract: the rest of connector.issue is unverified',
           'connector.multiple is an assumed callee (ghost call record)', 'the issue() and harvest() generators driven by pipeline are assumed (FIFO replies or cease)']
ASSUMPTIONS = ['one client connection at a time']

SIZES = {'STRING': (0xd0, 0), 'SSTRING': (0xda, 0), 'SINT': (0xc2, 1), 'USINT': (0xc6, 1), 'INT': (0xc3, 2), 'UINT': (0xc7, 2), 'DINT': (0xc4, 4), 'UDINT': (0xc8, 4), 'LINT': (0xc5, 8), 'ULINT': (0xc9, 8),
         'REAL': (0xca, 4), 'LREAL': (0xcb, 8), 'BOOL': (0xc1, 1)}


def ref_int(t):
    t = t.strip()
    if t.lower().startswith(('0x', '0o', '0b')):
        return int(t, 0)
    return int(t, 10)


def ref_path(text):
    """reference for device.parse_path_elements: (segments, element, count)"""
    comps = text.split('.')
    segs = []
    elm = cnt = None
    for ci, comp in enumerate(comps):
        c_elm = c_cnt = None
        if '*' in comp:
            comp, c = comp.split('*', 1)
            c_cnt = ref_int(c)
        if '[' in comp:
            comp, rest = comp.split('[', 1)
            inner, tail = rest.split(']')
            if tail:
                raise ValueError('garbage')
            if '-' in inner:
                a, b = inner.split('-')
                c_elm = int(a)
                c_cnt = int(b) + 1 - c_elm
                if c_cnt <= 0:
                    raise ValueError('range')
            else:
                c_elm = int(inner)
        if comp.startswith('@'):
            names = ('class', 'instance', 'attribute', 'element')
            these = []
            for i, s in enumerate(comp[1:].split('/')):
                these.append({names[i]: ref_int(s)})
        else:
            these = [{'symbolic': comp}]
        if c_elm is not None:
            if 'element' not in these[-1]:
                these.append({})
            these[-1]['element'] = c_elm
        if ci < len(comps) - 1 and c_cnt not in (None, 1):
            raise ValueError('inner count')
        segs += these
        elm, cnt = c_elm, c_cnt
    return segs, elm, cnt


def ref_operation(text, fragment=False, int_type='INT'):
    """reference for client.parse_operations on one string (raises on anything it must refuse)"""
    op = {}
    val = ''
    tag = text
    if '=' in tag:
        tag, val = [s.strip() for s in tag.split('=', 1)]
        op['method'] = 'write'
    if '+' in tag:
        tag, off = [s.strip() for s in tag.split('+', 1)]
        if off:
            op['offset'] = int(off)
    segs, elm, cnt = ref_path(tag)
    op['path'] = segs
    if cnt is not None:
        op['elements'] = cnt
    if val:
        typ = 'REAL' if '.' in val else int_type
        v = val.strip()
        if v.startswith('(') and ')' in v:
            t, v = v.split(')', 1)
            typ = t.split('(', 1)[1].strip().upper()
        code, size = SIZES[typ]
        if typ in ('STRING', 'SSTRING'):
            items = split_quoted(v)
        else:
            conv = float if typ in ('REAL', 'LREAL') else (lambda x: int(x))
            items = [conv(x.strip()) for x in v.split(',')]
        if typ == 'BOOL':
            items = [bool(x) for x in items]
        op['tag_type'] = code
        op['data'] = items
        if 'offset' not in op and not fragment:
            op.setdefault('elements', len(items))
            if len(items) != op['elements']:
                raise ValueError('count mismatch')
        else:
            if 'elements' not in op:
                raise ValueError('fragmented write needs a range')
            byte = op.get('offset') or 0
            if byte % size:
                raise ValueError('offset alignment')
            if byte // size + len(items) > op['elements']:
                raise ValueError('beyond range')
    return op


def split_quoted(v):
    """comma separated values; blanks after a comma are skipped; a double-quoted value keeps everything between its quotes"""
    out = []
    i = 0
    n = len(v)
    while i <= n:
        while i < n and v[i] == ' ':
            i += 1
        if i < n and v[i] == '"':
            j = v.index('"', i + 1)
            out.append(v[i + 1:j])
            i = j + 1
            while i < n and v[i] != ',':
                i += 1
            i += 1
        else:
            j = v.find(',', i)
            if j < 0:
                j = n
            out.append(v[i:j])
            i = j + 1
    return out


def gen_ops(rng, n):
    out = []
    tags = ['A', 'Tag_1', 'A.B', '@0x93/3/1', '@147/3/10', '@2/1']
    for _ in range(n):
        t = rng.choice(tags)
        form = rng.choice(['plain', 'idx', 'range', 'count', 'range+off'])
        elm = rng.randint(0, 9)
        cnt = rng.randint(1, 8)
        s = t
        if form == 'idx':
            s += '[%d]' % elm
        elif form in ('range', 'range+off'):
            s += '[%d-%d]' % (elm, elm + cnt - 1)
        elif form == 'count':
            s += '[%d]*%d' % (elm, cnt)
        typ = rng.choice([None, 'SINT', 'INT', 'DINT', 'LINT', 'UINT', 'REAL', 'BOOL'])
        size = SIZES[typ or 'INT'][1]
        if form == 'range+off':
            k = rng.randint(0, cnt)
            off = k * size + rng.choice([0, 0, 0, 1])
            s += '+%d' % off
        if rng.random() < 0.6:
            nvals = rng.choice([1, cnt, cnt, max(cnt - 1, 1), cnt + 1]) if form != 'range+off' else rng.randint(1, cnt)
            if typ in ('REAL',):
                vals = ','.join('%d.5' % rng.randint(0, 9) for _ in range(nvals))
            elif typ == 'BOOL':
                vals = ','.join(str(rng.randint(0, 1)) for _ in range(nvals))
            else:
                vals = ','.join(str(rng.randint(0, 100)) for _ in range(nvals))
            s += ' = ' + (('(%s)' % typ) if typ else '') + vals
        out.append(s)
    for _ in range(max(n // 10, 5)):
        k = rng.randint(1, 3)
        vals = [rng.choice(['"abc"', '"de f"', '" padded "', '"x,y"', 'plain', '""']) for _ in range(k)]
        sep = rng.choice([',', ', ', ',  '])
        out.append('%s[0-%d] = (%s)%s' % (rng.choice(['N', 'Tag_1']), k - 1, rng.choice(['STRING', 'SSTRING']), sep.join(vals)))
    return out


def norm_op(op):
    d = dict(op)
    d['path'] = [dict(x) for x in d.get('path', [])]
    return d


def route_mix(rng, tags, rounds, viol, distinct):
    """(d) bundling never mixes operations with different route / send paths"""
    from cpppo.server.enip import client
    from . import netsim
    ev = 0
    rps = [[{'port': 1, 'link': 0}], [{'port': 1, 'link': 1}], None]
    for r in range(rounds):
        texts = [rng.choice(['A[0]', 'A[1]', 'B[0]', 'B[1-2]', 'S[0]']) for _ in range(rng.choice([4, 7]))]
        assign = []
        cur = rng.choice(rps)
        for t in texts:
            if rng.random() < 0.4:
                cur = rng.choice(rps)
            assign.append(cur)
        # every other round a small size limit: bundles are then flushed because they are full, and a path change may follow a flush directly
        limit = 500 if r % 2 == 0 else 120
        if r % 4 == 1:
            # crafted: single-element reads (22 bytes estimated each), two fit under 120; the path changes exactly after each size flush
            texts = [rng.choice(['A[0]', 'A[1]', 'B[0]', 'S[0]']) for _ in range(7)]
            assign = [rps[(i // 3 + r // 4) % 3] for i in range(7)]
        ev += 1
        distinct.add(('mix', tuple(texts), repr(assign), limit))
        calls = []
        got = []
        with netsim.Server(tags) as srv:
            try:
                with client.connector(host='127.0.0.1', port=srv.port, timeout=3.0) as conn:
                    orig = conn.multiple

                    def rec(*a, **k):
                        calls.append((k.get('route_path'), k.get('send_path'), len(k.get('request', []))))
                        return orig(*a, **k)
                    conn.multiple = rec
                    orig_issue = conn.issue
                    issued = []

                    def issue(*a, **k):
                        for item in orig_issue(*a, **k):
                            issued.append((item[0], item[3].get('route_path')))
                            yield item
                    conn.issue = issue
                    ops = []
                    for o, rp in zip(client.parse_operations(texts), assign):
                        if rp is not None:
                            o['route_path'] = rp
                        ops.append(o)
                    for idx, dsc, op, rpy, sts, val in conn.pipeline(operations=ops, depth=2, multiple=limit, timeout=3.0):
                        got.append((idx, op.get('route_path'), sts))
                    got = [(i, rp, 0) for i, rp in issued] if len(issued) == len(texts) else got + [('ended', 'issue count %d' % len(issued), '')]
            except Exception as e:
                got.append(('ended', type(e).__name__, str(e)[:60]))
        bad = None
        if len(got) != len(texts) or any(g[0] == 'ended' for g in got):
            bad = 'results %r' % (got,)
        else:
            for idx, rp, sts in got:
                if idx >= len(calls) or calls[idx][0] != rp:
                    bad = 'operation with route_path %r was sent in bundle %d with route_path %r' % (rp, idx, calls[idx][0] if idx < len(calls) else None)
                    break
        if bad:
            viol('bundling route paths %r multiple=%d' % (assign, limit), bad, 'every bundle carries exactly the route/send path of each of its operations')
    return ev


def proxy_details(viol, distinct):
    """(e) get_attribute.proxy.read_details (built on the same pipeline): the (value, status, address, type) records of a list of attributes of
    different types do not depend on depth / bundling"""
    from . import netsim
    from cpppo.server.enip.get_attribute import proxy
    numpath = lambda c, i, a: {'segment': [{'class': c}, {'instance': i}, {'attribute': a}]}
    tags = {'A': ('INT', 4), 'I1': ('INT', None, numpath(0x93, 3, 1)), 'D1': ('DINT', None, numpath(0x93, 3, 2)), 'R1': ('REAL', None, numpath(0x93, 3, 3)),
            'S1': ('SINT', None, numpath(0x93, 3, 4))}
    attrs = ['A', ('@0x93/3/1', 'INT'), ('@0x93/3/2', 'DINT'), ('@0x93/3/9', 'INT'), ('@0x93/3/3', 'REAL'), ('@0x93/3/4', 'SINT'), 'A', ('@0x93/3/2', 'DINT')]
    ev = 0
    ref = None

    def view(recs):
        out = []
        for val, (sts, (att, typ, uni)) in recs:
            tn = [getattr(t, '__name__', t) for t in typ] if isinstance(typ, (list, tuple)) else getattr(typ, '__name__', typ)
            out.append((None if val is None else list(val), sts, str(att), tn))
        return out
    for depth, multiple in ((0, 0), (1, 0), (3, 0), (1, 250), (2, 500), (4, 100)):
        ev += 1
        distinct.add(('proxy', depth, multiple))
        try:
            with netsim.Server(tags) as srv:
                from . import sim
                lx = sim.device.lookup(0x02, 1)
                for nm, code, v in (('I1', 0xc3, [1234]), ('D1', 0xc4, [70000]), ('R1', 0xca, [1.5]), ('S1', 0xc2, [-5]), ('A', 0xc3, [1, 2, 3, 4])):
                    sim.write_tag(lx, nm, 0, len(v), code, v)
                via = proxy('127.0.0.1', port=srv.port, depth=depth, multiple=multiple, timeout=3.0, identity_default=__import__('cpppo').dotdict(product_name='sim'))
                with via:
                    got = view(via.read_details(list(attrs)))
        except Exception as e:
            got = 'raised %s: %s' % (type(e).__name__, str(e)[:120])
        if ref is None:
            ref = got
            if isinstance(got, str) or len(got) != len(attrs):
                viol('proxy.read_details depth=%d multiple=%d' % (depth, multiple), repr(got)[:300], 'one record per attribute (%d)' % len(attrs))
        elif got != ref:
            viol('proxy.read_details depth=%d multiple=%d' % (depth, multiple), repr(got)[:300], 'the records of the unbundled, unpipelined run: %r' % (ref,))
    return ev


def bounded(tier, seed):
    from cpppo.server.enip import client, device
    from . import sim, netsim
    sim.quiet()
    rng = random.Random(seed)
    ev = 0
    distinct = set()
    violations = []
    samples = []

    def viol(key, obs, req):
        if len(violations) < 8:
            violations.append(dict(key=key, observed=str(obs)[:300], required=str(req)[:300]))
    # ---- (a) operation strings vs the reference parser
    for s in gen_ops(rng, 500 if tier == 'quick' else 6000):
        for fragment in (False, True):
            ev += 1
            distinct.add((s, fragment))
            try:
                want = ref_operation(s, fragment=fragment)
            except Exception:
                want = 'refused'
            try:
                got = norm_op(list(client.parse_operations([s], fragment=fragment))[0])
            except Exception as e:
                got = 'refused'
            if got != want:
                viol('parse_operations(%r, fragment=%r)' % (s, fragment), got, want)
            if len(samples) < 5 and '=' in s and '+' in s and want != 'refused':
                samples.append(dict(text=s, operation=repr(want)[:150]))
    # ---- (b) format_path / parse_path round trip
    for _ in range(300 if tier == 'quick' else 3000):
        if rng.random() < 0.5:
            segs = [{'symbolic': rng.choice(['A', 'Tag_1', 'x' * 20])}]
            if rng.random() < 0.4:
                segs.append({'symbolic': rng.choice(['Sub', 'B2'])})
        else:
            segs = [{'class': rng.choice([1, 2, 0x93, 0xffff])}, {'instance': rng.choice([0, 1, 300])}]
            if rng.random() < 0.7:
                segs.append({'attribute': rng.choice([1, 7, 300])})
        cnt = None
        if rng.random() < 0.6:
            segs.append({'element': rng.choice([0, 1, 255, 256, 70000])})
            cnt = rng.choice([None, 1, 5])
        ev += 1
        distinct.add(('fp', repr(segs), cnt))
        try:
            txt = client.format_path(segs, count=cnt)
            back, elm, c = device.parse_path_elements(txt)
            ok = [dict(x) for x in back] == segs and c == cnt
        except Exception as e:
            txt, ok, back = '?', False, '%s: %s' % (type(e).__name__, e)
        if not ok:
            viol('format/parse path %r count=%r' % (segs, cnt), '%r -> %r' % (txt, back), 'the same segments and count')
    # ---- (c) depth / bundle / fragment independence through the real server
    numpath = lambda c, i, a: {'segment': [{'class': c}, {'instance': i}, {'attribute': a}]}
    tags = {'A': ('INT', 10), 'B': ('DINT', 600), 'S': ('SINT', 4), 'N1': ('INT', 2, numpath(0x93, 3, 1)), 'N2': ('DINT', 1, numpath(0x93, 3, 2)),
            'T2': ('INT', 3, numpath(2, 2, 1))}          # a tag in another instance of the class that also routes the bundles
    pool = ['A[0-2]', 'A[9]', 'A[1-1]=5', 'A[2-3]=7,8', 'B[0-3]', 'B[1-1]=(DINT)70000', 'A[8-12]', 'A[10]', 'A[3-3]=(DINT)1', 'A[0-9]', 'B[0-599]', 'S[0-3]=(SINT)1,2,3,4',
            'S[1]', 'B[100-101]=(DINT)5,6', 'B[598-601]',
            # every kind of operation the client issues: Get / Set Attribute Single, Get Attributes All, and the generic service-code request
            '@0x93/3/1', '@0x93/3/1[0-1]=(INT)11,12', '@0x93/3/2[0-0]=(DINT)70001', '@0x93/3/2', '@0x93/3/9', '@0x93/3',
            {'method': 'get_attribute_single', 'path': '@0x93/3/1', 'tag_type': 0xc3, 'elements': 2}, {'method': 'get_attribute_single', 'path': '@0x93/3/9'},
            {'method': 'get_attributes_all', 'path': '@0x93/3', 'data_size': 12}, {'method': 'get_attribute_single', 'path': '@0x93/3/2'},
            {'method': 'set_attribute_single', 'path': '@0x93/3/1', 'tag_type': 0xc3, 'data': [31, 32], 'elements': 2},
            {'method': 'service_code', 'code': 0x0e, 'path': '@0x93/3/1', 'data_size': 8},
            {'method': 'service_code', 'code': 0x10, 'path': '@0x93/3/1', 'data': [21, 22], 'tag_type': 0xc3, 'elements': 2, 'data_size': 4},
            {'method': 'service_code', 'code': 0x0e, 'path': '@0x93/3/7', 'data_size': 8},
            {'method': 'service_code', 'code': 0x0e, 'path': '@0x93/3/2'},
            # operations addressed to objects other than the one that unpacks a bundle: another instance of its class, its class-level attributes, other classes
            'T2[0-1]', 'T2[1-1]=(INT)77', '@2/2/1', '@2/0/2', '@2/0/3', {'method': 'get_attribute_single', 'path': '@2/2/1'}, {'method': 'get_attribute_single', 'path': '@1/1/1'}]
    rounds = 4 if tier == 'quick' else 30
    for r in range(rounds):
        if len(violations) >= 8:
            break
        ops = [rng.choice(pool) for _ in range(rng.choice([2, 5, 9]))]
        if r == 0:
            ops = pool[15:] + ['A[0-2]']                # the first round: one of every non-tag operation kind and target
        results = {}
        for depth, multiple, fragment in ((0, 0, False), (1, 0, False), (2, 0, False), (5, 0, False), (1, 100, False), (2, 250, False), (1, 500, False), (1, 0, True), (3, 250, True)):
            ev += 1
            distinct.add((repr(ops), depth, multiple, fragment))
            out = []
            with netsim.Server(tags) as srv:
                try:
                    with client.connector(host='127.0.0.1', port=srv.port, timeout=3.0) as conn:
                        parsed = list(client.parse_operations([dict(o) if isinstance(o, dict) else o for o in ops], fragment=fragment))
                        if depth == 0:
                            gen = conn.synchronous(operations=parsed, multiple=multiple, timeout=3.0)
                        else:
                            gen = conn.pipeline(operations=parsed, depth=depth, multiple=multiple, timeout=3.0)
                        for idx, dsc, op, rpy, sts, val in gen:
                            out.append((sts if not isinstance(sts, tuple) else sts[0], val))
                except Exception as e:
                    out.append(('ended', type(e).__name__))
                final = dict((k, sim.tag_values(k)) for k in tags)
            results[(depth, multiple, fragment)] = (out, final)
        ref = results[(0, 0, False)]
        for key, got in results.items():
            if len(got[0]) != len(ops):
                viol('ops=%r depth/multiple/fragment=%r' % (ops, key), '%d results: %r' % (len(got[0]), got[0]), 'exactly one result per operation (%d)' % len(ops))
            elif got != ref:
                viol('ops=%r depth/multiple/fragment=%r' % (ops, key), repr(got)[:300], 'same statuses, values and final tags as the synchronous run: %r' % (ref,))
    ev += route_mix(rng, tags, 4 if tier == 'quick' else 20, viol, distinct)
    ev += proxy_details(viol, distinct)
    return dict(evaluations=ev, distinct_nontrivial=len(distinct), distinct_keys=distinct_keys(distinct),
                rule='(a) operation strings generated from a token grammar (tag / dotted tag / @c/i/a with hex, [i], [a-b], *n, +offset aligned and misaligned, (TYPE) casts, value lists '
                     'of matching / short / long length; (e) get_attribute.proxy.read_details over attributes of different types at several depth / bundle settings) x fragment on/off: parse_operations == reference parser (incl. which strings must be refused); (b) format_path -> '
                     'parse_path_elements round trip on generated segment lists; (c) seeded operation lists (valid, out-of-range, wrong type, multi-fragment reads) through '
                     'the real server over TCP (tag reads and writes, Get / Set Attribute Single, Get Attributes All and generic service-code operations): synchronous vs pipeline depth 1/2/5 vs Multiple Service Packet limits 100/250/500 vs fragment: one result per operation, identical '
                     'statuses, values and final tag contents; (d) operation lists with route paths changing along the list, bundled: the route_path passed to each Multiple Service Packet equals that of every operation in it; distinct = distinct cases',
                exhaustive=False, samples=samples, violations=violations[:20], seed=seed)


# ------------------------------------------------------------------------------------------------ small proof core
import ast as _ast

CF = 'server/enip/client.py'
RD = z3.Function('req_descr', z3.IntSort(), z3.IntSort())      # the (descr, op, request) ids of the j-th request already collected in the bundle
RO = z3.Function('req_op', z3.IntSort(), z3.IntSort())
RR = z3.Function('req_req', z3.IntSort(), z3.IntSort())
NREQ = z3.Int('_g_nreq')


def frag_bundle(eng, fdef):
    """the `if multiple:` statement in the body of the `for op in operations:` loop of connector.issue (join the bundle, or flush it).
    Checked on the AST as well: outside that statement `requests` and `requests_paths` are only ever assigned together, as `[]` and `{}`
    (the state "no collected request <=> no recorded path" the contract requires on entry holds initially)."""
    frag = None
    for n in _ast.walk(fdef):
        if isinstance(n, _ast.For) and _ast.unparse(n.iter) == 'operations':
            for st in n.body:
                if isinstance(st, _ast.If) and _ast.unparse(st.test) == 'multiple':
                    frag = st
    if frag is None:
        raise Unsupported('stale contract: connector.issue has no `if multiple:` statement in its operations loop')
    inside = set(id(x) for x in _ast.walk(frag))
    inits = {}
    for n in _ast.walk(fdef):
        if id(n) in inside:
            continue
        if isinstance(n, (_ast.Assign, _ast.AugAssign)):
            for t in (n.targets if isinstance(n, _ast.Assign) else [n.target]):
                for nm in _ast.walk(t):
                    if isinstance(nm, _ast.Name) and nm.id in ('requests', 'requests_paths'):
                        inits.setdefault(nm.id, []).append(_ast.unparse(n.value) if isinstance(n, _ast.Assign) and isinstance(t, _ast.Name) else '?')
        if isinstance(n, _ast.Call) and isinstance(n.func, _ast.Attribute) and isinstance(n.func.value, _ast.Name) \
                and n.func.value.id in ('requests', 'requests_paths') and n.func.attr not in ('get',):
            raise Unsupported('stale contract: %s is changed outside the `if multiple:` statement (line %d)' % (n.func.value.id, n.lineno))
    if inits.get('requests') != ['[]'] or inits.get('requests_paths') != ['{}']:
        raise Unsupported('stale contract: requests / requests_paths are not initialised exactly once as [] / {} outside the `if multiple:` statement: %r' % (inits,))
    return [frag]


def _rl(pe, x):
    from pyvc.vals import RefV, PyListV
    if isinstance(x, RefV) and hasattr(pe, 'st'):
        x = pe.st.heap[(x.id, 'val')]
    return x


def rlen(pe, x):
    from pyvc.vals import PyListV, ListV
    x = _rl(pe, x)
    if isinstance(x, Appended):
        return IntV(x.n + len(x.extra))
    if isinstance(x, PyListV):
        return IntV(len(x.items))
    if isinstance(x, ListV):
        return IntV(x.n)
    raise Unsupported('rlen(%r)' % (x,))


def rlast(pe, x):
    from pyvc.vals import PyListV
    x = _rl(pe, x)
    if isinstance(x, Appended):
        return x.extra[-1]
    if isinstance(x, PyListV) and x.items:
        return x.items[-1]
    raise Unsupported('rlast(%r)' % (x,))


BFUNCS = dict(rlen=rlen, rlast=rlast, rd=lambda pe, j: IntV(RD(to_int(j))), ro=lambda pe, j: IntV(RO(to_int(j))), rr=lambda pe, j: IntV(RR(to_int(j))))


def requests_list(eng, name, st):
    from pyvc.vals import ListV, TupV
    st = st.clone()
    st.pc.append(NREQ >= 0)
    eng.init_vals['_g_nreq'] = IntV(NREQ)
    ix = lambda i: i if z3.is_expr(i) else z3.IntVal(i)
    return eng.new_list(st, ListV(NREQ, lambda i: TupV([IntV(RD(ix(i))), IntV(RO(ix(i))), IntV(RR(ix(i)))]), tag='requests'))[::-1]


class Appended(object):
    """the collected requests after an append: the old ghost list (first n) followed by the given items"""
    def __init__(self, n, extra):
        self.n, self.extra = n, list(extra)


def requests_append(eng, ref, cur, x, st, n, store):
    from pyvc.vals import ListV
    if isinstance(cur, ListV) and cur.tag == 'requests':
        yield store(st, Appended(cur.n, [x])), NONE
        return
    raise Unsupported('append to %r' % (cur,))


def multiple_call(eng, recv, args, kw, st, n):
    """ASSUMED effect of connector.multiple (builds and sends one Multiple Service Packet): recorded in ghost variables - how many times it
    was called, with how many member requests (and that they are the collected ones, in order), which paths and which sender context"""
    from pyvc.vals import ListV, RefV
    req = eng.deref_list(kw.get('request'), st)
    if not isinstance(req, ListV):
        raise Unsupported('multiple(request=%r)' % (req,))
    k = z3.Int('k!mul')
    same = z3.ForAll([k], z3.Implies(z3.And(0 <= k, k < NREQ), to_int(req.get(k)) == RR(k)))
    paths = kw.get('**')
    if not (isinstance(paths, RefV) and paths.kind == 'rec'):
        raise Unsupported('multiple(**%r)' % (paths,))
    s = st.clone()
    s.ghost = dict(s.ghost)
    s.ghost['mul_calls'] = IntV(to_int(s.ghost['mul_calls']) + 1)
    s.ghost['mul_members'] = IntV(req.n)
    s.ghost['mul_in_order'] = BoolV(same)
    s.ghost['mul_has_paths'] = BoolV(z3.And(eng.rec_has(s, paths, 'route_path'), eng.rec_has(s, paths, 'send_path')))
    s.ghost['mul_route'] = s.heap[(paths.id, 'route_path')][1]
    s.ghost['mul_send'] = s.heap[(paths.id, 'send_path')][1]
    s.ghost['mul_ctx'] = kw.get('sender_context')
    yield s, IntV(fresh('mul'))


def some_time(eng, recv, args, kw, st, n):
    """misc.timer(): some number (only used for log texts here)"""
    yield st, IntV(fresh('now'))


def issue_bundle_spec(repo):
    PATHS = ('Rec', {'route_path?': 'OptInt', 'send_path?': 'OptInt'})
    loc = {'multiple': 'Int', 'requests': requests_list, 'requests_paths': PATHS, 'op': PATHS, 'reqsiz': 'Int', 'rpysiz': 'Int', 'reqest': 'Int',
           'rpyest': 'Int', 'reqmin': 'Int', 'rpymin': 'Int', 'index': 'Int', 'sender_context': 'Int', 'descr': 'Int', 'req': 'Int',
           'timeout': 'OptInt', 'begun': 'Int', 'elapsed': 'Int'}
    JOIN = ("(_g_nreq == 0 or max(reqsiz + reqest, rpysiz + rpyest) < multiple) and "
            "(requests_paths.route_path if has(requests_paths, 'route_path') else op_route) == op_route and "
            "(requests_paths.send_path if has(requests_paths, 'send_path') else op_send) == op_send")
    return Spec('connector.issue[bundle: join or flush]', (CF, 'connector.issue'), params={}, fragment=frag_bundle, yields=5,
                hints=dict(locals=loc, list_append=requests_append, funcs=BFUNCS),
                loops={1: Loop(index='K', invariant=[('yielded so far', 'NOUT == K and forall(0, K, lambda j: OUT(j)[0] == index and OUT(j)[1] == sender_context '
                                                                       'and OUT(j)[2] == rd(j) and OUT(j)[3] == ro(j) and OUT(j)[4] == rr(j))')])},
                ghost=dict(mul_calls=('Int', '0'), mul_members=('Int', '0'), mul_in_order=('Bool', 'False'), mul_has_paths=('Bool', 'False'),
                           mul_route=('OptInt', 'None'), mul_send=('OptInt', 'None'), mul_ctx=('Int', '0')),
                defs=dict(op_route="(op.route_path if has(op, 'route_path') else None)", op_send="(op.send_path if has(op, 'send_path') else None)",
                          JOIN=JOIN),
                requires="multiple > 0 and implies(_g_nreq > 0, has(requests_paths, 'route_path') and has(requests_paths, 'send_path')) and "
                         "implies(_g_nreq == 0, not has(requests_paths, 'route_path') and not has(requests_paths, 'send_path'))",
                ensures=[('never mixed: an operation joins a non-empty bundle only if its route and send path are the bundle\'s',
                          "implies(mul_calls == 0 and _g_nreq > 0, old(requests_paths.route_path) == op_route and old(requests_paths.send_path) == op_send)"),
                         ('joined exactly when it fits and the paths agree; otherwise the bundle is flushed exactly once',
                          "(mul_calls == 0) == JOIN and mul_calls <= 1"),
                         ('a flush sends all collected requests, in order, with the bundle\'s paths and sender context',
                          "implies(mul_calls == 1, mul_members == _g_nreq and mul_in_order and mul_has_paths and "
                          "mul_route == old(requests_paths.route_path) and mul_send == old(requests_paths.send_path) and mul_ctx == old(sender_context))"),
                         ('a flush yields every collected request once, in order, under the one index and sender context of the bundle',
                          "implies(mul_calls == 1, NOUT == _g_nreq and forall(0, _g_nreq, lambda j: OUT(j)[0] == old(index) and OUT(j)[1] == old(sender_context) "
                          "and OUT(j)[2] == rd(j) and OUT(j)[3] == ro(j) and OUT(j)[4] == rr(j)))"),
                         ('joining yields nothing and keeps the index', "implies(mul_calls == 0, NOUT == 0 and _f_index == old(index))"),
                         ('a flush advances the index by exactly one', "implies(mul_calls == 1, _f_index == old(index) + 1)"),
                         ('afterwards the bundle ends with this operation and carries its paths',
                          "has(_f_requests_paths, 'route_path') and has(_f_requests_paths, 'send_path') and "
                          "implies(mul_calls == 1 or _g_nreq == 0, _f_requests_paths.route_path == op_route and _f_requests_paths.send_path == op_send)"),
                         ('the entry condition holds again: the bundle is non-empty and both paths are recorded',
                          "rlen(_f_requests) > 0 and has(_f_requests_paths, 'route_path') and has(_f_requests_paths, 'send_path')"),
                         ('the operation is appended last', "rlast(_f_requests)[0] == descr and rlast(_f_requests)[2] == req and "
                                                            "rlen(_f_requests) == (_g_nreq + 1 if mul_calls == 0 else 1)"),
                         ('size accounting', "implies(mul_calls == 0, _f_reqsiz == reqsiz + reqest and _f_rpysiz == rpysiz + rpyest) and "
                                             "implies(mul_calls == 1, _f_reqsiz == reqmin and _f_rpysiz == rpymin)")],
                raises={}, modifies=['requests.val', 'requests_paths.route_path', 'requests_paths.send_path'], callees={'connector.multiple': multiple_call, 'multiple': multiple_call, 'misc.timer': some_time},
                note='FRAGMENT (T9) of connector.issue: the `if multiple:` statement of the operations loop. With the invariant "every collected request '
                     'has the paths recorded in requests_paths" (preserved by the first and the last clause), a bundle never mixes route or send paths. '
                     'connector.multiple is an assumed callee (ghost call record); route/send paths are compared as opaque identities.')


# ------------------------------------------------------------------------------------------------ connector.pipeline: one result per issued request, in order, whatever the depth
IDX = z3.Function('iss_index', z3.IntSort(), z3.IntSort())        # the index carried by the j-th issued request (bundled requests share one)
PN = z3.Int('_g_N')                                                # how many requests the issuer generator will produce


def frag_pipeline_loop(eng, fdef):
    """connector.pipeline from its `while issuer or inflight:` loop to the end (the loop, the log line, the completeness assertion)"""
    body = fdef.body
    for i, st in enumerate(body):
        if isinstance(st, _ast.While) and _ast.unparse(st.test) == 'issuer or inflight':
            return list(body[i:])
    raise Unsupported('stale contract: connector.pipeline has no `while issuer or inflight:` loop')


def _g(st, name):
    return to_int(st.ghost[name])


def pl_truthy(eng, a, st):
    from pyvc.vals import OpaqueV
    if isinstance(a, OpaqueV) and a.what == 'issuer':
        return z3.BoolVal(True)                 # a generator object is true
    if isinstance(a, OpaqueV) and a.what == 'inflight':
        return _g(st, 'q_lo') < _g(st, 'q_hi')  # a deque is true when it holds something
    return None


def pl_next(eng, a, args, st, n):
    """ASSUMED contracts of the two generators the loop drives:
    issuer    = self.issue(...):  yields _g_N items, item j carrying index iss_index(j); then StopIteration
    harvester = self.harvest(issued=iter(inflight)): pops the OLDEST in-flight item and yields its result record (same index, same request), or
                ends (StopIteration) - when nothing is in flight, or when the session stops delivering replies (ghost `ceased`)"""
    from pyvc.vals import OpaqueV, TupV, ExcV
    line = getattr(n, 'lineno', None)
    if isinstance(a, OpaqueV) and a.what == 'issuer':
        def gen():
            pos = _g(st, 'iss_pos')
            for s, more in eng.fork(st, pos < PN):
                if more:
                    s = s.clone()
                    s.ghost = dict(s.ghost)
                    s.ghost['iss_pos'] = IntV(pos + 1)
                    yield s, TupV([IntV(IDX(pos)), IntV(pos)])
                else:
                    yield s, ExcV('StopIteration', '', line)
        return gen()
    if isinstance(a, OpaqueV) and a.what == 'harvester':
        def gen():
            lo, hi = _g(st, 'q_lo'), _g(st, 'q_hi')
            alive = fresh('replied', 'Bool')
            for s, ok in eng.fork(st, z3.And(lo < hi, alive)):
                s = s.clone()
                s.ghost = dict(s.ghost)
                if ok:
                    s.ghost['q_lo'] = IntV(lo + 1)
                    yield s, TupV([IntV(IDX(lo)), IntV(lo)])
                else:
                    s.ghost['ceased'] = BoolV(z3.Or(truthy_ghost(s, 'ceased'), lo < hi))
                    yield s, ExcV('StopIteration', '', line)
        return gen()
    return None


def truthy_ghost(st, name):
    v = st.ghost[name]
    return v.t


def pl_methods(eng, recv, name, args, kw, st, n):
    from pyvc.vals import OpaqueV, TupV
    if isinstance(recv, OpaqueV) and recv.what == 'inflight' and name == 'append' and len(args) == 1:
        def gen():
            hi = _g(st, 'q_hi')
            it = args[0]
            if not (isinstance(it, TupV) and len(it.items) == 2):
                raise Unsupported('inflight.append(%r)' % (it,))
            eng.add_oblig('pre[the item put in flight is the one just issued @ line %s]' % getattr(n, 'lineno', '?'), 'pre', st, to_int(it.items[1]) == hi,
                          line=getattr(n, 'lineno', None))
            s = st.clone()
            s.ghost = dict(s.ghost)
            s.ghost['q_hi'] = IntV(hi + 1)
            yield s, NONE
        return gen()
    return None


def pipeline_spec(repo):
    from pyvc.vals import OpaqueV, USort
    op = lambda what: (lambda eng, name, st: (OpaqueV(z3.Const('_g_' + what, USort), what), st))
    loc = {'issuer': ('Union', ['None', op('issuer')]), 'inflight': op('inflight'), 'harvester': op('harvester'), 'requests': 'Int', 'complete': 'Int',
           'curr': 'Int', 'last': 'Int', 'depth': 'Int', 'index': 'Int', '_g_N': 'Int'}
    CUR = '(idx(requests - 1) if requests > 0 else index - 1)'
    LAST = '(idx(complete - 1) if complete > 0 else index - 1)'
    INV = [('accounting', '0 <= complete and complete == q_lo and q_lo <= q_hi and q_hi == requests and requests == iss_pos and iss_pos <= _g_N'),
           ('an exhausted issuer has issued everything', 'implies(issuer is None, iss_pos == _g_N)'),
           ('curr / last are the indices of the newest issued / newest harvested request', 'curr == %s and last == %s' % (CUR, LAST)),
           ('results so far: one per request, in issue order', 'NOUT == complete and forall(0, complete, lambda j: OUT(j)[0] == idx(j) and OUT(j)[1] == j)'),
           ('replies kept coming', 'not ceased')]
    return Spec('connector.pipeline[one result per request, in order, at any depth]', (CF, 'connector.pipeline'), params={}, fragment=frag_pipeline_loop, yields=2,
                hints=dict(locals=loc, truthy=pl_truthy, next=pl_next, value_method=pl_methods,
                           funcs=dict(idx=lambda pe, j: IntV(IDX(to_int(j))))),
                ghost=dict(iss_pos=('Int', '0'), q_lo=('Int', '0'), q_hi=('Int', '0'), ceased=('Bool', 'False')),
                requires='_g_N >= 0 and depth >= 0 and issuer is not None and requests == 0 and complete == 0 and curr == index - 1 and last == index - 1',
                loops={0: Loop(invariant=INV, variant='2 * _g_N - requests - complete + (0 if issuer is None else 1)')},
                ensures=[('every issued request is harvested exactly once, in issue order, whatever the depth',
                          'NOUT == _g_N and forall(0, _g_N, lambda j: OUT(j)[0] == idx(j) and OUT(j)[1] == j)'),
                         ('nothing is left in flight', 'q_lo == q_hi and iss_pos == _g_N and _f_complete == _f_requests')],
                raises={'AssertionError': 'ceased'}, modifies=[],
                note='FRAGMENT (T9) of connector.pipeline: its flow-control loop and completeness assertion, for every depth >= 0 and every number of requests. '
                     'The issuer and harvester generators are ASSUMED (see pl_next): in-flight requests are answered oldest first or the session ceases. '
                     'Termination by a variant. The in-flight deque is a ghost window [q_lo, q_hi) into the issued sequence.')

# ------------------------------------------------------------------------------------------------ connector.harvest: the k-th reply belongs to the k-th issued request
H_N, H_M = z3.Int('_g_nissued'), z3.Int('_g_ncollected')
H = dict((nm, z3.Function('h_' + nm, z3.IntSort(), z3.IntSort())) for nm in ('idx', 'ctx', 'dsc', 'op', 'req', 'cctx', 'rpy', 'sts', 'val'))
SVC = z3.Function('service_of', z3.IntSort(), z3.IntSort())


def harvest_issued(eng, name, st):
    from pyvc.vals import ListV, TupV
    st = st.clone()
    st.pc += [H_N >= 0, H_M >= 0]
    eng.init_vals['_g_nissued'], eng.init_vals['_g_ncollected'] = IntV(H_N), IntV(H_M)
    ix = lambda i: i if z3.is_expr(i) else z3.IntVal(i)
    return ListV(H_N, lambda i: TupV([IntV(H[k](ix(i))) for k in ('idx', 'ctx', 'dsc', 'op', 'req')]), tag='issued'), st


def harvest_collect(eng, recv, args, kw, st, n):
    """ASSUMED view of self.collect(): some finite sequence of (context, reply, status, value) records (ids)"""
    from pyvc.vals import ListV, TupV
    ix = lambda i: i if z3.is_expr(i) else z3.IntVal(i)
    yield st, ListV(H_M, lambda i: TupV([IntV(H[k](ix(i))) for k in ('cctx', 'rpy', 'sts', 'val')]), tag='collected')


def harvest_spec(repo):
    hf = dict((k, (lambda f: (lambda pe, j: IntV(f(to_int(j)))))(f)) for k, f in H.items())
    hf['svc'] = lambda pe, x: IntV(SVC(to_int(x)))
    MATCH = 'cctx(j) == ctx(j) and svc(rpy(j)) == bor80(svc(req(j)))'
    hf['bor80'] = lambda pe, x: __import__('pyvc.pure', fromlist=['arith']).arith(_ast.BitOr(), x, IntV(0x80))
    K = 'min(_g_nissued, _g_ncollected)'
    return Spec('connector.harvest[k-th reply with k-th request]', (CF, 'connector.harvest'), params={'issued': harvest_issued, 'timeout': 'OptInt'}, yields=6,
                env={'rpy.service': lambda eng, st: IntV(SVC(to_int(st.loc['rpy']))), 'req.service': lambda eng, st: IntV(SVC(to_int(st.loc['req'])))},
                requires='forall(0, _g_nissued, lambda j: 0 <= svc(req(j)) <= 255)',
                callees={'connector.collect': harvest_collect, 'collect': harvest_collect},
                hints=dict(funcs=hf),
                loops={0: Loop(index='K', invariant=[('paired so far', 'NOUT == K and forall(0, K, lambda j: %s and OUT(j)[0] == idx(j) and OUT(j)[1] == dsc(j) and '
                                                                       'OUT(j)[2] == req(j) and OUT(j)[3] == rpy(j) and OUT(j)[4] == sts(j) and OUT(j)[5] == val(j))' % MATCH)])},
                ensures=[('one record per issued request that has a reply, in order: request k with reply k',
                          'NOUT == %s and forall(0, %s, lambda j: %s and OUT(j)[0] == idx(j) and OUT(j)[2] == req(j) and OUT(j)[3] == rpy(j) and OUT(j)[4] == sts(j) and OUT(j)[5] == val(j))'
                          % (K, K, MATCH))],
                raises={'AssertionError': 'exists(0, %s, lambda j: not (%s))' % (K, MATCH)},
                modifies=[],
                note='whole generator; self.collect() is an assumed finite sequence of reply records; request/reply objects are ids with an uninterpreted '
                     'service_of; a reply whose sender context or service does not match its request raises AssertionError instead of being attributed to it. '
                     'zip is modelled on finite lists (its laziness - replies are only collected as needed - is exercised in the bounded tier)')


def collect_fresh(repo):
    """connector.collect yields one (context, reply, status, value) per reply of a response: status and value are assigned from that reply alone, before
    they are used - a reply that carries no data yields None, not what the previous reply of the same bundle carried.  Decided on the AST."""
    import ast
    import z3
    from . import frames
    from pyvc.vals import Unsupported
    mod, cls, fdef = repo.find_function(CF, 'connector.collect')
    loops = [n for n in ast.walk(fdef) if isinstance(n, ast.For) and ast.unparse(n.target) == 'reply']
    if len(loops) != 1:
        raise Unsupported('stale contract: connector.collect has %d `for reply in ...` loops' % len(loops))
    out = []
    for name in ('val', 'sts'):
        r = frames.fresh_per_iteration(loops[0], name)
        if r is None:
            raise Unsupported('stale contract: the reply loop of connector.collect does not use `%s`' % name)
        v = z3.Int('fresh_per_reply_' + name)
        out.append(('`%s` is assigned afresh for every reply before it is used' % name, [v == (1 if r else 0)], v == 1))
    return out


def replay_collect(model, obligation):
    """a bundle in which failing operations follow successful ones: the value yielded for a failed operation is None"""
    from . import netsim
    from cpppo.server.enip import client
    ops = ['A[0-1]', 'A[20]', 'A[2-2]=(INT)5', 'A[30]', 'A[3]']
    with netsim.Server({'A': ('INT', 10)}) as srv:
        with client.connector(host='127.0.0.1', port=srv.port, timeout=3.0) as conn:
            got = [(sts if not isinstance(sts, tuple) else sts[0], val) for idx, dsc, op, rpy, sts, val in
                   conn.pipeline(operations=client.parse_operations(ops), depth=2, multiple=500, timeout=3.0)]
    for (sts, val), op in zip(got, ops):
        if sts not in (0, 6) and val is not None:
            return dict(confirmed=True, function='cpppo.server.enip.client.connector.collect', input='bundled operations %r' % (ops,), observed='%r failed with status %r but yields the value %r' % (op, sts, val),
                        required='None for an operation whose reply carries a failure status')
    return dict(confirmed=False)


def contracts(repo):
    from . import C07 as _C07
    # a bundle is sent as the bytes Message_Router.produce makes of its members: every member encoded from its fields, located by the offset table (contract of C07)
    from pyvc.spec import Custom as _Custom
    return [issue_bundle_spec(repo), pipeline_spec(repo), harvest_spec(repo), _C07.produce_request_spec(), _C07.route_spec(),   # (members of a bundle are dispatched through route())
            _Custom('collect_fresh', collect_fresh, replay=replay_collect, targets=[(CF, 'connector.collect')],
                    note='dataflow condition on the AST of connector.collect: per-reply status and value are reassigned for every reply')]
