"""Symbolic side of the reference encoder (contract functions over z3 sequences): the same layout
tables as contracts/wire.py, usable inside contract texts of C01."""
import z3

from pyvc.vals import SeqV, IntV, IntSeq
from pyvc.pure import to_int, fresh, const_of
from pyvc.calls import pack_int


def _b(t):
    return SeqV(t, 'bytes')


def u8(pe, x):
    return _b(pack_int('B', to_int(x))[0])


def i8(pe, x):
    return _b(pack_int('b', to_int(x))[0])


def u16(pe, x):
    return _b(pack_int('<H', to_int(x))[0])


def u32(pe, x):
    return _b(pack_int('<I', to_int(x))[0])


def le(pe, x, n, signed=False):
    """little-endian two's complement of width n bytes"""
    n = const_of(to_int(n))
    fmt = {1: 'B', 2: '<H', 4: '<I', 8: '<Q'}[n]
    return _b(pack_int(fmt, to_int(x))[0])          # the byte pattern is the same for signed and unsigned


def be(pe, x, n):
    n = const_of(to_int(n))
    fmt = {2: '>H', 4: '>I'}[n]
    return _b(pack_int(fmt, to_int(x))[0])


_zero_cache = {}


def zeros(pe, n):
    """n NUL bytes (empty for n <= 0): the same REP(0, n) term the executor uses for b'\\x00' * n"""
    from pyvc.pure import REP
    t = to_int(n)
    r = REP(z3.IntVal(0), t)
    j = fresh('zj')
    pe.facts.append(z3.Length(r) == z3.If(t > 0, t, 0))
    pe.facts.append(z3.ForAll([j], z3.Implies(z3.And(0 <= j, j < z3.Length(r)), r[j] == 0)))
    return _b(r)


def pad_even(pe, s):
    return _b(z3.If(z3.Length(s.t) % 2 == 1, z3.Concat(s.t, z3.Unit(z3.IntVal(0))), s.t))


FUNCS = dict(u8=u8, i8=i8, u16=u16, u32=u32, le=le, be=be, zeros=zeros, pad_even=pad_even)
