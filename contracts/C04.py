"""C04 — fragmented transfers reassemble exactly and every fragment makes progress.

P: contract of the real Logix.reply_elements (all siz >= 1, all lengths, indices, offsets, budgets)
   + the property as lemmas over that contract (progress, budget, tiling, variant, reassembly by
   induction; symmetric for writes) + the completed/status fragment of Logix.request.
B: fragment walks on the real Logix.request with scaled-down budgets (bounded, never counted).
"""
from .util import distinct_keys
import itertools
import random

import z3

from pyvc.spec import Spec, Lemma, Custom
from pyvc.vals import IntV, SeqV, IntSeq, TupV
from pyvc.pure import PureEval
from . import logix_common as LC

PROPERTY = 'C04'
LEVEL = 'proof'
LEVEL_TEXT = ('Deductive proof over the real Logix.reply_elements (AST re-read from /repo each run): its contract '
              '(begin/end/endactual/offremains/budget for every element size >= 1, tag length, index, count, offset and budget) '
              'is discharged path by path, and the property itself (progress, budget, tiling, termination variant, reassembly '
              'by induction, write fragments store exactly their values) is a set of lemmas over that contract. '
              'The walk of real fragmented transfers with scaled-down budgets is a bounded stand-in and is not counted as proved.')
LEVEL_NOTE = ('Trusted: the pyvc encoding of Python (cross-checked against CPython each run), env models of the dotdict request '
              'and Attribute reads, z3/cvc5. The read/write branch of Logix.request that applies the computed range is covered '
              'under C03/C05; STRING/STRUCT elements are outside the property.')
TECHNIQUE = 'contract on Logix.reply_elements + inductive lemmas over the contract, VCs from the real AST, z3/cvc5; bounded fragment walks as stand-in'

TRUSTED = [
    'producer contracts shared with C01 / C07 carry their assumptions (nested producers as opaque byte strings)',
    'T3 env models of Logix.reply_elements: data[context].get(..), len(attribute), attribute.parser.struct_calcsize, '
    'resolve_element(data.path) read as declared (cross-checked on real dotdict/Attribute objects every run)',
    'reassembly lemma: the client-side loop (advance the byte offset by the bytes received) is a ghost loop in the contract file',
]
ASSUMPTIONS = [
    'variable-length element types (STRING/SSTRING) and STRUCT/UDT trimming are outside the property statement (fixed-size elements)',
    'offsets are multiples of the element size (what a client advancing by received bytes produces)',
]


def lemmas(repo):
    out = []
    # ---- one fragment of a read
    ns, hyps, res, pe = LC.instance('a_')
    beg, end, endactual, offrem, ms = [x.t for x in res.items]
    OFF = pe.text('OFF').t
    siz = ns['_g_siz'].t
    READ = pe.boolean('READ')
    BUDGET = pe.text('BUDGET').t
    aligned = OFF % siz == 0
    out.append(('progress: every fragment carries at least one whole element', hyps + [aligned], end - beg >= 1))
    ceil_b = z3.If((BUDGET + siz - 1) / siz > 1, (BUDGET + siz - 1) / siz, z3.IntVal(1))
    out.append(('budget: at most the reply budget rounded up to a whole element', hyps + [aligned, READ],
                z3.And(end - beg <= ceil_b, (end - beg) * siz < BUDGET + siz + z3.If(BUDGET < siz, siz, 0))))
    out.append(('never-beyond-request', hyps, z3.And(end <= endactual, endactual == pe.text('_g_idx + ELM').t)))
    out.append(('variant: remaining elements strictly decrease', hyps + [aligned],
                z3.And(endactual - end >= 0, endactual - end < endactual - beg)))
    out.append(('first: offset 0 starts at the requested index', hyps + [OFF == 0], beg == ns['_g_idx'].t))
    # ---- tiling: next request with the offset advanced by the bytes received starts where this one ended
    off2 = OFF + (end - beg) * siz
    over = {'_g_off': IntV(off2)}
    for k in ('_g_service', '_g_idx', '_g_max_size', '_g_elements', '_g_cnt', '_g_siz', '_g_ndata', '_g_MAX_BYTES'):
        over[k] = ns[k]
    ns2, hyps2, res2, pe2 = LC.instance('b_', overrides=over)
    frag = z3.Or(ns['_g_service'].t == LC.RD_FRG, ns['_g_service'].t == LC.WR_FRG)
    out.append(('tiling: the next fragment begins exactly where this one ended',
                hyps + hyps2 + [aligned, frag], z3.And(res2.items[0].t == end, res2.items[3].t == 0,
                                                         res2.items[2].t == endactual)))
    # ---- reassembly by induction over the fragments (ghost client loop).  The arithmetic facts are
    # proved from the contract; the sequence steps are proved from those facts alone (two small
    # queries instead of one mixed nonlinear/sequence query).
    idx = ns['_g_idx'].t
    cnt = ns['_g_cnt'].t
    ELM = pe.text('ELM').t
    out.append(('ordering: 0 <= idx <= beg < end <= endactual == idx+ELM <= len(tag)', hyps,
                z3.And(0 <= idx, idx <= beg, beg < end, end <= endactual, endactual == idx + ELM, endactual <= cnt)))
    I, B, E, EA, N = z3.Ints('I B E EA N')
    order = [0 <= I, I <= B, B < E, E <= EA, EA <= N]
    vals = z3.Const('vals', IntSeq)
    acc = z3.Const('acc', IntSeq)
    inv = [z3.Length(vals) == N, acc == z3.SubSeq(vals, I, B - I)]                     # acc == vals[idx:beg]
    acc2 = z3.Concat(acc, z3.SubSeq(vals, B, E - B))                                    # ++ attribute[beg:end]
    out.append(('reassembly-base: nothing received yet == vals[idx:idx]', [z3.Length(vals) == N, 0 <= I, I <= N],
                z3.Empty(IntSeq) == z3.SubSeq(vals, I, 0)))
    out.append(('reassembly-step: acc ++ attribute[beg:end] == vals[idx:end]', order + inv,
                acc2 == z3.SubSeq(vals, I, E - I)))
    out.append(('reassembly-done: at the fragment with end == endactual the concatenation is vals[idx:idx+ELM]',
                order + inv + [E == EA], acc2 == z3.SubSeq(vals, I, EA - I)))
    # ---- writes: a fragment stores exactly its values at [beg, beg+ndata) and nothing else
    nd = ns['_g_ndata'].t
    out.append(('write-extent: a write fragment covers [beg, beg+ndata) inside the request', hyps + [z3.Not(READ)],
                z3.And(end - beg == nd, nd >= 1, end <= endactual)))
    wdata = z3.Const('wdata', IntSeq)
    new = z3.Concat(z3.SubSeq(vals, 0, B), wdata, z3.SubSeq(vals, E, N - E))            # Attribute.__setitem__ (C03)
    j = z3.Int('j')
    whyps = order + [z3.Length(vals) == N, z3.Length(wdata) == E - B]
    out.append(('write-fragment: length preserved', whyps, z3.Length(new) == N))
    out.append(('write-fragment: elements before beg untouched', whyps, z3.SubSeq(new, 0, B) == z3.SubSeq(vals, 0, B)))
    out.append(('write-fragment: [beg,end) holds exactly the supplied values', whyps, z3.SubSeq(new, B, E - B) == wdata))
    out.append(('write-fragment: elements from end on untouched', whyps, z3.SubSeq(new, E, N - E) == z3.SubSeq(vals, E, N - E)))
    return out


C04_LABELS = ('success-returns-exactly-the-addressed-elements', 'status-0x00-iff-the-last-requested-element-was-sent',
              'in-range-read-succeeds', 'success-stores-exactly-the-values-at-the-addressed-elements',
              'in-range-write-of-the-tag-type-succeeds', 'a-read-never-changes-the-tag')


def contracts(repo):
    spec = LC.reply_elements_spec(refuses=False, accepts=False)
    items = [spec, Custom('lemma', lemmas, note='the property as lemmas over the contract of reply_elements')]
    items += [LC.reply_elements_spec(refuses=False, accepts=True, ctx=c) for c in ('read_frag', 'write_frag')]
    # the fragment of Logix.request that applies the computed range: status 0x06 until the fragment
    # with end == endactual gives 0x00, data == attribute[beg:end]; writes store exactly [beg, beg+n)
    for sp in LC.request_specs(('read_frag', 'write_frag')):
        sp.ensures = [(l, t) for l, t in sp.ensures if l in C04_LABELS]
        items.append(sp)
    # the fragments travel in the replies / requests the dialect produces (contracts of C01): the data is present for status 0x06 as for 0x00
    from . import C01 as _C01
    items += [s for s in _C01.logix_produce_specs() if 'frag' in s.name]
    # a client that walks the fragments receives each Read Tag Fragmented reply through the Unconnected Send parser, whose is_uerr predicate (contract of C06)
    # decides whether a short 0xD2 payload is the fragment or an error of the wrapper
    from . import C06 as _C06
    items.append(_C06.is_uerr_spec())
    return items


# ------------------------------------------------------------------------------------------------ bounded tier
def walk_read(lx, name, idx, elm, siz, budget, cnt, stats):
    """the client loop of the property on the real Logix.request"""
    from . import sim
    got = []
    off = 0
    steps = 0
    while True:
        d = sim.read_frag(lx, name, idx, elm, off)
        st, ext = sim.status_of(d)
        stats['evaluations'] += 1
        if st not in (0, 6):
            return ('error', st, ext, got)
        frag = list(d.read_frag.data)
        if len(frag) < 1:
            return ('no-progress', st, off, got)
        if len(frag) * siz >= budget + siz and len(frag) > 1:
            return ('over-budget', len(frag), off, got)
        got += frag
        off += len(frag) * siz
        steps += 1
        if st == 0:
            return ('done', steps, got)
        if steps > cnt + 2:
            return ('no-termination', steps, got)


def client_walks(violations, distinct):
    from . import netsim, sim
    from cpppo.server.enip import client
    ev = 0
    for typ, siz, code, budget in (('SINT', 1, 0xc2, 4), ('INT', 2, 0xc3, 4), ('DINT', 4, 0xc4, 10), ('USINT', 1, 0xc6, 1)):
        cnt = 9
        vals = [(i * 7 + 3) % 100 for i in range(cnt)]
        try:
            with netsim.Server({'T': (typ, cnt)}, max_bytes=budget) as srv:
                sim.write_tag(sim.device.lookup(0x02, 1), 'T', 0, cnt, code, vals)
                conn = client.connector(host='127.0.0.1', port=srv.port, timeout=3.0)
                if True:
                    per = (budget + siz - 1) // siz
                    for start, count in ((0, per), (0, per + 1), (2, 2 * per + 1), (0, cnt), (3, 1), (cnt - 1, 1)):
                        if start + count > cnt:
                            continue
                        ev += 1
                        distinct.add(('client-walk', typ, budget, start, count))
                        got, frags, off, bad = [], [], 0, None
                        while bad is None:
                            with conn:
                                conn.read(path=[{'symbolic': 'T'}, {'element': start}], elements=count, offset=off, timeout=3.0)
                                rsp, _ = client.await_response(conn, timeout=3.0)
                            rpy = rsp and rsp.get('enip.CIP.send_data.CPF.item[1].unconnected_send.request')
                            if not rpy or rsp.enip.status != 0:
                                bad = 'no reply at offset %d' % off
                                break
                            dat = rpy.get('read_frag.data')
                            frags.append((rpy.status, None if dat is None else len(dat)))
                            if rpy.status not in (0, 6) or not dat:
                                bad = 'fragment at offset %d: status %r data %r' % (off, rpy.status, dat)
                                break
                            got += list(dat)
                            off += len(dat) * siz
                            if rpy.status == 0:
                                break
                            if len(frags) > cnt + 2:
                                bad = 'no final fragment after %d fragments' % len(frags)
                        if bad is None and got != vals[start:start + count]:
                            bad = 'reassembled %r' % (got,)
                        if bad and len(violations) < 8:
                            violations.append(dict(key='client read-walk %s budget=%d start=%d count=%d' % (typ, budget, start, count), observed='%s; fragments %r' % (bad, frags),
                                                   required=repr(vals[start:start + count])))
                            break
                conn.close()
        except Exception as e:
            if len(violations) < 8:
                violations.append(dict(key='client read-walk %s budget=%d' % (typ, budget), observed='raised %s: %s' % (type(e).__name__, str(e)[:150]), required='reassembly through the real client'))
    return ev


def bounded(tier, seed):
    from . import sim
    rng = random.Random(seed)
    stats = dict(evaluations=0)
    distinct = set()
    violations = []
    samples = []
    types = [('SINT', 1, 0xc2), ('INT', 2, 0xc3), ('DINT', 4, 0xc4), ('LINT', 8, 0xc5)]
    lens = [1, 2, 5, 9] if tier == 'quick' else [1, 2, 3, 5, 9, 14, 20]
    budgets = [1, 2, 3, 5, 8, 16] if tier == 'quick' else list(range(1, 25))
    for typ, siz, code in types:
        for cnt in lens:
            for budget in budgets:
                if len(violations) >= 5:
                    break
                lx = sim.fresh({'T': (typ, cnt)}, max_bytes=budget)
                sim.WIRE = (budget % 2 == 1)     # odd budgets: the requests of this walk travel as bytes through the real parser
                vals = [((i * 7 + 3) % 100) for i in range(cnt)]
                sim.write_tag(lx, 'T', 0, cnt, code, vals)
                for idx in range(cnt):
                    for elm in range(1, cnt - idx + 1):
                        r = walk_read(lx, 'T', idx, elm, siz, budget, cnt, stats)
                        key = (typ, cnt, budget, idx, elm)
                        distinct.add(key)
                        ok = r[0] == 'done' and r[2] == vals[idx:idx + elm]
                        if len(samples) < 6 and elm > 1 and budget < siz * elm:
                            samples.append(dict(type=typ, length=cnt, budget=budget, index=idx, elements=elm, outcome=repr(r)[:120]))
                        if not ok:
                            violations.append(dict(key='read-walk %s len=%d budget=%d idx=%d elm=%d' % key,
                                                   observed=repr(r)[:300], required=repr(vals[idx:idx + elm])))
                # write walks: tile [idx, idx+elm) with pieces of size p
                if budget in (1, 5):
                    for idx in range(cnt):
                        for elm in range(1, cnt - idx + 1):
                            for piece in (1, 2, elm):
                                before = sim.tag_values('T')
                                newv = [rng.randint(0, 100) for _ in range(elm)]
                                off = 0
                                okst = True
                                while off < elm:
                                    chunk = newv[off:off + piece]
                                    d = sim.write_frag(lx, 'T', idx, elm, off * siz, code, chunk)
                                    stats['evaluations'] += 1
                                    okst = okst and d.status == 0
                                    off += len(chunk)
                                after = sim.tag_values('T')
                                want = before[:idx] + newv + before[idx + elm:]
                                distinct.add(('w', typ, cnt, idx, elm, piece))
                                if not okst or after != want:
                                    violations.append(dict(key='write-walk %s len=%d idx=%d elm=%d piece=%d' % (typ, cnt, idx, elm, piece),
                                                           observed=repr(after), required=repr(want)))
                                vals = after
    sim.WIRE = False
    # floating point element types (values exactly representable in 32 bits), on tags configured with float and with integer initial values
    for typ, siz, code in (('REAL', 4, 0xca), ('LREAL', 8, 0xcb)):
        for zero in (0.0, 0):
            for budget in (4, 9, 16):
                cnt = 6
                lx = sim.fresh({'T': (typ, cnt, None, zero)}, max_bytes=budget)
                for piece in (1, 2, cnt):
                    newv = [k + 0.5 + 0.25 * piece for k in range(cnt)]
                    off = 0
                    okst = True
                    while off < cnt:
                        chunk = newv[off:off + piece]
                        d = sim.write_frag(lx, 'T', 0, cnt, off * siz, code, chunk)
                        stats['evaluations'] += 1
                        okst = okst and d.status == 0
                        off += len(chunk)
                    after = sim.tag_values('T')
                    distinct.add(('wf', typ, repr(zero), budget, piece))
                    if not okst or after != newv:
                        violations.append(dict(key='write-walk %s (initial values %r) budget=%d piece=%d' % (typ, zero, budget, piece), observed=repr(after), required=repr(newv)))
                    r = walk_read(lx, 'T', 0, cnt, siz, budget, cnt, stats)
                    if not (r[0] == 'done' and r[2] == newv):
                        violations.append(dict(key='read-walk %s (initial values %r) budget=%d' % (typ, zero, budget), observed=repr(r)[:300], required=repr(newv)))
    # through the real client and server over TCP: the reassembly loop of the property with the client's own reply parsing
    stats['evaluations'] += client_walks(violations, distinct)
    # client side: operation strings that tile a range with Write Tag Fragmented (offset = tile start * element size)
    from cpppo.server.enip import client
    from .C12 import ref_operation, norm_op
    for typ, siz in (('SINT', 1), ('INT', 2), ('DINT', 4), ('LINT', 8), ('REAL', 4), ('LREAL', 8)):
        for lo, n, piece in ((0, 6, 2), (2, 16, 5), (3, 7, 7), (1, 4, 1)):
            for start in range(0, n, piece):
                vals = list(range(start, min(start + piece, n)))
                txt = 'T[%d-%d]+%d=(%s)%s' % (lo, lo + n - 1, start * siz, typ, ','.join(('%d.5' % v) if typ in ('REAL', 'LREAL') else str(v) for v in vals))
                stats['evaluations'] += 1
                distinct.add(('tile', typ, lo, n, piece, start))
                try:
                    want = ref_operation(txt, fragment=True)
                except Exception as e:
                    want = 'refused'
                try:
                    got = norm_op(list(client.parse_operations([txt], fragment=True))[0])
                except Exception as e:
                    got = 'refused (%s)' % type(e).__name__
                if got != want and len(violations) < 8:
                    violations.append(dict(key='client tile %r' % txt, observed=repr(got)[:300], required=repr(want)[:300]))
    return dict(evaluations=stats['evaluations'], distinct_nontrivial=len(distinct), distinct_keys=distinct_keys(distinct),
                rule='every (type in SINT/INT/DINT/LINT, tag length, MAX_BYTES budget, start index, element count) in the '
                     'listed ranges: the client loop (offset += bytes received) on the real Logix.request; distinct = distinct tuples',
                exhaustive=True, samples=samples, violations=violations[:20],
                scope=dict(lengths=lens, budgets=budgets))
