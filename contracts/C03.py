"""C03 — tags behave as typed arrays: a read returns the most recently written values.

P: device.Attribute (the tag store) against the array view `vals` for vector and scalar tags
   (__len__, _validate_key with Python's slice clamping, __getitem__, __setitem__: exactly the
   addressed elements, length preserved, nothing else modified);  the whole real Logix.request for
   Read/Write Tag [Fragmented]: a successful read returns exactly vals[beg:end] and the tag's own
   type, a successful write changes exactly [beg, beg+n), a read never changes the tag.
B: request histories against an independent array model on the real simulator objects: all element
   types, tags bound to explicit addresses sharing an instance, symbolic vs numeric addressing,
   Read/Write Tag [Fragmented], Get/Set Attribute Single (bounded).
"""
import itertools
import random

from . import attribute_common as AC
from . import logix_common as LC

PROPERTY = 'C03'
LEVEL = 'proof'
LEVEL_TEXT = ('Deductive proof on the real code: every Attribute accessor (vector and scalar configuration) is proved against the '
              'array view (slice read == vals[b:e], slice write == vals[:b] ++ new ++ vals[e:] with the length preserved and a frame '
              'of self.default only), and the whole Logix.request method is executed symbolically for each of the four tag services '
              'against those contracts: success returns/stores exactly the addressed elements with the tag\'s own CIP type. '
              'Histories of requests (symbol table, @class/instance/attribute binding, attribute services) are compared with an '
              'array model only up to a stated bound and are not counted as proved.')
LEVEL_NOTE = ('Assumed callee contracts in Logix.request: resolve/lookup/route/produce (symbol table and object directory are only '
              'exercised in the bounded tier). Object.request (Get/Set Attribute Single), setup_tag, resolve_tag, redirect_tag: bounded only. '
              'Element values are integers (REAL/LREAL/STRING values only in the bounded tier).')
TECHNIQUE = 'contracts on Attribute accessors and Logix.request against an array view, VCs from the real AST, z3/cvc5; bounded request histories vs array model'
TRUSTED = ['assumed callee contracts: resolve, lookup, route, produce', 'Python slice.indices clamping as modelled in pyvc.pure.clamp_slice (cross-checked)']
ASSUMPTIONS = ['integer element values in the proof tier', 'single thread']

C03_LABELS = ('a-read-never-changes-the-tag', 'success-returns-exactly-the-addressed-elements',
              'status-0x00-iff-the-last-requested-element-was-sent', 'success-only-in-range',
              'success-stores-exactly-the-values-at-the-addressed-elements', 'refused-writes-leave-the-tag-unchanged',
              'unknown-tag: unchanged', 'reply-bit: the reply service is the request service | 0x80')


def contracts(repo):
    items = AC.specs('vector') + AC.specs('scalar')
    for sp in LC.request_specs():
        sp.ensures = [(l, t) for l, t in sp.ensures if l in C03_LABELS]
        items.append(sp)
    return items


# ------------------------------------------------------------------------------------------------ bounded tier
SIZ = {'BOOL': 1, 'SINT': 1, 'USINT': 1, 'INT': 2, 'UINT': 2, 'DINT': 4, 'UDINT': 4, 'LINT': 8, 'ULINT': 8, 'REAL': 4, 'LREAL': 8}
CODE = dict((n, c) for c, n in LC.TYPE_NAME.items())
FMT = {'BOOL': 'B', 'SINT': 'b', 'USINT': 'B', 'INT': '<h', 'UINT': '<H', 'DINT': '<i', 'UDINT': '<I', 'LINT': '<q', 'ULINT': '<Q',
       'REAL': '<f', 'LREAL': '<d'}


def rand_value(rng, typ):
    if typ == 'BOOL':
        return rng.choice([True, False])
    if typ in ('REAL', 'LREAL'):
        return float(rng.choice([0, 1, -2, 1024, 0.5, -0.25]))
    lo, hi = LC.INT_RANGE[CODE[typ]]
    return rng.choice([lo, hi, 0, 1, rng.randint(lo, hi)])


def numpath(c, i, a, elem=None):
    import cpppo
    segs = [cpppo.dotdict({'class': c}), cpppo.dotdict({'instance': i}), cpppo.dotdict({'attribute': a})]
    if elem is not None:
        segs.append(cpppo.dotdict({'element': elem}))
    return {'segment': segs}


def bounded(tier, seed):
    import struct
    from . import sim
    rng = random.Random(seed)
    ev = 0
    distinct = set()
    violations = []
    samples = []
    types = ['BOOL', 'SINT', 'USINT', 'INT', 'UINT', 'DINT', 'UDINT', 'LINT', 'ULINT', 'REAL', 'LREAL']
    steps = 40 if tier == 'quick' else 300
    for t1, t2 in zip(types, types[1:] + types[:1]):
        if len(violations) >= 5:
            break
        p1 = {'segment': [{'class': 0x93}, {'instance': 3}, {'attribute': 1}]}
        p2 = {'segment': [{'class': 0x93}, {'instance': 3}, {'attribute': 2}]}
        cfg = {'A': (t1, 4, p1), 'B': (t2, 3, p2), 'S': (t1, None), 'M': (t2, 5)}
        lx = sim.fresh(cfg, max_bytes=rng.choice([8, 24, 488]))
        zero = lambda t: (False if t == 'BOOL' else (0.0 if t in ('REAL', 'LREAL') else 0))
        model = {'A': [zero(t1)] * 4, 'B': [zero(t2)] * 3, 'S': [zero(t1)], 'M': [zero(t2)] * 5}
        typ = {'A': t1, 'B': t2, 'S': t1, 'M': t2}
        addr = {'A': (0x93, 3, 1), 'B': (0x93, 3, 2)}
        for step in range(steps):
            name = rng.choice(['A', 'B', 'S', 'M'])
            n = len(model[name])
            T = typ[name]
            idx = rng.randint(0, n - 1)
            cnt = rng.randint(1, n - idx)
            op = rng.choice(['read_tag', 'read_frag', 'write_tag', 'write_frag', 'get_single', 'set_single', 'read_numeric', 'write_numeric'])
            if name not in addr and op in ('get_single', 'set_single', 'read_numeric', 'write_numeric'):
                op = rng.choice(['read_tag', 'write_tag'])
            ev += 1
            ok, want, d = True, '', None
            if op in ('read_tag', 'read_numeric'):
                path = sim.sympath(name if rng.random() < 0.7 else name.lower(), idx) if op == 'read_tag' else numpath(*addr[name], elem=idx)
                d = sim.request(lx, service=0x4c, path=path, read_tag={'elements': cnt})
                got = list(d.read_tag.data) if d.status in (0, 6) else None
                ok = got is not None and len(got) >= 1 and got == model[name][idx:idx + len(got)] and d.read_tag.type == CODE[T] \
                    and (d.status == 6 or len(got) == cnt)
                want = 'elements %r of type 0x%x' % (model[name][idx:idx + cnt], CODE[T])
            elif op == 'read_frag':
                got, off = [], 0
                for _ in range(cnt + 2):
                    d = sim.read_frag(lx, name, idx, cnt, off)
                    if d.status not in (0, 6):
                        break
                    got += list(d.read_frag.data)
                    off = len(got) * SIZ[T]
                    if d.status == 0:
                        break
                ok = d.status == 0 and got == model[name][idx:idx + cnt]
                want = 'fragments reassemble to %r' % (model[name][idx:idx + cnt],)
            elif op in ('write_tag', 'write_numeric', 'write_frag'):
                vals = [rand_value(rng, T) for _ in range(cnt)]
                if op == 'write_frag':
                    half = max(1, cnt // 2)
                    d = sim.write_frag(lx, name, idx, cnt, 0, CODE[T], vals[:half])
                    if d.status == 0 and half < cnt:
                        d = sim.write_frag(lx, name, idx, cnt, half * SIZ[T], CODE[T], vals[half:])
                else:
                    path = sim.sympath(name, idx) if op == 'write_tag' else numpath(*addr[name], elem=idx)
                    d = sim.request(lx, service=0x4d, path=path, write_tag={'elements': cnt, 'type': CODE[T], 'data': list(vals)})
                if d.status == 0:
                    model[name] = model[name][:idx] + vals + model[name][idx + cnt:]
                ok = d.status == 0
                want = 'write acknowledged'
            elif op == 'get_single':
                d = sim.request(lx, service=0x0e, path=numpath(*addr[name]))
                exp = list(b''.join((b'\xff' if v else b'\x00') if T == 'BOOL' else struct.pack(FMT[T], v) for v in model[name]))
                got = list(d.get('get_attribute_single.data', [])) if d.status == 0 else None
                ok = got == exp
                want = 'all elements as bytes %r' % (exp,)
            elif op == 'set_single':
                vals = [rand_value(rng, T) for _ in range(n)]
                if T == 'BOOL':
                    vals = [int(v) for v in vals]
                raw = list(b''.join(struct.pack(FMT[T], v) for v in vals))
                d = sim.request(lx, service=0x10, path=numpath(*addr[name]), set_attribute_single={'data': raw})
                if d.status == 0:
                    model[name] = [struct.unpack(FMT[T], struct.pack(FMT[T], v))[0] for v in vals]
                ok = d.status == 0
                want = 'set attribute single acknowledged'
            # after every request: every tag equals the array model (a write changes only the addressed elements)
            actual = dict((k, sim.tag_values(k)) for k in model)
            same = all([bool(x) if typ[k] == 'BOOL' else x for x in actual[k]] == [bool(x) if typ[k] == 'BOOL' else x for x in model[k]]
                       for k in model)
            distinct.add((op, T, idx, cnt, name))
            if len(samples) < 6 and step % 13 == 5:
                samples.append(dict(op=op, tag=name, type=T, index=idx, count=cnt, status=d.status if d is not None else None))
            if not ok or not same:
                violations.append(dict(key='history %s/%s step %d: %s %s[%d] x%d' % (t1, t2, step, op, name, idx, cnt),
                                       observed='status %r tags %r' % (d.status if d is not None else None, actual),
                                       required='%s; tags == %r' % (want, model)))
                if len(violations) >= 5:
                    break
                model = dict((k, list(v)) for k, v in actual.items())
    return dict(evaluations=ev, distinct_nontrivial=len(distinct),
                rule='seeded request histories (%d steps per type pair) over 4 tags: two bound to @0x93/3/1 and @0x93/3/2 (one instance), a scalar '
                     'and a Message-Router allocated array; all 11 numeric element types; Read/Write Tag by symbolic name (also lower-case) and by '
                     'numeric address, Read/Write Tag Fragmented, Get/Set Attribute Single; after each request every tag is compared with an '
                     'independent array model; distinct = distinct (operation, type, index, count, tag)' % steps,
                exhaustive=False, samples=samples, violations=violations[:20], seed=seed)
