"""C03 — tags behave as typed arrays: a read returns the most recently written values.

P: device.Attribute (the tag store) against the array view `vals` for vector and scalar tags
   (__len__, _validate_key with Python's slice clamping, __getitem__, __setitem__: exactly the
   addressed elements, length preserved, nothing else modified);  the whole real Logix.request for
   Read/Write Tag [Fragmented]: a successful read returns exactly vals[beg:end] and the tag's own
   type, a successful write changes exactly [beg, beg+n), a read never changes the tag.
B: request histories against an independent array model on the real simulator objects: all element
   types, tags bound to explicit addresses sharing an instance, symbolic vs numeric addressing,
   Read/Write Tag [Fragmented], Get/Set Attribute Single (bounded).
"""
from .util import distinct_keys
import itertools
import random

import z3

from pyvc.spec import Spec
from pyvc.vals import IntV, SeqV, IntSeq
from pyvc.pure import fresh, to_int
from . import attribute_common as AC
from . import logix_common as LC

PROPERTY = 'C03'
LEVEL = 'proof'
LEVEL_TEXT = ('Deductive proof on the real code: every Attribute accessor (vector and scalar configuration) is proved against the '
              'array view (slice read == vals[b:e], slice write == vals[:b] ++ new ++ vals[e:] with the length preserved and a frame '
              'of self.default only), and the whole Logix.request method is executed symbolically for each of the four tag services '
              'against those contracts: success returns/stores exactly the addressed elements with the tag\'s own CIP type. '
              'Histories of requests (symbol table, @class/instance/attribute binding, attribute services) are compared with an '
              'array model only up to a stated bound and are not counted as proved.')
LEVEL_NOTE = ('Assumed callee contracts in Logix.request: resolve/lookup/route/produce (symbol table and object directory are only '
              'exercised in the bounded tier). Object.request (Get/Set Attribute Single), setup_tag, resolve_tag, redirect_tag: bounded only. '
              'Element values are integers (REAL/LREAL/STRING values only in the bounded tier).')
TECHNIQUE = 'contracts on Attribute accessors and Logix.request against an array view, VCs from the real AST, z3/cvc5; bounded request histories vs array model'
TRUSTED = ['producer contracts shared with C01 / C07 carry their assumptions (nested producers as opaque byte strings)', 'assumed callee contracts: resolve, lookup, route, produce', 'Python slice.indices clamping as modelled in pyvc.pure.clamp_slice (cross-checked)']
ASSUMPTIONS = ['integer element values in the proof tier', 'single thread']

C03_LABELS = ('a-read-never-changes-the-tag', 'success-returns-exactly-the-addressed-elements',
              'status-0x00-iff-the-last-requested-element-was-sent', 'success-only-in-range',
              'success-stores-exactly-the-values-at-the-addressed-elements', 'refused-writes-leave-the-tag-unchanged',
              'unknown-tag: unchanged', 'reply-bit: the reply service is the request service | 0x80')


LOW_ = z3.Function('LOW', z3.IntSort(), z3.IntSort())


def low_spec(c):
    """ISO-8859-1 lower-casing of one code point, from the character table (A-Z, and 0xC0-0xDE except 0xD7)"""
    return z3.If(z3.Or(z3.And(c >= 65, c <= 90), z3.And(c >= 0xC0, c <= 0xDE, c != 0xD7)), c + 32, c)


def str_lower_model(eng, recv, st, n):
    """T2: str.lower() is length preserving and maps code point c to LOW(c) on ISO-8859-1 text"""
    r = fresh('lower', IntSeq)
    j = fresh('lj')
    s = st.clone()
    s.pc.append(z3.Length(r) == z3.Length(recv.t))
    s.pc.append(z3.ForAll([j], z3.Implies(z3.And(0 <= j, j < z3.Length(r)), r[j] == low_spec(recv.t[j]))))
    yield s, SeqV(r, 'str')


def canonicalize_spec():
    return Spec('canonicalize_tag', ("server/enip/device.py", "canonicalize_tag"),
                params={'tag': 'Str'},
                requires='forall(0, len(tag), lambda j: 0 <= tag[j] < 256)',
                ensures=[('same-length', 'len(result) == len(tag)'),
                         ('case-insensitive-key: only upper-case ISO-8859-1 letters are folded, every other symbol is kept',
                          'forall(0, len(tag), lambda j: result[j] == low(tag[j]))')],
                raises={}, modifies=[],
                hints=dict(str_lower=str_lower_model, funcs={'low': lambda pe, c: IntV(low_spec(to_int(c)))}),
                replay=replay_canonicalize,
                note='the symbol table key of a tag; two names denote the same tag iff they are equal after ISO-8859-1 case folding')


def replay_canonicalize(model, obligation):
    from cpppo.server.enip import device
    names = ['Tag', 'TAG_1', u'Ma\xdf', 'MASS', u'\xc9t\xe9', u'\xe9T\xc9', u'\xd7x', u'\xf7x', u'stra\xdfe', 'STRASSE']
    ref = lambda s: ''.join(chr(ord(c) + 32) if ('A' <= c <= 'Z' or (0xC0 <= ord(c) <= 0xDE and ord(c) != 0xD7)) else c for c in s)
    for nm in names:
        try:
            got = device.canonicalize_tag(nm)
        except Exception as e:
            got = 'raised %s' % type(e).__name__
        if got != ref(nm):
            return dict(confirmed=True, function='cpppo.server.enip.device.canonicalize_tag', input=nm, observed=repr(got), required=repr(ref(nm)))
    return dict(confirmed=False)


def contracts(repo):
    items = AC.specs('vector') + AC.specs('scalar')
    items += [LC.reply_elements_spec(refuses=True, accepts=True, ctx=c) for c in ('read_tag', 'read_frag', 'write_tag', 'write_frag')]
    for sp in LC.request_specs():
        sp.ensures = [(l, t) for l, t in sp.ensures if l in C03_LABELS]
        items.append(sp)
    items.append(canonicalize_spec())
    items.append(resolve_element_spec())
    from . import C05 as _C05
    items += [_C05.set_attribute_single_spec(), _C05.get_attribute_single_spec()]      # the attribute services address the same Attribute objects
    # what a read returns travels in the reply the dialect produces: its layout (type and data present for status 0x00 and 0x06, nothing else
    # for a failure) and the BOOL element encoder are the contracts of C01, obligations of this property as well
    from . import C01 as _C01
    items += [s for s in _C01.scalar_specs() if s.name == 'BOOL.produce']
    items += [s for s in _C01.logix_produce_specs() if 'reply' in s.name]
    items += _C01.typed_data_specs()            # the element values of a reply / request in the tag's CIP type
    return items


# ------------------------------------------------------------------------------------------------ bounded tier
SIZ = {'BOOL': 1, 'SINT': 1, 'USINT': 1, 'INT': 2, 'UINT': 2, 'DINT': 4, 'UDINT': 4, 'LINT': 8, 'ULINT': 8, 'REAL': 4, 'LREAL': 8}
CODE = dict((n, c) for c, n in LC.TYPE_NAME.items())
FMT = {'BOOL': 'B', 'SINT': 'b', 'USINT': 'B', 'INT': '<h', 'UINT': '<H', 'DINT': '<i', 'UDINT': '<I', 'LINT': '<q', 'ULINT': '<Q',
       'REAL': '<f', 'LREAL': '<d'}


def rand_value(rng, typ):
    if typ == 'BOOL':
        return rng.choice([True, False])
    if typ in ('REAL', 'LREAL'):
        return float(rng.choice([0, 1, -2, 1024, 0.5, -0.25]))
    lo, hi = LC.INT_RANGE[CODE[typ]]
    return rng.choice([lo, hi, 0, 1, rng.randint(lo, hi)])


def numpath(c, i, a, elem=None):
    import cpppo
    segs = [cpppo.dotdict({'class': c}), cpppo.dotdict({'instance': i}), cpppo.dotdict({'attribute': a})]
    if elem is not None:
        segs.append(cpppo.dotdict({'element': elem}))
    return {'segment': segs}


def bounded(tier, seed):
    import struct
    from . import sim
    rng = random.Random(seed)
    ev = 0
    distinct = set()
    violations = []
    samples = []
    types = ['BOOL', 'SINT', 'USINT', 'INT', 'UINT', 'DINT', 'UDINT', 'LINT', 'ULINT', 'REAL', 'LREAL']
    steps = 40 if tier == 'quick' else 300
    for t1, t2 in zip(types, types[1:] + types[:1]):
        if len(violations) >= 5:
            break
        p1 = {'segment': [{'class': 0x93}, {'instance': 3}, {'attribute': 1}]}
        p2 = {'segment': [{'class': 0x93}, {'instance': 3}, {'attribute': 2}]}
        cfg = {'A': (t1, 4, p1), 'B': (t2, 3, p2), 'S': (t1, None), 'M': (t2, 5)}
        lx = sim.fresh(cfg, max_bytes=rng.choice([8, 24, 488]))
        zero = lambda t: (False if t == 'BOOL' else (0.0 if t in ('REAL', 'LREAL') else 0))
        model = {'A': [zero(t1)] * 4, 'B': [zero(t2)] * 3, 'S': [zero(t1)], 'M': [zero(t2)] * 5}
        typ = {'A': t1, 'B': t2, 'S': t1, 'M': t2}
        addr = {'A': (0x93, 3, 1), 'B': (0x93, 3, 2)}
        for step in range(steps):
            sim.WIRE = (step % 2 == 1)      # every other request travels as bytes through the real parser (reference encoder -> parse -> request -> reply parse)
            name = rng.choice(['A', 'B', 'S', 'M'])
            n = len(model[name])
            T = typ[name]
            idx = rng.randint(0, n - 1)
            cnt = rng.randint(1, n - idx)
            op = rng.choice(['read_tag', 'read_frag', 'write_tag', 'write_frag', 'get_single', 'set_single', 'read_numeric', 'write_numeric'])
            if name not in addr and op in ('get_single', 'set_single', 'read_numeric', 'write_numeric'):
                op = rng.choice(['read_tag', 'write_tag'])
            ev += 1
            ok, want, d = True, '', None
            if op in ('read_tag', 'read_numeric'):
                path = sim.sympath(name if rng.random() < 0.7 else name.lower(), idx) if op == 'read_tag' else numpath(*addr[name], elem=idx)
                d = sim.request(lx, service=0x4c, path=path, read_tag={'elements': cnt})
                got = list(d.read_tag.data) if d.status in (0, 6) else None
                if got is not None and T == 'BOOL':
                    got = [bool(x) for x in got]
                ok = got is not None and len(got) >= 1 and got == model[name][idx:idx + len(got)] and d.read_tag.type == CODE[T] \
                    and (d.status == 6 or len(got) == cnt)
                want = 'elements %r of type 0x%x' % (model[name][idx:idx + cnt], CODE[T])
            elif op == 'read_frag':
                got, off = [], 0
                for _ in range(cnt + 2):
                    d = sim.read_frag(lx, name, idx, cnt, off)
                    if d.status not in (0, 6):
                        break
                    got += [bool(x) for x in d.read_frag.data] if T == 'BOOL' else list(d.read_frag.data)
                    off = len(got) * SIZ[T]
                    if d.status == 0:
                        break
                ok = d.status == 0 and got == model[name][idx:idx + cnt]
                want = 'fragments reassemble to %r' % (model[name][idx:idx + cnt],)
            elif op in ('write_tag', 'write_numeric', 'write_frag'):
                vals = [rand_value(rng, T) for _ in range(cnt)]
                if op == 'write_frag':
                    half = max(1, cnt // 2)
                    d = sim.write_frag(lx, name, idx, cnt, 0, CODE[T], vals[:half])
                    if d.status == 0 and half < cnt:
                        d = sim.write_frag(lx, name, idx, cnt, half * SIZ[T], CODE[T], vals[half:])
                else:
                    path = sim.sympath(name, idx) if op == 'write_tag' else numpath(*addr[name], elem=idx)
                    d = sim.request(lx, service=0x4d, path=path, write_tag={'elements': cnt, 'type': CODE[T], 'data': list(vals)})
                if d.status == 0:
                    model[name] = model[name][:idx] + vals + model[name][idx + cnt:]
                ok = d.status == 0
                want = 'write acknowledged'
            elif op == 'get_single':
                d = sim.request(lx, service=0x0e, path=numpath(*addr[name]))
                exp = list(b''.join((b'\xff' if v else b'\x00') if T == 'BOOL' else struct.pack(FMT[T], v) for v in model[name]))
                got = list(d.get('get_attribute_single.data', [])) if d.status == 0 else None
                ok = got == exp
                want = 'all elements as bytes %r' % (exp,)
            elif op == 'set_single':
                vals = [rand_value(rng, T) for _ in range(n)]
                if T == 'BOOL':
                    # the octets a client may send for a BOOL: 0x00, and any non-zero octet (0x01, the customary 0xFF, ...) for True
                    vals = [rng.choice([1, 0xFF, 0x80, 2]) if v else 0 for v in vals]
                raw = list(b''.join(struct.pack(FMT[T], v) for v in vals))
                d = sim.request(lx, service=0x10, path=numpath(*addr[name]), set_attribute_single={'data': raw})
                if d.status == 0:
                    model[name] = [struct.unpack(FMT[T], struct.pack(FMT[T], v))[0] for v in vals]
                    if T == 'BOOL':
                        model[name] = [bool(v) for v in vals]
                ok = d.status == 0
                want = 'set attribute single acknowledged'
            # after every request: every tag equals the array model (a write changes only the addressed elements)
            actual = dict((k, sim.tag_values(k)) for k in model)
            same = all([bool(x) if typ[k] == 'BOOL' else x for x in actual[k]] == [bool(x) if typ[k] == 'BOOL' else x for x in model[k]]
                       for k in model)
            distinct.add((op, T, idx, cnt, name))
            if len(samples) < 6 and step % 13 == 5:
                samples.append(dict(op=op, tag=name, type=T, index=idx, count=cnt, status=d.status if d is not None else None))
            if not ok or not same:
                violations.append(dict(key='history %s/%s step %d: %s %s[%d] x%d' % (t1, t2, step, op, name, idx, cnt),
                                       observed='status %r tags %r' % (d.status if d is not None else None, actual),
                                       required='%s; tags == %r' % (want, model)))
                if len(violations) >= 5:
                    break
                model = dict((k, list(v)) for k, v in actual.items())
    # a Read Tag (unfragmented) of more than the reply budget holds: status 0x06 with the leading elements and the tag's type, as a request record and on the wire
    for T in types:
        for wiremode in (False, True):
            if len(violations) >= 8:
                break
            sim.WIRE = wiremode
            n = 6
            lx = sim.fresh({'A': (T, n)}, max_bytes=rng.choice([8, 16]))
            vals = [rand_value(rng, T) for _ in range(n)]
            for k, v in enumerate(vals):
                sim.write_tag(lx, 'A', k, 1, CODE[T], [v])
            for idx, cnt in ((0, n), (1, n - 1), (n - 1, 1), (0, 1)):
                ev += 1
                distinct.add(('oversize', T, wiremode, idx, cnt))
                d = sim.read_tag(lx, 'A', idx, cnt)
                got = list(d.read_tag.data) if d.status in (0, 6) and 'read_tag' in d and 'data' in d.read_tag else None
                if got is not None and T == 'BOOL':
                    got = [bool(x) for x in got]
                ok = got is not None and len(got) >= 1 and got == vals[idx:idx + len(got)] and d.read_tag.get('type') == CODE[T] and (d.status == 6 or len(got) == cnt)
                if not ok:
                    violations.append(dict(key='Read Tag A[%d] x%d of a %s tag with a small reply budget (%s)' % (idx, cnt, T, 'on the wire' if wiremode else 'as a request record'),
                                           observed='status %r type %r data %r %s' % (d.status, d.get('read_tag.type'), got, d.get('unparsable', d.get('raised', ''))),
                                           required='status 0x00 / 0x06 with the leading elements of %r and type 0x%x' % (vals[idx:idx + cnt], CODE[T])))
    # symbol table: k auto-allocated tags keep k distinct attributes (no aliasing), names are case-insensitive
    # in ISO-8859-1 and otherwise distinct
    sim.WIRE = False
    for k in (1, 2, 9, 10, 11, 12, 15) if tier == 'quick' else range(1, 40):
        if len(violations) >= 5:
            break
        cfg = dict(('TAG_%d' % i, ('INT' if i % 2 else 'DINT', 3)) for i in range(k))
        lx = sim.fresh(cfg)
        for i in range(k):
            sim.write_tag(lx, 'TAG_%d' % i, 0, 3, CODE['INT' if i % 2 else 'DINT'], [100 * i + j for j in range(3)])
        for i in range(k):
            ev += 1
            d = sim.read_tag(lx, 'tag_%d' % i, 0, 3)
            distinct.add(('alloc', k, i))
            if d.status != 0 or list(d.read_tag.data) != [100 * i + j for j in range(3)] or d.read_tag.type != CODE['INT' if i % 2 else 'DINT']:
                violations.append(dict(key='%d auto-allocated tags: read TAG_%d' % (k, i), observed='status %r data %r type %r' % (
                    d.status, d.get('read_tag.data'), d.get('read_tag.type')), required='the values written to TAG_%d and its own type' % i))
                break
    alphabet = [u'a', u'A', u's', u'S', u'\xdf', u'\xe9', u'\xc9', u'\xd7', u'\xf7', u'\xff']
    fold = lambda s: ''.join(chr(ord(c) + 32) if ('A' <= c <= 'Z' or (0xC0 <= ord(c) <= 0xDE and ord(c) != 0xD7)) else c for c in s)
    names = [a + b for a in alphabet for b in alphabet] + [u'Ma\xdf', u'MASS', u'mass', u'stra\xdfe', u'STRASSE']
    special = names[-5:]
    names = names[:-5]
    rng.shuffle(names)
    names = names[:40 if tier == 'quick' else len(names)] + special
    groups = {}
    for nm in names:
        groups.setdefault(fold(nm), []).append(nm)
    reps = sorted(groups)
    cfg = dict((groups[g][0], ('INT', 2)) for g in reps)
    lx = sim.fresh(cfg)
    for gi, g in enumerate(reps):
        sim.write_tag(lx, groups[g][0], 0, 2, CODE['INT'], [gi, gi + 1000])
    for gi, g in enumerate(reps):
        for nm in groups[g]:
            ev += 1
            d = sim.read_tag(lx, nm, 0, 2)
            distinct.add(('name', nm))
            if d.status != 0 or list(d.read_tag.data) != [gi, gi + 1000]:
                if len(violations) < 8:
                    violations.append(dict(key='tag name %r (same tag as %r)' % (nm, groups[g][0]),
                                           observed='status %r data %r' % (d.status, d.get('read_tag.data')),
                                           required='names equal up to ISO-8859-1 case denote one tag, all others are distinct tags'))
    return dict(evaluations=ev, distinct_nontrivial=len(distinct), distinct_keys=distinct_keys(distinct),
                rule='seeded request histories (%d steps per type pair; every other request travels as bytes: reference encoder -> real parser -> request -> real parser of the reply) over 4 tags: two bound to @0x93/3/1 and @0x93/3/2 (one instance), a scalar '
                     'and a Message-Router allocated array; all 11 numeric element types; Read/Write Tag by symbolic name (also lower-case) and by '
                     'numeric address, Read/Write Tag Fragmented, Get/Set Attribute Single; after each request every tag is compared with an '
                     'independent array model; plus k = 1..15 Message-Router allocated tags read back individually, and tag names over an ISO-8859-1 alphabet grouped by case folding; distinct = distinct (operation, type, index, count, tag) / (k, i) / name' % steps,
                exhaustive=False, samples=samples, violations=violations[:20], seed=seed)


# ---- resolve_element: the element index a path addresses -------------------------------------------------
from pyvc.spec import Loop
from pyvc.vals import RecProto, ListV, RefV, BoolV

RE_N = z3.Int('_g_nseg')
HAS_EL = z3.Function('seg_has_element', z3.IntSort(), z3.BoolSort())
EL_VAL = z3.Function('seg_element', z3.IntSort(), z3.IntSort())
FIRST = z3.Int('_g_first')          # index of the first segment with an element (== nseg if there is none)


def path_param(eng, name, st):
    st = st.clone()
    i = z3.Int('pi')
    st.pc += [RE_N >= 0, FIRST >= 0, FIRST <= RE_N,
              z3.ForAll([i], z3.Implies(z3.And(0 <= i, i < FIRST), z3.Not(HAS_EL(i)))),
              z3.Implies(FIRST < RE_N, HAS_EL(FIRST))]
    segs = ListV(RE_N, lambda k: RecProto({'element': (HAS_EL(k), IntV(EL_VAL(k)))}), tag='segments')
    rid = eng.new_id()
    st.heap[(rid, 'segment')] = (z3.BoolVal(True), segs)
    st.heap[(rid, '__closed__')] = True
    st.heap[(rid, '__keys__')] = ('segment',)
    eng.init_vals['_g_nseg'] = IntV(RE_N)
    eng.init_vals['_g_first'] = IntV(FIRST)
    return RefV(rid, 'rec'), st


def resolve_element_spec():
    return Spec('resolve_element', ("server/enip/device.py", "resolve_element"), params={'path': path_param},
                loops={0: Loop(index='K', invariant=[('none-yet', 'len(element) == 0 and K <= _g_first')])},
                ensures=[('the first element segment of the path, else index 0',
                          'result == ((elval(_g_first),) if _g_first < _g_nseg else (0,))')],
                raises={}, modifies=[],
                hints=dict(funcs={'elval': lambda pe, k: IntV(EL_VAL(to_int(k)))}),
                note='paths of any length; segments are records with an optional `element` key')
