"""Frame conditions decided on the AST of the real functions: which attributes / items of a given object a function can store into.

`stores(fdef)` lists every store the function body can perform syntactically: assignment / augmented assignment / deletion targets that are
attributes or subscripts (unparsed, e.g. `data.enip.status`), setattr / delattr calls (`setattr(data.enip, 'status')`), and mutating mapping
methods (`data.enip.pop('input')`, `.update`, `.setdefault`, `.clear`, `.popitem`, `__setitem__`, `__delitem__`).  Stores through an alias
(`e = data.enip; e.status = 1`) would escape: `aliases` lists plain names bound to the protected object, to an object it is reached through, or to a
protected field, and the caller treats any such alias as out of the subset (stale), so the condition is sound for the functions it accepts."""
import ast

MUTATORS = ('pop', 'update', 'setdefault', 'clear', 'popitem', '__setitem__', '__delitem__', '__setattr__', '__delattr__')


def stores(fdef):
    out = []
    for n in ast.walk(fdef):
        if isinstance(n, (ast.Attribute, ast.Subscript)) and isinstance(n.ctx, (ast.Store, ast.Del)):
            out.append((n.lineno - fdef.lineno, ast.unparse(n)))
        elif isinstance(n, ast.Call):
            f = n.func
            if isinstance(f, ast.Name) and f.id in ('setattr', 'delattr') and n.args:
                key = ast.literal_eval(n.args[1]) if len(n.args) > 1 and isinstance(n.args[1], ast.Constant) else '?'
                out.append((n.lineno - fdef.lineno, '%s.%s' % (ast.unparse(n.args[0]), key)))
            elif isinstance(f, ast.Attribute) and f.attr in MUTATORS:
                key = n.args[0].value if n.args and isinstance(n.args[0], ast.Constant) and isinstance(n.args[0].value, str) else '?'
                out.append((n.lineno - fdef.lineno, '%s.%s' % (ast.unparse(f.value), key)))
    return out


def aliases(fdef, root, fields=()):
    """plain names bound to the protected object itself, to something it is reached through, or to one of the protected fields (e.g. `e = data.enip`,
    `d = data`, `c = data.enip.sender_context`): stores through them would escape `stores`.  Names bound to other sub-objects are harmless."""
    protected = [root + '.' + f for f in fields]
    out = []
    for n in ast.walk(fdef):
        if isinstance(n, ast.Assign) and isinstance(n.value, (ast.Attribute, ast.Name, ast.Subscript)):
            src = ast.unparse(n.value)
            if src == root or root.startswith(src + '.') or any(src == p or src.startswith(p + '.') or src.startswith(p + '[') for p in protected):
                out += [t.id for t in n.targets if isinstance(t, ast.Name)]
    return out


def fresh_per_iteration(loop, name):
    """In the body of `loop` (a For / While node) the first top-level statement that mentions `name` assigns it from an expression that does not
    mention it (or empties it in place with name.clear()): what the loop yields / uses for one item carries nothing over from the previous item.
    Returns True / False, or None when the loop body never mentions the name."""
    for st in loop.body:
        if any(isinstance(x, ast.Name) and x.id == name for x in ast.walk(st)):
            if isinstance(st, ast.Assign) and len(st.targets) == 1 and isinstance(st.targets[0], ast.Name) and st.targets[0].id == name \
                    and not any(isinstance(x, ast.Name) and x.id == name for x in ast.walk(st.value)):
                return True
            if isinstance(st, ast.Expr) and isinstance(st.value, ast.Call) and ast.unparse(st.value.func) == name + '.clear' and not st.value.args:
                return True
            return False
    return None


def shared_defaults(fdef):
    """default argument values that are objects built once, when the function is defined (calls, list / dict / set displays, comprehensions), for
    parameters the body mutates or hands on (a method call on it, a store through it, an augmented assignment, passing it to another call):
    state kept in them is shared by every call that does not pass the argument.  A default that is only read is harmless and not listed."""
    import ast
    a = fdef.args
    names = [x.arg for x in a.args][len(a.args) - len(a.defaults):] + [x.arg for x in a.kwonlyargs]
    out = []
    for nm, d in zip(names, list(a.defaults) + list(a.kw_defaults)):
        if d is None or not isinstance(d, (ast.Call, ast.List, ast.Dict, ast.Set, ast.ListComp, ast.DictComp, ast.SetComp)):
            continue
        used = False
        for n in ast.walk(fdef):
            if isinstance(n, ast.Call):
                if isinstance(n.func, ast.Attribute) and isinstance(n.func.value, ast.Name) and n.func.value.id == nm:
                    used = True
                if any(isinstance(x, ast.Name) and x.id == nm for x in list(n.args) + [k.value for k in n.keywords]):
                    used = True
            elif isinstance(n, (ast.Attribute, ast.Subscript)) and isinstance(n.ctx, (ast.Store, ast.Del)) and isinstance(n.value, ast.Name) and n.value.id == nm:
                used = True
            elif isinstance(n, ast.AugAssign) and isinstance(n.target, ast.Name) and n.target.id == nm:
                used = True
        if used:
            out.append('%s=%s' % (nm, ast.unparse(d)))
    return out
