"""Frame conditions decided on the AST of the real functions: which attributes / items of a given object a function can store into.

`stores(fdef)` lists every store the function body can perform syntactically: assignment / augmented assignment / deletion targets that are
attributes or subscripts (unparsed, e.g. `data.enip.status`), setattr / delattr calls (`setattr(data.enip, 'status')`), and mutating mapping
methods (`data.enip.pop('input')`, `.update`, `.setdefault`, `.clear`, `.popitem`, `__setitem__`, `__delitem__`).  Stores through an alias
(`e = data.enip; e.status = 1`) would escape: `aliases` lists plain names bound to the protected object, to an object it is reached through, or to a
protected field, and the caller treats any such alias as out of the subset (stale), so the condition is sound for the functions it accepts."""
import ast

MUTATORS = ('pop', 'update', 'setdefault', 'clear', 'popitem', '__setitem__', '__delitem__', '__setattr__', '__delattr__')


def stores(fdef):
    out = []
    for n in ast.walk(fdef):
        if isinstance(n, (ast.Attribute, ast.Subscript)) and isinstance(n.ctx, (ast.Store, ast.Del)):
            out.append((n.lineno - fdef.lineno, ast.unparse(n)))
        elif isinstance(n, ast.Call):
            f = n.func
            if isinstance(f, ast.Name) and f.id in ('setattr', 'delattr') and n.args:
                key = ast.literal_eval(n.args[1]) if len(n.args) > 1 and isinstance(n.args[1], ast.Constant) else '?'
                out.append((n.lineno - fdef.lineno, '%s.%s' % (ast.unparse(n.args[0]), key)))
            elif isinstance(f, ast.Attribute) and f.attr in MUTATORS:
                key = n.args[0].value if n.args and isinstance(n.args[0], ast.Constant) and isinstance(n.args[0].value, str) else '?'
                out.append((n.lineno - fdef.lineno, '%s.%s' % (ast.unparse(f.value), key)))
    return out


def aliases(fdef, root, fields=()):
    """plain names bound to the protected object itself, to something it is reached through, or to one of the protected fields (e.g. `e = data.enip`,
    `d = data`, `c = data.enip.sender_context`): stores through them would escape `stores`.  Names bound to other sub-objects are harmless."""
    protected = [root + '.' + f for f in fields]
    out = []
    for n in ast.walk(fdef):
        if isinstance(n, ast.Assign) and isinstance(n.value, (ast.Attribute, ast.Name, ast.Subscript)):
            src = ast.unparse(n.value)
            if src == root or root.startswith(src + '.') or any(src == p or src.startswith(p + '.') or src.startswith(p + '[') for p in protected):
                out += [t.id for t in n.targets if isinstance(t, ast.Name)]
    return out
