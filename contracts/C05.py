"""C05 — invalid requests are refused without side effects; accepted writes stay readable.

P: refusal clauses (taken from the property text) on the real Logix.reply_elements; the whole real
   Logix.request for each of the four tag services (status discipline, mutation only on success,
   exact extended status, effect of a successful write); the allowed_tag_types table cell by cell
   against the CIP type ranges (representation invariant: every stored value can be packed in the
   tag's own type); Attribute.__setitem__ never truncates/extends.
B: boundary requests inside request histories on the real Logix.request (bounded).
"""
from .util import distinct_keys
import ast
import random

import z3

from pyvc.spec import Spec, Custom
from pyvc.vals import Unsupported
from pyvc.calls import STRUCT_FMT
from . import logix_common as LC
from . import attribute_common as AC

PROPERTY = 'C05'
LEVEL = 'proof'
LEVEL_TEXT = ('Deductive proof on the real code: (1) Logix.reply_elements refuses every request whose element range leaves the tag '
              '(clauses from the property text) before any heap write; (2) the whole Logix.request method, symbolically executed '
              'per service against the contracts of reply_elements and Attribute: unknown tag -> 0x05, range error -> 0xFF/0x2105, '
              'type the tag cannot hold -> 0xFF/0x2107, every non-success status leaves the tag unchanged, a success stores exactly '
              'the written values at the addressed elements; (3) every cell of the allowed_tag_types table admits only request types '
              'whose whole value range packs into the tag type, so an acknowledged write can never make a tag unreadable. '
              'Request histories with boundary values on the real simulator objects are a bounded stand-in, not counted.')
LEVEL_NOTE = ('Assumed (unverified) callee contracts: device.resolve (returns ids or raises), lookup (the tag or None), produce (opaque bytes), '
              'route() -> None. Domain: integer/real CIP element types, tags without a configured forced error code for writes. '
              'Object.request attribute services are only in the bounded tier.')
TECHNIQUE = 'contracts on Logix.reply_elements / Logix.request / Attribute + table obligations, VCs from the real AST, z3/cvc5; bounded histories as stand-in'
TRUSTED = ['assumed callee contracts: resolve, lookup, route, produce (see functions_under_contract[].note)', 'status_after_store: AST-decided ordering condition (sufficient, syntactic)', 'producer contracts shared with C01 carry its assumptions',
           'T2 struct.pack ranges of B b <H <h <I <i <Q <q']
ASSUMPTIONS = ['requests are for this Logix object (route() returns None); STRUCT/STRING tags excluded',
               'tags have no configured forced error code when written (a test facility of the simulator)']


def table_cells(repo):
    """the allowed_tag_types dict literal, read from the real Logix.request AST"""
    mod, cls, fdef = repo.find_function("server/enip/logix.py", "Logix.request")
    for n in ast.walk(fdef):
        if isinstance(n, ast.Assign) and len(n.targets) == 1 and isinstance(n.targets[0], ast.Name) \
                and n.targets[0].id == 'allowed_tag_types':
            return repo.const_eval(n.value, mod, cls), mod
    raise Unsupported('stale contract: allowed_tag_types not found in Logix.request')


def well_formed(repo):
    table, mod = table_cells(repo)
    out = []
    fmt_of = {}
    for name in ('BOOL', 'SINT', 'USINT', 'INT', 'UINT', 'DINT', 'UDINT', 'LINT', 'ULINT', 'REAL', 'LREAL'):
        ch = repo.find_class(name, prefer=mod)
        fmt_of[ch.const('tag_type')] = (name, ch.const('struct_format'))
    v = z3.Int('v')
    for tag, allowed in sorted(table.items()):
        tname, tfmt = fmt_of[tag]
        for req in allowed:
            rname, rfmt = fmt_of[req]
            if rname == 'BOOL':
                rng = z3.And(v >= 0, v <= 1)
            elif rfmt in STRUCT_FMT:
                size, signed, _ = STRUCT_FMT[rfmt]
                bits = 8 * size
                lo, hi = (-(2 ** (bits - 1)), 2 ** (bits - 1) - 1) if signed else (0, 2 ** bits - 1)
                rng = z3.And(v >= lo, v <= hi)
            else:
                continue                        # REAL/LREAL request data: floats are not modelled (T2)
            if tfmt in STRUCT_FMT:
                size, signed, _ = STRUCT_FMT[tfmt]
                bits = 8 * size
                lo, hi = (-(2 ** (bits - 1)), 2 ** (bits - 1) - 1) if signed else (0, 2 ** bits - 1)
                packable = z3.And(v >= lo, v <= hi)
            else:
                packable = z3.And(v >= -(2 ** 100), v <= 2 ** 100)   # '<f'/'<d' accept every int of this magnitude
            out.append(('%s<-%s: every value of the accepted request type can be stored and read back' % (tname, rname),
                        [rng], packable))
    if len(out) < 20:
        raise Unsupported('stale contract: allowed_tag_types has only %d integer cells' % len(out))
    return out


def status_after_store(repo):
    """Ordering condition on the AST of Logix.request: inside its try block the failure indication (0xFF + extended status) is in place before the
    element range is computed, and in the block that stores into the attribute no success status is assigned before the store - so a store that
    raises is answered with the failure indication already recorded, by the handler of that same try block."""
    import ast
    mod, cls, fdef = repo.find_function('server/enip/logix.py', 'Logix.request')
    out = []
    tries = [n for n in ast.walk(fdef) if isinstance(n, ast.Try)]
    blocks = []
    for n in ast.walk(fdef):
        for fld in ('body', 'orelse', 'finalbody'):
            blk = getattr(n, fld, None)
            if isinstance(blk, list) and any(isinstance(x, ast.Assign) and ast.unparse(x.targets[0]).startswith('attribute[') for x in blk):
                blocks.append(blk)
    if len(blocks) != 1 or not tries:
        raise Unsupported('stale contract: Logix.request has %d blocks that store into the attribute' % len(blocks))
    blk = blocks[0]
    is_status = lambda x: isinstance(x, ast.Assign) and ast.unparse(x.targets[0]) == 'data.status'
    store_at = [k for k, x in enumerate(blk) if isinstance(x, ast.Assign) and ast.unparse(x.targets[0]).startswith('attribute[')][0]
    early = [x for x in blk[:store_at] if is_status(x) or (isinstance(x, ast.Expr) and 'status' in ast.unparse(x))]
    inside = [t for t in tries if any(b is blk for n in ast.walk(t) for b in [getattr(n, 'body', None), getattr(n, 'orelse', None)]) and t.handlers]
    # the failure indication precedes the call that computes the range, at the top level of the try body
    pre = 0
    if inside:
        body = inside[-1].body
        fail_at = [k for k, x in enumerate(body) if is_status(x) and ast.unparse(x.value) in ('255', '0xFF', '0xff')]
        calc_at = [k for k, x in enumerate(body) if 'self.reply_elements(' in ast.unparse(x)]
        pre = 1 if fail_at and calc_at and fail_at[0] < calc_at[0] else 0
    for name, got, want in (('no status is assigned in the storing block before the store', len(early), 0),
                            ('the store happens inside a try block with a handler', min(len(inside), 1), 1),
                            ('the failure status 0xFF is recorded before the element range is computed', pre, 1)):
        v = z3.Int('n_%d' % (__import__('zlib').crc32(name.encode()) % 10 ** 8))
        out.append((name, [v == got], v == want))
    return out


def replay_status_order(model, obligation):
    """writes whose store cannot succeed (computed class-level attributes of the Logix object class): answered with a failure status, no exception escapes"""
    import cpppo
    from . import sim
    num = lambda c, i, a: {'segment': [cpppo.dotdict({'class': c}), cpppo.dotdict({'instance': i}), cpppo.dotdict({'attribute': a})]}
    for c, i, a in ((2, 0, 2), (2, 0, 1), (2, 0, 4)):
        for svc, ctx, extra in ((0x4d, 'write_tag', {}), (0x53, 'write_frag', {'offset': 0})):
            lx = sim.fresh({'A': ('INT', 3)})
            kw = {ctx: dict({'elements': 1, 'type': 0xc3, 'data': [5]}, **extra)}
            d = sim.request(lx, service=svc, path=num(c, i, a), **kw)
            if d.get('status') in (0, -2):
                return dict(confirmed=True, function='cpppo.server.enip.logix.Logix.request', input='%s to @%d/%d/%d' % (ctx, c, i, a),
                            observed='status %r %s' % (d.get('status'), d.get('raised', '')), required='an error reply (non-zero status), no exception')
    return dict(confirmed=False)


def contracts(repo):
    items = [LC.reply_elements_spec(ensures=False, ctx=c) for c in ('read_tag', 'read_frag', 'write_tag', 'write_frag')]
    items += LC.request_specs()
    items.append(Custom('well_formed', well_formed, replay=replay_cell, targets=[('server/enip/logix.py', 'Logix.request')],
                        note='allowed_tag_types read from the AST of Logix.request; one obligation per (tag type, accepted request type)'))
    for sp in AC.specs('vector'):
        if '__setitem__' in sp.name or '_validate_key' in sp.name:
            items.append(sp)
    items.append(set_attribute_single_spec())
    items.append(get_attribute_single_spec())
    items.append(Custom('status_after_store', status_after_store, replay=replay_status_order, targets=[('server/enip/logix.py', 'Logix.request')],
                        note='ordering condition on the AST of Logix.request: failure status before the range computation, no success status before the store'))
    # which names are known: a request naming a tag that does not exist is refused - the symbol-table key is the contract of C03 (ISO-8859-1 case folding, nothing looser)
    from . import C03 as _C03
    items.append(_C03.canonicalize_spec())
    # an accepted string stays readable: every length the wire can carry (SSTRING 0..255, STRING 0..65535) is a length the producer encodes (contracts of C01)
    from . import C01 as _C01
    items += _C01.string_specs()
    items.append(_C01.status_spec())            # the failure indication itself: status, extended status size and words as the reply carries them
    return items


def replay_cell(model, obligation):
    """write the extreme value of the accepted request type, then read the tag back, on the real code"""
    from . import sim
    import re
    m = re.search(r'\[(\w+)<-(\w+):', obligation)
    if not m:
        return dict(confirmed=False)
    tname, rname = m.group(1), m.group(2)
    v = int((model or {}).get('v', 0))
    code = dict((n, c) for c, n in LC.TYPE_NAME.items())
    lx = sim.fresh({'T': (tname, 4)})
    d = sim.write_tag(lx, 'T', 0, 1, code[rname], [v])
    st = d.status
    try:
        r = sim.read_tag(lx, 'T', 0, 1)
        rd = (r.status, list(r.read_tag.data) if r.status == 0 else None)
    except Exception as e:
        rd = ('raise', type(e).__name__)
    bad = st == 0 and (rd[0] != 0)
    return dict(confirmed=bool(bad), function='Logix.request (Write Tag then Read Tag)', input=dict(tag_type=tname, request_type=rname, value=v),
                observed='write status %r, read back %r' % (st, rd), required='an acknowledged write leaves the tag readable')


# ------------------------------------------------------------------------------------------------ bounded tier
def snapshot(names):
    from . import sim
    return dict((n, sim.tag_values(n)) for n in names)


def bounded(tier, seed):
    from . import sim
    import cpppo
    cpppo_dd = cpppo.dotdict
    rng = random.Random(seed)
    ev = 0
    distinct = set()
    violations = []
    samples = []
    types = ['SINT', 'USINT', 'INT', 'UINT', 'DINT', 'UDINT', 'LINT', 'ULINT'] + (['BOOL'] if tier != 'quick' else [])
    code = dict((n, c) for c, n in LC.TYPE_NAME.items())
    rounds = 60 if tier == 'quick' else 600
    for ttype in types:
        ln = 5
        lx = sim.fresh({'A': (ttype, ln), 'B': (ttype, 3), 'Strasse': (ttype, 2)}, max_bytes=rng.choice([4, 16, 488]))
        model = {'A': [0] * ln, 'B': [0] * 3, 'Strasse': [0] * 2}
        for step in range(rounds):
            if len(violations) >= 5:
                break
            sim.WIRE = (step % 2 == 1)      # every other request as bytes through the real parser (where the request has a wire form)
            name = rng.choice(['A', 'B'])
            n = len(model[name])
            idx = rng.choice([0, 1, n - 1, n, n + 1, rng.randint(0, n + 1)])
            elm = rng.choice([0, 1, 2, n - idx, n - idx + 1, n, n + 1])
            kind = rng.choice(['read_tag', 'read_frag', 'write_tag', 'write_frag', 'unknown'])
            before = snapshot(model)
            ev += 1
            if kind == 'unknown':
                # names no tag has: unrelated ones, and near misses of defined names (a suffix, a dropped letter, another ISO-8859-1 spelling
                # that only a looser notion of "the same name" than case-insensitivity would identify with a defined tag)
                unk = rng.choice(['NoSuchTag', u'Stra\xdfe', u'STRA\xdfE', 'Strasse2', 'Strass', 'AA', 'A_', u'\xc4', 'B0'])
                if rng.random() < 0.5:
                    d = sim.read_tag(lx, unk, 0, 1)
                else:
                    d = sim.write_tag(lx, unk, 0, 1, code[ttype], [1])
                ok = d.status not in (0, 6) and snapshot(model) == before
                key = ('unknown', unk)
                want = 'non-zero status for the unknown tag %r, tags unchanged' % unk
            elif kind.startswith('read'):
                off = 0 if kind == 'read_tag' else rng.choice([0, 0, elm, 2 * elm + 1])
                siz = lx and {'SINT': 1, 'USINT': 1, 'BOOL': 1, 'INT': 2, 'UINT': 2, 'DINT': 4, 'UDINT': 4, 'LINT': 8, 'ULINT': 8}[ttype]
                d = sim.read_tag(lx, name, idx, elm) if kind == 'read_tag' else sim.read_frag(lx, name, idx, elm, off * siz)
                in_range = 0 <= idx and elm >= 1 and idx + elm <= n
                adv = off if kind == 'read_frag' else 0
                st, ext = sim.status_of(d)
                if not in_range or idx + adv >= n:
                    ok = st == 0xFF and ext == [0x2105]
                    want = 'status 0xFF / 0x2105'
                elif adv < elm:
                    got = list(d[kind].data) if st in (0, 6) else None
                    ok = st in (0, 6) and got == model[name][idx + adv: idx + adv + len(got)] and len(got) >= 1
                    want = 'status 0x00/0x06 with the addressed elements'
                else:
                    ok = True
                    want = ''
                ok = ok and snapshot(model) == before
                key = (kind, ttype, idx - n, elm - n, adv)
            else:
                rtype = rng.choice(types)
                lo, hi = LC.INT_RANGE[code[rtype]]
                nvals = rng.choice([0, 1, elm, elm, max(elm - 1, 1), elm + 1])
                vals = [rng.choice([lo, hi, 0, 1, rng.randint(lo, hi)]) for _ in range(nvals)]
                off = 0 if kind == 'write_tag' else rng.choice([0, 0, 1])
                siz = {'SINT': 1, 'USINT': 1, 'BOOL': 1, 'INT': 2, 'UINT': 2, 'DINT': 4, 'UDINT': 4, 'LINT': 8, 'ULINT': 8}[ttype]
                d = sim.write_tag(lx, name, idx, elm, code[rtype], vals) if kind == 'write_tag' \
                    else sim.write_frag(lx, name, idx, elm, off * siz, code[rtype], vals)
                st, ext = sim.status_of(d)
                after = snapshot(model)
                key = (kind, ttype, rtype, idx - n, elm - n, nvals - elm, off)
                in_range = 0 <= idx and elm >= 1 and idx + elm <= n
                if st != 0:
                    ok = after == before
                    want = 'refused write leaves every tag unchanged'
                    if ok and not LC.holdable(code[ttype], code[rtype]):
                        ok = st == 0xFF and ext == [0x2107]
                        want = 'type mismatch -> 0xFF/0x2107'
                    elif ok and (not in_range or idx + off + nvals > n):
                        ok = st == 0xFF and ext in ([0x2105], [0x2107])
                        want = 'range error -> 0xFF'
                else:
                    exp = dict(before)
                    exp[name] = before[name][:idx + off] + vals + before[name][idx + off + nvals:]
                    ok = in_range and LC.holdable(code[ttype], code[rtype]) and after == exp and len(after[name]) == n
                    want = 'success only in range, with a holdable type, storing exactly the values'
                    if ok:
                        # the tag must stay readable
                        try:
                            r = sim.read_tag(lx, name, 0, n)
                            got = list(r.read_tag.data) if r.status in (0, 6) else None
                            ok = got is not None and len(got) >= 1 and got == after[name][:len(got)]
                        except Exception as e:
                            ok = False
                            want = 'tag readable after an acknowledged write (raised %s)' % type(e).__name__
                    model = dict((k, list(v)) for k, v in after.items()) if ok else model
                if not ok:
                    model = dict((k, list(v)) for k, v in after.items())
            distinct.add(key)
            if len(samples) < 6 and step % 17 == 3:
                samples.append(dict(tag_type=ttype, request=kind, index=idx, elements=elm, status=list(sim.status_of(d))))
            if not ok:
                violations.append(dict(key='history %s step %d: %s %s[%d] x%d' % (ttype, step, kind, name, idx, elm),
                                       observed='status %r tags %r' % (sim.status_of(d), snapshot(model)), required=want))
    sim.WIRE = False
    # Set Attribute Single with every byte count around the exact one (all-or-nothing, no growth/shrink)
    import struct
    from .C03 import numpath, FMT
    for ttype in ('SINT', 'INT', 'DINT', 'LINT'):
        for n in (1, 2, 3):
            lx = sim.fresh({'A': (ttype, n, {'segment': [{'class': 0x93}, {'instance': 3}, {'attribute': 1}]})})
            siz = struct.calcsize(FMT[ttype])
            for nbytes in range(0, siz * (n + 2) + 1):
                ev += 1
                before = sim.tag_values('A')
                raw = [(7 * i + 1) % 200 for i in range(nbytes)]
                d = sim.request(lx, service=0x10, path=numpath(0x93, 3, 1), set_attribute_single={'data': raw})
                after = sim.tag_values('A')
                distinct.add(('set_single', ttype, n, nbytes - siz * n))
                if nbytes == siz * n:
                    want = [struct.unpack(FMT[ttype], bytes(raw[i:i + siz]))[0] for i in range(0, nbytes, siz)]
                    ok = d.status == 0 and after == want
                else:
                    ok = d.status != 0 and after == before
                ok = ok and len(after) == n
                if not ok and len(violations) < 8:
                    violations.append(dict(key='set_attribute_single %s[%d] with %d bytes' % (ttype, n, nbytes),
                                           observed='status %r tag %r' % (d.status, after),
                                           required='exact byte count stores the values; any other count is refused and leaves the tag (and its length) unchanged'))
    # on the wire (reference-encoded frames through the real parser and server over TCP): values at the top of every unsigned range stay
    # readable after an acknowledged write; an element index beyond 2^31 is refused also when a fragment offset is given
    import struct
    from . import wire
    from .C06 import raw_session
    wtags = {'US': ('USINT', 2), 'UI': ('UINT', 2), 'UD': ('UDINT', 2), 'UL': ('ULINT', 2), 'A': ('INT', 10)}
    tops = (('US', 0xc6, 0xff, 1), ('UI', 0xc7, 0xffff, 2), ('UD', 0xc8, 0xffffffff, 4), ('UL', 0xc9, 0xffffffffffffffff, 8),
            ('UD', 0xc8, 0x80000000, 4), ('UL', 0xc9, 0x8000000000000000, 8))
    for name, code, top, siz in tops:
        ev += 1
        distinct.add(('wire-top', name, top))
        frames = [wire.register(),
                  wire.send_rr_data(wire.write_tag(name, 1, code, [top]), session=0, context=b'WRITE---', route=False),
                  wire.send_rr_data(wire.read_tag(name, 1, 1), session=0, context=b'READ----', route=False),
                  wire.send_rr_data(wire.read_tag(name, 0, 2), session=0, context=b'READ2---', route=False)]
        try:
            replies, rest = raw_session(frames, wtags)
            cips = [wire.reply_cip(f) for f in replies]
            obs = [(c[2], bytes(c[4] or b'').hex()) for c in cips[1:]]
            want_val = struct.pack(wire.TYPE_FMT[code], top)
            ok = (len(replies) == 4 and all(c[2] == 0 for c in cips)
                  and cips[1][4][:4] == bytes([0xcd, 0, 0, 0])
                  and cips[2][4] == bytes([0xcc, 0, 0, 0]) + struct.pack('<H', code) + want_val
                  and cips[3][4] == bytes([0xcc, 0, 0, 0]) + struct.pack('<H', code) + struct.pack(wire.TYPE_FMT[code], 0) + want_val)
        except Exception as e:
            ok, obs = False, 'raised %s: %s' % (type(e).__name__, e)
        if not ok and len(violations) < 8:
            violations.append(dict(key='wire: write %s[1] = 0x%x then read it' % (name, top), observed=repr(obs)[:300],
                                   required='the write is acknowledged and both reads return the value written (one reply per request, session stays up)'))
    for svc, mk in (('read_frag', lambda: wire.read_frag('A', 0xffffffff, 4, 2)),
                    ('write_frag', lambda: wire.write_frag('A', 0xffffffff, 0xc3, 4, 2, [9, 9])),
                    ('read_frag', lambda: wire.read_frag('A', 0xfffffffe, 6, 4))):
        ev += 1
        distinct.add(('wire-index', svc))
        frames = [wire.register(), wire.send_rr_data(wire.write_tag('A', 0, 0xc3, [1, 2, 3, 4]), session=0, context=b'SETUP---', route=False),
                  wire.send_rr_data(mk(), session=0, context=b'PROBE---', route=True),     # (0x52 is also the Unconnected Send code: a fragmented read travels wrapped)
                  wire.send_rr_data(wire.read_tag('A', 0, 4), session=0, context=b'CHECK---', route=False)]
        try:
            replies, rest = raw_session(frames, wtags)
            cips = [wire.reply_cip(f) for f in replies]
            probe, check = cips[2], cips[3]
            obs = [(c[2], bytes(c[4] or b'').hex()) for c in cips[1:]]
            ok = (len(replies) == 4 and probe[2] == 0 and probe[4][2] not in (0x00, 0x06)
                  and check[4] == bytes([0xcc, 0, 0, 0]) + struct.pack('<H', 0xc3) + struct.pack('<4h', 1, 2, 3, 4))
        except Exception as e:
            ok, obs = False, 'raised %s: %s' % (type(e).__name__, e)
        if not ok and len(violations) < 8:
            violations.append(dict(key='wire: %s of A[4294967295] with a byte offset' % svc, observed=repr(obs)[:300],
                                   required='refused with a CIP error status, nothing read or written, the tag keeps [1, 2, 3, 4]'))
    # strings: every length a Short String can carry on the wire (0..255); an acknowledged write leaves the tag readable by every read service
    for wiremode in (True, False):
        sim.WIRE = wiremode
        lx = sim.fresh({'S': ('SSTRING', 3, {'segment': [{'class': 0x93}, {'instance': 4}, {'attribute': 1}]}), 'N': ('INT', 2)}, max_bytes=rng.choice([300, 488]))
        smodel = ['', '', '']
        lengths = [0, 1, 2, 81, 82, 83, 127, 128, 253, 254, 255] if tier == 'quick' else list(range(0, 256))
        for L in lengths:
            if len(violations) >= 8:
                break
            ev += 1
            distinct.add(('sstring', wiremode, L))
            idx = L % 3
            text = ''.join(chr(32 + (L + k) % 200) for k in range(L))
            d = sim.write_tag(lx, 'S', idx, 1, 0xda, [text])
            st, ext = sim.status_of(d)
            if st == 0:
                smodel[idx] = text
            problems = []
            if st != 0 and [x if isinstance(x, str) else x.get('string', x) for x in sim.tag_values('S')] != smodel:
                problems.append('refused write (status 0x%x) changed the tag' % st)
            for label, rd in (('Read Tag', lambda: sim.read_tag(lx, 'S', idx, 1)), ('Read Tag Fragmented', lambda: sim.read_frag(lx, 'S', idx, 1, 0)),
                              ('Read Tag of another tag', lambda: sim.read_tag(lx, 'N', 0, 2))):
                r = rd()
                rst, _ = sim.status_of(r)
                ctx = 'read_frag' if 'Fragmented' in label else 'read_tag'
                if rst not in (0, 6):
                    problems.append('%s afterwards: status %r %s' % (label, rst, r.get('raised', r.get('unparsable', ''))))
                elif 'another' not in label and list(r[ctx].data) != [smodel[idx]]:
                    problems.append('%s afterwards returns %r' % (label, [x[:12] for x in r[ctx].data]))
            g = sim.request(lx, service=0x0e, path={'segment': [cpppo_dd({'class': 0x93}), cpppo_dd({'instance': 4}), cpppo_dd({'attribute': 1})]})
            want_raw = list(b''.join(bytes([len(x)]) + x.encode('iso-8859-1') for x in smodel))
            if g.status != 0 or list(g.get('get_attribute_single.data', [])) != want_raw:
                problems.append('Get Attribute Single afterwards: status %r, %d octets (expected %d)' % (g.status, len(g.get('get_attribute_single.data', []) or []), len(want_raw)))
            if st != 0:
                problems.append('a %d-character Short String was refused with status 0x%x' % (L, st))
            if problems:
                violations.append(dict(key='Write Tag of a %d-character SSTRING (%s), then reads' % (L, 'on the wire' if wiremode else 'as a request record'), observed='; '.join(problems)[:300],
                                       required='acknowledged, and afterwards every read service succeeds and returns the written text'))
    sim.WIRE = False
    return dict(evaluations=ev, distinct_nontrivial=len(distinct), distinct_keys=distinct_keys(distinct),
                rule='seeded request histories per tag type on two array tags (every other request as bytes through the real parser where it has a wire form): index in {0,1,len-1,len,len+1,random}, count in '
                     '{0,1,2,rest,rest+1,len,len+1}, every request type incl. widest values into narrower tags; after each request all '
                     'tag contents are compared with the array model and re-read after every acknowledged write; '
                     'distinct = distinct (service, types, index-len, count-len, data-count, offset) classes',
                exhaustive=False, samples=samples, violations=violations[:20], seed=seed)


# ---- Object.request: Set Attribute Single (exact byte count before unpack / assign) -------------------------
import z3 as _z3
from pyvc.vals import SeqV, IntV, BoolV, RefV, OpaqueV, PyListV, IntSeq, USort, NONE
from pyvc.pure import fresh

DV = "server/enip/device.py"


def sa_data(eng, name, st):
    st = st.clone()
    rid, pid, sid, did = eng.new_id(), eng.new_id(), eng.new_id(), eng.new_id()
    st.heap[(sid, 'attribute')] = (_z3.Bool('_g_path_has_attribute'), IntV(_z3.Int('_g_aid')))
    st.heap[(sid, '__closed__')] = True
    st.heap[(sid, '__keys__')] = ('attribute',)
    st.heap[(pid, 'segment')] = (_z3.BoolVal(True), PyListV([RefV(sid, 'rec')]))
    st.heap[(pid, '__closed__')] = True
    st.heap[(pid, '__keys__')] = ('segment',)
    raw = SeqV(_z3.Const('_g_raw', IntSeq), 'list')
    st.heap[(did, 'data')] = (_z3.Bool('_g_has_data'), raw)
    st.heap[(did, '__closed__')] = True
    st.heap[(did, '__keys__')] = ('data',)
    top = {'service': (_z3.Bool('_g_service_given'), IntV(0x10)), 'path': (_z3.BoolVal(True), RefV(pid, 'rec')),
           'set_attribute_single': (_z3.BoolVal(True), RefV(did, 'rec')),
           'status_ext': (_z3.Bool('_g_has_ext'), OpaqueV(_z3.Const('_g_ext', USort), 'ext'))}
    for k, pv in top.items():
        st.heap[(rid, k)] = pv
    st.heap[(rid, '__closed__')] = True
    st.heap[(rid, '__keys__')] = tuple(top.keys())
    eng.init_vals['_g_raw'] = raw
    for k in ('_g_path_has_attribute', '_g_has_data'):
        eng.init_vals[k] = BoolV(_z3.Bool(k))
    eng.tracked_refs.add(rid)
    return RefV(rid, 'rec'), st


def unpacked_values(eng, st):
    """ASSUMED model of `[struct.unpack(fmt, buf[i:i+siz])[0] for i in range(0, len(buf), siz)]`: one value per siz-byte group"""
    buf = st.loc['buf']
    siz = st.loc['siz']
    v = SeqV(fresh('unpacked', IntSeq), 'list')
    st.pc.append(_z3.Length(v.t) == (_z3.Length(buf.t) + siz.t - 1) / siz.t)
    return v


def ga_data(eng, name, st):
    st = st.clone()
    rid, pid, sid = eng.new_id(), eng.new_id(), eng.new_id()
    st.heap[(sid, 'attribute')] = (_z3.Bool('_g_path_has_attribute'), IntV(_z3.Int('_g_aid')))
    st.heap[(sid, '__closed__')] = True
    st.heap[(sid, '__keys__')] = ('attribute',)
    st.heap[(pid, 'segment')] = (_z3.BoolVal(True), PyListV([RefV(sid, 'rec')]))
    st.heap[(pid, '__closed__')] = True
    st.heap[(pid, '__keys__')] = ('segment',)
    top = {'service': (_z3.Bool('_g_service_given'), IntV(0x0e)), 'path': (_z3.BoolVal(True), RefV(pid, 'rec')),
           'get_attribute_single': (_z3.Bool('_g_ctx_given'), BoolV(_z3.BoolVal(True))),
           'status_ext': (_z3.Bool('_g_has_ext'), OpaqueV(_z3.Const('_g_ext', USort), 'ext'))}
    for k, pv in top.items():
        st.heap[(rid, k)] = pv
    st.heap[(rid, '__closed__')] = True
    st.heap[(rid, '__keys__')] = tuple(top.keys())
    for k in ('_g_path_has_attribute', '_g_service_given', '_g_ctx_given'):
        eng.init_vals[k] = BoolV(_z3.Bool(k))
    eng.init_vals['_g_attbytes'] = SeqV(_z3.Const('_g_attbytes', IntSeq), 'list')
    eng.tracked_refs.add(rid)
    return RefV(rid, 'rec'), st


def get_attribute_single_spec():
    attbytes = lambda eng, st: SeqV(_z3.Const('_g_attbytes', IntSeq), 'bytes')
    return Spec('Object.request[get_attribute_single]', (DV, 'Object.request'),
                params={'data': ga_data, '_g_att': ('Obj', 'Attribute', AC.VEC_FIELDS), '_g_att_exists': 'Bool'},
                env={'str(a_id) in self.attribute': '_g_att_exists',
                     'self.attribute[str(a_id)]': '_g_att',
                     'self.attribute[str(a_id)].produce()': attbytes,
                     '[b if type(b) is int else ord(b) for b in result]': lambda eng, st: SeqV(st.loc['result'].t, 'list'),
                     'self.produce(data)': lambda eng, st: SeqV(_z3.Const('_g_produced', IntSeq), 'bytes')},
                requires='(_g_service_given or _g_ctx_given) and _g_att.mask >= 0',
                defs=dict(OK='_g_path_has_attribute and _g_att_exists and _g_att.mask % 2 == 0'),
                ensures=[('an existing, readable attribute is returned as its produced bytes', 'implies(OK, data.status == 0x00 and data.get_attribute_single.data == _g_attbytes)'),
                         ('anything else is refused with a non-zero status', 'implies(not OK, data.status != 0x00)'),
                         ('the attribute is not changed by reading it', '_g_att.default == old(_g_att.default)'),
                         ('reply-bit', 'data.service == 0x8e'), ('returns-true', 'result == True'), ('one-reply-payload-produced', "has(data, 'input')")],
                raises={}, modifies=['data.service', 'data.status', 'data.status_ext', 'data.input', 'data.get_attribute_single'],
                note='Get Attribute Single path of the whole method; Attribute.produce() by ASSUMED model (some byte string), the int-conversion '
                     'comprehension is the identity on Python 3 bytes (ASSUMED)')


def set_attribute_single_spec():
    callees = {}
    for sp in AC.specs('vector'):
        if sp.name.startswith('Attribute.__setitem__[vector][slice]'):
            sp.hints = dict(sp.hints, unpack=AC.unpack_slice)
            callees['Attribute.__setitem__'] = sp
    return Spec('Object.request[set_attribute_single]', (DV, 'Object.request'),
                params={'data': sa_data, '_g_att': ('Obj', 'Attribute', AC.VEC_FIELDS), '_g_att_exists': 'Bool', '_g_siz': 'Int'},
                env={'str(a_id) in self.attribute': '_g_att_exists',
                     'self.attribute[str(a_id)]': '_g_att',
                     'att.parser.struct_calcsize': '_g_siz',
                     'att.parser.struct_format': lambda eng, st: OpaqueV(_z3.Const('_g_fmt', USort), 'fmt'),
                     '[struct.unpack(fmt, buf[i:i + siz])[0] for i in range(0, len(buf), siz)]': unpacked_values,
                     'self.produce(data)': lambda eng, st: SeqV(_z3.Const('_g_produced', IntSeq), 'bytes')},
                requires='_g_siz >= 1 and _g_att.mask >= 0 and len(_g_att.default) >= 1',
                defs=dict(N='len(old(_g_att.default))', EXACT='_g_has_data and len(_g_raw) == _g_siz * N',
                          OK='_g_path_has_attribute and _g_att_exists and _g_att.mask % 2 == 0 and EXACT',
                          UNCHANGED='_g_att.default == old(_g_att.default)'),
                ensures=[('exact byte count is accepted', 'implies(OK, data.status == 0x00)'),
                         ('any other byte count is refused and leaves the attribute as it was', 'implies(not OK, data.status != 0x00 and UNCHANGED)'),
                         ('the attribute never changes its length', 'len(_g_att.default) == N'),
                         ('reply-bit', 'data.service == 0x90'), ('returns-true', 'result == True'), ('one-reply-payload-produced', "has(data, 'input')")],
                raises={}, modifies=['_g_att.default', 'data.service', 'data.status', 'data.status_ext', 'data.input'],
                callees=callees, inline=['__len__'],
                note='Set Attribute Single path of the whole method; the unpack comprehension by ASSUMED model (one value per element-size group); '
                     'Attribute.__setitem__ by its proved contract (its precondition len(value) == slice length is an obligation here)')
