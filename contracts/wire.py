"""Reference encoders written directly from the CIP / EtherNet/IP layout tables (no cpppo code):
used as the independent oracle of C01 and to build byte streams for C02 / C06."""
import struct


def pad_even(b):
    return b + (b'\x00' if len(b) % 2 else b'')


def enip_frame(command, payload=b'', session=0, status=0, context=b'\x00' * 8, options=0):
    assert len(context) == 8
    return struct.pack('<HHII', command, len(payload), session, status) + context + struct.pack('<I', options) + payload


def register():
    return enip_frame(0x65, struct.pack('<HH', 1, 0))


def unregister(session):
    return enip_frame(0x66, b'', session=session)


def seg_symbolic(name):
    b = name.encode('iso-8859-1')
    return bytes([0x91, len(b)]) + pad_even(b)


def seg_logical(kind, value):
    base = {'class': 0x20, 'instance': 0x24, 'element': 0x28, 'connection': 0x2c, 'attribute': 0x30}[kind]
    if value <= 0xff:
        return bytes([base, value])
    if value <= 0xffff:
        return bytes([base + 1, 0]) + struct.pack('<H', value)
    assert kind == 'element' and value <= 0xffffffff
    return bytes([base + 2, 0]) + struct.pack('<I', value)


def seg_port(port, link):
    if isinstance(link, int):
        if port < 15:
            return bytes([port, link])
        return bytes([0x0f]) + struct.pack('<H', port) + bytes([link])
    b = link.encode('iso-8859-1')
    if port < 15:
        return bytes([0x10 | port, len(b)]) + pad_even(b)
    return bytes([0x1f, len(b)]) + struct.pack('<H', port) + pad_even(b)


def epath(segments, padded=False):
    """segments: list of ('symbolic', name) / ('class'|'instance'|'attribute'|'element'|'connection', n) / ('port', port, link)"""
    body = b''
    for s in segments:
        if s[0] == 'symbolic':
            body += seg_symbolic(s[1])
        elif s[0] == 'port':
            body += seg_port(s[1], s[2])
        else:
            body += seg_logical(s[0], s[1])
    assert len(body) % 2 == 0
    return bytes([len(body) // 2]) + (b'\x00' if padded else b'') + body


def tag_path(name, element=None):
    segs = [('symbolic', name)]
    if element is not None:
        segs.append(('element', element))
    return epath(segs)


def read_tag(name, element, elements):
    return bytes([0x4c]) + tag_path(name, element) + struct.pack('<H', elements)


def read_frag(name, element, elements, offset):
    return bytes([0x52]) + tag_path(name, element) + struct.pack('<HI', elements, offset)


TYPE_FMT = {0xc1: 'B', 0xc2: 'b', 0xc3: '<h', 0xc4: '<i', 0xc5: '<q', 0xc6: 'B', 0xc7: '<H', 0xc8: '<I', 0xc9: '<Q', 0xca: '<f', 0xcb: '<d'}


def typed(typ, values):
    if typ == 0xc1:
        return b''.join(b'\xff' if v else b'\x00' for v in values)
    if typ == 0xda:                         # SSTRING: one length octet, then that many ISO-8859-1 characters
        out = b''
        for v in values:
            raw = v.encode('iso-8859-1')
            if len(raw) > 255:
                raise struct.error('an SSTRING holds at most 255 characters')
            out += bytes([len(raw)]) + raw
        return out
    return b''.join(struct.pack(TYPE_FMT[typ], v) for v in values)


def write_tag(name, element, typ, values, elements=None):
    return bytes([0x4d]) + tag_path(name, element) + struct.pack('<HH', typ, len(values) if elements is None else elements) + typed(typ, values)


def write_frag(name, element, typ, elements, offset, values):
    return bytes([0x53]) + tag_path(name, element) + struct.pack('<HHI', typ, elements, offset) + typed(typ, values)


def multiple(requests, path=(('class', 2), ('instance', 1))):
    n = len(requests)
    out = bytes([0x0a]) + epath(list(path)) + struct.pack('<H', n)
    off = 2 + 2 * n
    for r in requests:
        out += struct.pack('<H', off)
        off += len(r)
    return out + b''.join(requests)


def unconnected_send(request, route_path=(('port', 1, 0),), priority=5, ticks=157):
    """0x52 to the Connection Manager @6/1 carrying `request` and a padded route path"""
    out = bytes([0x52]) + epath([('class', 6), ('instance', 1)]) + bytes([priority, ticks]) + struct.pack('<H', len(request)) + pad_even(request)
    return out + epath(list(route_path), padded=True)


def cpf(items):
    out = struct.pack('<H', len(items))
    for typ, data in items:
        out += struct.pack('<HH', typ, len(data)) + data
    return out


def send_rr_data(cip, session, context=b'\x00' * 8, timeout=5, route=True, route_path=(('port', 1, 0),)):
    body = unconnected_send(cip, route_path=route_path) if route else cip
    payload = struct.pack('<IH', 0, timeout) + cpf([(0, b''), (0xb2, body)])
    return enip_frame(0x6f, payload, session=session, context=context)


def split_frames(buf):
    out = []
    while len(buf) >= 24:
        ln = struct.unpack('<H', buf[2:4])[0]
        if len(buf) < 24 + ln:
            break
        out.append(buf[:24 + ln])
        buf = buf[24 + ln:]
    return out, buf


def reply_cip(frame):
    """(command, session, status, context, cip reply bytes) of a SendRRData reply frame"""
    cmd, ln, sess, st = struct.unpack('<HHII', frame[:12])
    ctx = frame[12:20]
    body = frame[24:]
    cip = None
    if cmd == 0x6f and len(body) >= 16:
        cnt = struct.unpack('<H', body[6:8])[0]
        pos = 8
        for _ in range(cnt):
            t, l = struct.unpack('<HH', body[pos:pos + 4])
            if t in (0xb2, 0xb1):
                cip = body[pos + 4: pos + 4 + l]
            pos += 4 + l
    return cmd, sess, st, ctx, cip
