"""C07 — a Multiple Service Packet is equivalent to its requests issued one by one.

P: Message_Router.produce (request and reply form): count N, offset table 2+2N+sum of the previous
   message lengths, then the messages in order (loop invariants over prefix sums);
   the offset/slice arithmetic of state_multiple_service's closure is the inverse of that table;
   Message_Router.request calls the target's request exactly once per member, in list order.
B: bundles vs singles on the real router.
"""
from .util import distinct_keys
import ast
import random

import z3

from pyvc.spec import Spec, Loop, Custom
from pyvc.vals import (IntV, BoolV, SeqV, ListV, OpaqueV, RefV, NONE, ConstV, USort, IntSeq, Unsupported, TupV)
from pyvc.pure import to_int, fresh
from pyvc.calls import pack_int

PROPERTY = 'C07'
LEVEL = 'proof'

F = "server/enip/device.py"

# ghost functions over the member list: M(i) the i-th member, ENC(m) its encoding, PS prefix sums of
# the encoded lengths, TAIL(a) = ENC(M(a)) ++ ... ++ ENC(M(N-1)), TAB(j) the first j table entries
N_ = z3.Int('_g_N')
M_ = z3.Function('M', z3.IntSort(), USort)
ENC_ = z3.Function('ENC', USort, IntSeq)
PS_ = z3.Function('PS', z3.IntSort(), z3.IntSort())
TAIL_ = z3.Function('TAIL', z3.IntSort(), IntSeq)
TAB_ = z3.Function('TAB', z3.IntSort(), IntSeq)


def u16(x):
    return pack_int('<H', x)[0]


def ghost_facts():
    i = z3.Int('gi')
    return [
        N_ >= 0, PS_(0) == 0, TAIL_(N_) == z3.Empty(IntSeq), TAB_(0) == z3.Empty(IntSeq),
        z3.ForAll([i], z3.Implies(z3.And(0 <= i, i < N_), PS_(i + 1) == PS_(i) + z3.Length(ENC_(M_(i))))),
        z3.ForAll([i], z3.Implies(z3.And(0 <= i, i < N_), TAIL_(i) == z3.Concat(ENC_(M_(i)), TAIL_(i + 1)))),
        z3.ForAll([i], z3.Implies(z3.And(0 <= i, i < N_), TAB_(i + 1) == z3.Concat(TAB_(i), u16(2 + 2 * N_ + PS_(i))))),
        z3.ForAll([i], z3.Implies(z3.And(0 <= i, i <= N_), z3.And(PS_(i) >= 0, z3.Length(TAIL_(i)) == PS_(N_) - PS_(i),
                                                                  z3.Length(TAB_(i)) == 2 * i))),
    ]


def members():
    return ListV(N_, lambda i: OpaqueV(M_(i), 'member'), tag='data.multiple.request')


def data_param(reply):
    def build(eng, name, st):
        st = st.clone()
        rid, mid = eng.new_id(), eng.new_id()
        st.heap[(mid, 'request')] = (z3.BoolVal(True), members())
        st.heap[(mid, '__closed__')] = True
        st.heap[(mid, '__keys__')] = ('request',)
        svc = 0x8A if reply else 0x0A
        top = {'service': (z3.BoolVal(True) if reply else z3.Bool('_g_service_given'), IntV(svc)),
               'multiple': (z3.BoolVal(True), RefV(mid, 'rec')),
               'path': (z3.Bool('_g_has_path'), OpaqueV(z3.Const('_g_path', USort), 'path'))}
        if reply:
            top['status'] = (z3.BoolVal(True), IntV(z3.Int('_g_status')))
        for k, pv in top.items():
            st.heap[(rid, k)] = pv
        st.heap[(rid, '__closed__')] = True
        st.heap[(rid, '__keys__')] = tuple(top.keys())
        st.pc.extend(ghost_facts())
        eng.init_vals['_g_N'] = IntV(N_)
        if reply:
            eng.init_vals['_g_status'] = IntV(z3.Int('_g_status'))
        return RefV(rid, 'rec'), st
    return build


def enc_of_member(text):
    def model(eng, st):
        r = st.loc['r']
        if not isinstance(r, OpaqueV):
            raise Unsupported('member is not opaque')
        return SeqV(ENC_(r.t), 'bytes')
    return model


def opaque_bytes(name):
    return lambda eng, st: SeqV(z3.Const(name, IntSeq), 'bytes')


FUNCS = {
    'PS': lambda pe, i: IntV(PS_(to_int(i))),
    'TAIL': lambda pe, i: SeqV(TAIL_(to_int(i)), 'bytes'),
    'TAB': lambda pe, i: SeqV(TAB_(to_int(i)), 'bytes'),
    'u16': lambda pe, x: SeqV(u16(to_int(x)), 'bytes'),
    'u8': lambda pe, x: SeqV(pack_int('B', to_int(x))[0], 'bytes'),
}

LOOP_BUILD = Loop(index='K', invariant=[
    ('count', 'len(offsets) == K'),
    ('offsets: entry j is the summed length of the members before it', 'forall(0, K, lambda j: offsets[j] == PS(_g_N - K + j) - PS(_g_N - K))'),
    ('data: the encoded members in order', 'DATA == TAIL(_g_N - K)'),
])
LOOP_TABLE = Loop(index='J', invariant=[
    ('table', 'result == HEAD + TAB(J)'),
])

EPATH_KEY = ("EPATH.produce(data.path if 'path' in data else dotdict(segment=[{'class': cls.class_id}, {'instance': 1}]))")


def produce_request_spec():
    inv_b = Loop(index='K', invariant=[(l, t.replace('DATA', 'reqdata')) for l, t in LOOP_BUILD.invariant])
    inv_t = Loop(index='J', invariant=[('table', 'result == u8(10) + _g_epath + u16(_g_N) + TAB(J)')])
    return Spec(
        'Message_Router.produce[request]', (F, 'Message_Router.produce'),
        params={'data': data_param(False), '_g_epath': 'Bytes'},
        requires='2 + 2 * _g_N + PS(_g_N) <= 65535',
        env={'cls.produce(r)': enc_of_member('r'), EPATH_KEY: '_g_epath'},
        loops={0: inv_b, 1: inv_t},
        ensures=[('layout: service, path, count N, offset table (2+2N+sum of previous lengths), members in order',
                  'result == u8(10) + _g_epath + u16(_g_N) + TAB(_g_N) + TAIL(0)')],
        raises={}, inline=['produce'], cls_name='Message_Router', replay=lambda m, o: replay_produce(m, o),
        hints=dict(funcs=FUNCS, functional_lists=True), modifies=['data.service'],
        note='request branch; members are opaque (their own produce() is the recursive call, modelled as ENC); '
             'EPATH.produce by assumed contract (opaque bytes; proved separately under C01)')


def produce_reply_spec():
    inv_b = Loop(index='K', invariant=[(l, t.replace('DATA', 'rpydata')) for l, t in LOOP_BUILD.invariant])
    inv_t = Loop(index='J', invariant=[('table', 'result == u8(138) + bytes_of(0) + _g_status_bytes + u16(_g_N) + TAB(J)')])
    return Spec(
        'Message_Router.produce[reply]', (F, 'Message_Router.produce'),
        params={'data': data_param(True), '_g_status_bytes': 'Bytes'},
        requires='2 + 2 * _g_N + PS(_g_N) <= 65535',
        env={"octets_encode(r.input) if 'input' in r else cls.produce(r)": enc_of_member('r'),
             'status.produce(data)': '_g_status_bytes'},
        loops={2: inv_b, 3: inv_t},
        ensures=[('layout: service, reserved, status, count N, offset table, member replies in order (status 0x00 / 0x1E)',
                  'implies(_g_status in (0x00, 0x1E), result == u8(138) + bytes_of(0) + _g_status_bytes + u16(_g_N) + TAB(_g_N) + TAIL(0))'),
                 ('error-status: no member data', 'implies(_g_status not in (0x00, 0x1E), result == u8(138) + bytes_of(0) + _g_status_bytes)')],
        raises={}, inline=['produce'], cls_name='Message_Router', replay=lambda m, o: replay_produce(m, o),
        hints=dict(funcs=FUNCS, functional_lists=True), modifies=['data.service'],
        note='reply branch; the member replies are the already produced .input of each member (or its produce()), modelled as ENC')




# ------------------------------------------------------------------------------------------------ Message_Router.request
IDX_ = z3.Function('IDX', USort, z3.IntSort())


def member_request(eng, recv, args, kw, st, n):
    """ASSUMED contract of the target's request() for a bundle member: never raises (proved for
    Logix.request under C05/C06: `noexc`), touches only its own request record and the addressed tag.
    The ghost effect records the call in the call log (the generator-output arrays of the caller)."""
    r = args[0]
    if not isinstance(r, OpaqueV):
        raise Unsupported('bundle member is not opaque')
    tid = recv.id if isinstance(recv, RefV) else -1
    st2 = eng.emit(st, TupV([IntV(IDX_(r.t)), IntV(tid)]), getattr(n, 'lineno', None))
    yield st2, BoolV(True)


def router_data(eng, name, st):
    st = st.clone()
    rid, mid = eng.new_id(), eng.new_id()
    st.heap[(mid, 'request')] = (z3.BoolVal(True), members())
    st.heap[(mid, '__closed__')] = True
    st.heap[(mid, '__keys__')] = ('request',)
    top = {'service': (z3.Bool('_g_service_given'), IntV(0x0A)),
           'multiple': (z3.BoolVal(True), RefV(mid, 'rec')),
           'path': (z3.Bool('_g_has_path'), OpaqueV(z3.Const('_g_path', USort), 'path')),
           'status_ext': (z3.Bool('_g_has_ext'), OpaqueV(z3.Const('_g_ext', USort), 'ext'))}
    for k, pv in top.items():
        st.heap[(rid, k)] = pv
    st.heap[(rid, '__closed__')] = True
    st.heap[(rid, '__keys__')] = tuple(top.keys())
    i = z3.Int('gi')
    st.pc.append(N_ >= 0)
    st.pc.append(z3.ForAll([i], IDX_(M_(i)) == i))
    eng.init_vals['_g_N'] = IntV(N_)
    eng.init_vals['_g_has_path'] = BoolV(z3.Bool('_g_has_path'))
    eng.tracked_refs.add(rid)
    return RefV(rid, 'rec'), st


RES_OK = z3.Bool('_g_resolves')
RES_C, RES_I, RES_A = z3.Int('_g_res_class'), z3.Int('_g_res_instance'), z3.Int('_g_res_attribute')
LOOKUP_ = z3.Function('lookup_object', z3.IntSort(), z3.IntSort(), z3.IntSort(), z3.IntSort())       # the object registered at (class, instance[, attribute]); 0 stands for None


def resolve_model(eng, recv, args, kw, st, n):
    """ASSUMED model of device.resolve(path): the (class, instance) the path denotes, or an exception for a path that denotes nothing"""
    from pyvc.vals import ExcV
    for s, ok in eng.fork(st, RES_OK):
        if ok:
            yield s, TupV([IntV(RES_C), IntV(RES_I)])
        else:
            yield s, ExcV('AssertionError', 'unresolvable path', getattr(n, 'lineno', None))


def lookup_model(eng, recv, args, kw, st, n):
    """ASSUMED model of device.lookup(class, instance): the registered object (an id), None when there is none"""
    from pyvc.vals import NONE
    from pyvc.pure import to_int
    if len(args) != 2:
        raise Unsupported('lookup with %d arguments' % len(args))
    obj = LOOKUP_(to_int(args[0]), to_int(args[1]), z3.IntVal(0))
    for s, found in eng.fork(st, obj != 0):
        yield s, (IntV(obj) if found else NONE)


def replay_route(model, obligation):
    """requests addressed to this Logix instance, to another instance of its class, to its class level and to other classes, through the real route()"""
    import cpppo
    from cpppo.server.enip import device
    from . import sim
    num = lambda c, i, a: {'segment': [cpppo.dotdict({'class': c}), cpppo.dotdict({'instance': i}), cpppo.dotdict({'attribute': a})]}
    lx = sim.fresh({'A': ('INT', 3), 'T2': ('INT', 2, num(2, 2, 1))})
    for c, i, a in ((2, 1, 1), (2, 2, 1), (2, 0, 2), (1, 1, 1), (2, 1, 99)):
        d = cpppo.dotdict(path=num(c, i, a))
        got = lx.route(d)
        mine = (c, i) == (lx.class_id, lx.instance_id)
        want = None if mine else device.lookup(c, i)
        if (got is None) != (want is None) or (got is not None and got is not want):
            return dict(confirmed=True, function='cpppo.server.enip.device.Message_Router.route', input='path @%d/%d/%d at the router %d/%d' % (c, i, a, lx.class_id, lx.instance_id),
                        observed='route() returns %r' % (got,), required='%r (None only for a request addressed to this very object)' % (want,))
    return dict(confirmed=False)


def route_spec():
    def data(eng, name, st):
        st = st.clone()
        rid = eng.new_id()
        st.heap[(rid, 'path')] = (z3.Bool('_g_has_path'), OpaqueV(z3.Const('_g_path', USort), 'path'))
        st.heap[(rid, '__closed__')] = True
        st.heap[(rid, '__keys__')] = ('path',)
        for nm, v in (('_g_resolves', BoolV(RES_OK)), ('_g_res_class', IntV(RES_C)), ('_g_res_instance', IntV(RES_I)), ('_g_res_attribute', IntV(RES_A)),
                      ('_g_has_path', BoolV(z3.Bool('_g_has_path')))):
            eng.init_vals[nm] = v
        return RefV(rid, 'rec'), st
    funcs = dict(FUNCS, registered=lambda pe, c, i: IntV(LOOKUP_(c.t, i.t, z3.IntVal(0))))
    MINE = '(_g_res_class == self.class_id and _g_res_instance == self.instance_id)'
    return Spec('Message_Router.route', (F, 'Message_Router.route'), params={'data': data, 'fail': ('Const', 0)}, fields={'class_id': 'Int', 'instance_id': 'Int'},
                cls_name='Message_Router',
                ensures=[('no path: the request is for this object', 'implies(not _g_has_path, result is None)'),
                         ('a path that denotes this very object (class AND instance): not routed', 'implies(_g_has_path and _g_resolves and %s, result is None)' % MINE),
                         ('any other object: the one registered at the address the path denotes (None when nothing is registered there)',
                          'implies(_g_has_path and _g_resolves and not %s, (result is None) == (registered(_g_res_class, _g_res_instance) == 0) and '
                          'implies(result is not None, result == registered(_g_res_class, _g_res_instance)))' % MINE),
                         ('a path that denotes nothing: False (with the default fail mode)', 'implies(_g_has_path and not _g_resolves, result == False)')],
                raises={}, modifies=[], callees={'resolve': resolve_model, 'lookup': lookup_model}, hints=dict(funcs=funcs), replay=replay_route,
                note='whole method with fail == ROUTE_FALSE (the default); device.resolve / device.lookup by assumed models (uninterpreted address and registry)')


def router_request_spec():
    route = Spec('route', (F, 'Message_Router.route'), params={'data': 'Opaque', 'fail': 'Opaque'},
                 raises={'AssertionError': 'not _g_route_ok'}, returns='None', hints=dict(raises_exact=True),
                 note='ASSUMED: route() returns None (this object is the target) or raises for an invalid path')
    return Spec(
        'Message_Router.request[bundle]', (F, 'Message_Router.request'),
        params={'data': router_data, '_g_route_ok': 'Bool'},
        env={'self.produce(data)': opaque_bytes('_g_produced')},
        callees={'route': route, 'request': member_request},
        yields=2,
        yield_ensures=[('in-order: the k-th call handles the k-th member', 'v[0] == NOUT'),
                       ('same-target: every member is handled by the one target object of the bundle', 'v[1] == tid(self)')],
        loops={0: Loop(index='K', invariant=[('log', 'NOUT == K')])},
        ensures=[('every member is handled exactly once, in list order', 'implies(data.status == 0x00, NOUT == _g_N)'),
                 ('bundle status 0x00 iff the target was found (no member failure can fail the bundle)',
                  '(data.status == 0x00) == (_g_route_ok or not _g_has_path)'),
                 ('reply-bit', 'data.service == 0x8A'), ('returns-true', 'result == True'),
                 ('one-reply-payload-produced', "has(data, 'input')")],
        raises={}, modifies=['data.service', 'data.status', 'data.status_ext', 'data.input'], replay=lambda m, o: replay_produce(m, o),
        hints=dict(funcs=dict(FUNCS, tid=lambda pe, o: IntV(o.id))),
        note='bundle branch (service 0x0A with .multiple); member request() by ASSUMED contract: never raises (that is the '
             '`noexc` obligation of Logix.request under C05/C06), ghost call log; route() returns None or raises')


def contracts(repo):
    from . import C05 as _C05
    from . import C12 as _C12
    # a member that fails is answered inside the bundle with its own failure status: no exception of a member's store escapes Logix.request
    return [produce_request_spec(), produce_reply_spec(), router_request_spec(), route_spec(), closure_spec(),
            Custom('lemma', split_lemma, note='induction behind the prefix/suffix split used by the closure contract'),
            Custom('status_after_store', _C05.status_after_store, replay=_C05.replay_status_order, targets=[('server/enip/logix.py', 'Logix.request')],
                   note='ordering condition on the AST of Logix.request (shared with C05): failure status before the range computation, no success status before the store'),
            Custom('collect_fresh', _C12.collect_fresh, replay=_C12.replay_collect, targets=[('server/enip/client.py', 'connector.collect')],
                   note='dataflow condition on the AST of connector.collect (shared with C12): the status and value a client yields for a member of a bundle come from that member alone')]


# ------------------------------------------------------------------------------------------------ closure (inverse of the table)
PRE_ = z3.Function('PRE', z3.IntSort(), IntSeq)
FUNCS2 = dict(FUNCS)
FUNCS2['MSG'] = lambda pe, i: SeqV(ENC_(M_(to_int(i))), 'bytes')
FUNCS2['PRE'] = lambda pe, i: SeqV(PRE_(to_int(i)), 'bytes')


def split_facts():
    i = z3.Int('gi')
    return ghost_facts() + [
        PRE_(0) == z3.Empty(IntSeq),
        z3.ForAll([i], z3.Implies(z3.And(0 <= i, i < N_), PRE_(i + 1) == z3.Concat(PRE_(i), ENC_(M_(i))))),
        z3.ForAll([i], z3.Implies(z3.And(0 <= i, i <= N_), z3.And(z3.Length(PRE_(i)) == PS_(i), TAIL_(0) == z3.Concat(PRE_(i), TAIL_(i))))),
    ]


def split_lemma(repo):
    """the fact `TAIL(0) == PRE(i) ++ TAIL(i), |PRE(i)| == PS(i)` used above is proved by induction
    from the definitions (so it is not an axiom)"""
    i = z3.Int('li')
    defs = ghost_facts() + [PRE_(0) == z3.Empty(IntSeq),
                            z3.ForAll([z3.Int('gi')], z3.Implies(z3.And(0 <= z3.Int('gi'), z3.Int('gi') < N_),
                                                                  PRE_(z3.Int('gi') + 1) == z3.Concat(PRE_(z3.Int('gi')), ENC_(M_(z3.Int('gi'))))))]
    ih = z3.And(z3.Length(PRE_(i)) == PS_(i), TAIL_(0) == z3.Concat(PRE_(i), TAIL_(i)))
    return [('split-base', defs, z3.And(z3.Length(PRE_(0)) == PS_(0), TAIL_(0) == z3.Concat(PRE_(0), TAIL_(0)))),
            ('split-step', defs + [0 <= i, i < N_, ih],
             z3.And(z3.Length(PRE_(i + 1)) == PS_(i + 1), TAIL_(0) == z3.Concat(PRE_(i + 1), TAIL_(i + 1))))]


def closure_fragment(eng, fdef):
    """the `for oi in range(len(offsets))` loop of the nested closure(), its body cut after
    `req.input = reqdata[beg:end]` (the parser run and request.append are dropped), followed by a
    ghost assertion that the slice is exactly the oi-th embedded message"""
    from pyvc.stmt import GhostAssert
    loops = [n for n in ast.walk(fdef) if isinstance(n, ast.For) and isinstance(n.target, ast.Name) and n.target.id == 'oi']
    if len(loops) != 1:
        raise Unsupported('stale contract: closure() has %d loops over `oi`' % len(loops))
    loop = loops[0]
    body = []
    for s in loop.body:
        body.append(s)
        if isinstance(s, ast.Assign) and ast.unparse(s.targets[0]) == 'req.input':
            break
    else:
        raise Unsupported('stale contract: closure() no longer assigns req.input')
    # proof steps (each one is itself an obligation, then available to the next)
    body.append(GhostAssert('step: prefix sums', 'len(PRE(oi)) == PS(oi) and len(MSG(oi)) == PS(oi + 1) - PS(oi) and len(reqdata) == PS(_g_N)', loop.lineno))
    body.append(GhostAssert('step: beg/end are the prefix sums', 'beg == PS(oi) and end == PS(oi + 1)', loop.lineno))
    body.append(GhostAssert('step: split of the request data', 'reqdata == PRE(oi) + MSG(oi) + TAIL(oi + 1)', loop.lineno))
    body.append(GhostAssert('slice oi is exactly the oi-th embedded message', 'req.input == MSG(oi)', loop.lineno))
    new = ast.For(target=loop.target, iter=loop.iter, body=body, orelse=[], lineno=loop.lineno, col_offset=loop.col_offset)
    eng.loop_nodes = [new]
    return [new]


def closure_spec():
    def offsets_sort(eng, name, st):
        return ListV(N_, lambda i: IntV(2 + 2 * N_ + PS_(i)), tag='flist'), st

    def reqdata_sort(eng, name, st):
        st = st.clone()
        st.pc.extend(split_facts())
        eng.init_vals['_g_N'] = IntV(N_)
        return SeqV(TAIL_(0), 'bytes'), st
    return Spec(
        'state_multiple_service.closure[slicing]', (F, 'state_multiple_service.terminate.closure'),
        params={}, fragment=closure_fragment,
        loops={0: Loop(index='K', invariant=['True'])},
        raises={}, ensures=[], replay=lambda m, o: replay_produce(m, o),
        hints=dict(funcs=FUNCS2, locals={'reqdata': reqdata_sort, 'offsets': offsets_sort}, functional_lists=True),
        note='FRAGMENT: only the offset/slice arithmetic of the loop body (through `req.input = reqdata[beg:end]`) for an offsets '
             'table of the produced form; the parser run on each slice, request.append and the dfa_post deferral are not verified (T9)')


# ------------------------------------------------------------------------------------------------ bounded tier / replay
LEVEL_TEXT = ('Deductive proof on the real code: Message_Router.produce (request and reply form) is proved, by loop invariants over prefix '
              'sums for any number of members of any encoded lengths, to emit count N, the offset table 2+2N+sum(previous lengths) and the '
              'members in order; the slicing arithmetic of the Multiple Service Packet parser closure is proved to be the inverse of that '
              'table (each slice is exactly the embedded message); Message_Router.request is proved to hand every member to the target '
              'exactly once, in list order, with a bundle status that no member can fail. With the member contract (Logix.request never '
              'raises, C05/C06) the member replies and tag state are those of the same calls issued singly. Bundles vs singles on the '
              'real router are compared only up to a bound (not counted).')
LEVEL_NOTE = ('ASSUMED: member request() never raises and touches only its record and the addressed tag (proved for Logix.request, not for '
              'every Object); route() -> None or raises; EPATH.produce/status.produce opaque here (C01). The closure contract is a FRAGMENT: '
              'the parser run per slice and dfa_post deferral are not verified. Client-side issue()/enip_replies unbundling: bounded only.')
TECHNIQUE = 'loop invariants over prefix-sum ghost functions on Message_Router.produce/request and the parser closure fragment, VCs from the real AST, z3/cvc5; bounded bundle-vs-singles comparison'
TRUSTED = ['status_after_store shared with C05: AST-decided ordering condition (sufficient, syntactic)', 'assumed member request() contract; route(); EPATH.produce / status.produce as opaque byte strings', 'T9 closure fragment']
ASSUMPTIONS = ['2 + 2N + total member length <= 65535 (UINT offsets)', 'single thread']


def member_pool(rng):
    import cpppo
    from . import sim
    pool = []
    for name, n in (('A', 6), ('BB', 4), ('Nope', 1)):
        for idx in (0, 1, n - 1, n):
            for elm in (1, 2, n + 1):
                pool.append(lambda name=name, idx=idx, elm=elm: cpppo.dotdict(service=0x4c, path=sim.sympath(name, idx), read_tag={'elements': elm}))
                pool.append(lambda name=name, idx=idx, elm=elm: cpppo.dotdict(service=0x52, path=sim.sympath(name, idx), read_frag={'elements': elm, 'offset': 0}))
                pool.append(lambda name=name, idx=idx, elm=elm: cpppo.dotdict(
                    service=0x4d, path=sim.sympath(name, idx), write_tag={'elements': elm, 'type': 0xc3, 'data': [idx * 10 + j for j in range(elm)]}))
    pool.append(lambda: cpppo.dotdict(service=0x4d, path=sim.sympath('A', 0), write_tag={'elements': 1, 'type': 0xc4, 'data': [70000]}))
    num = lambda c, i, a: {'segment': [cpppo.dotdict({'class': c}), cpppo.dotdict({'instance': i}), cpppo.dotdict({'attribute': a})]}
    # a member that still carries bytes rendered earlier for something else in `.input` (as client.service_code leaves them): a request is
    # encoded from its fields
    pool.append(lambda: cpppo.dotdict(service=0x4c, path=sim.sympath('A', 0), read_tag={'elements': 1}, input=bytearray(b'\x00\x01')))
    pool.append(lambda: cpppo.dotdict(service=0x4d, path=sim.sympath('BB', 1), write_tag={'elements': 1, 'type': 0xc3, 'data': [77]}, input=bytearray()))
    # (class 2 instance 0 is the class-level instance of the Logix object class: not the instance that holds the tags)
    for c, i, a in ((1, 1, 3), (2, 1, 1), (2, 1, 2), (1, 1, 7), (0x66, 1, 1), (2, 0, 1), (2, 0, 2), (2, 0, 4), (2, 1, 4)):
        pool.append(lambda c=c, i=i, a=a: cpppo.dotdict(service=0x0e, path=num(c, i, a), get_attribute_single=True))
    # writes whose store itself cannot succeed (computed / read-only class-level attributes of the Logix object class, an attribute that does not exist): an error reply,
    # like on their own, and the members after them still run
    for c, i, a in ((2, 0, 2), (2, 0, 1), (2, 0, 4), (2, 1, 9)):
        pool.append(lambda c=c, i=i, a=a: cpppo.dotdict(service=0x4d, path=num(c, i, a), write_tag={'elements': 1, 'type': 0xc3, 'data': [5]}))
        pool.append(lambda c=c, i=i, a=a: cpppo.dotdict(service=0x53, path=num(c, i, a), write_frag={'elements': 1, 'offset': 0, 'type': 0xc3, 'data': [5]}))
    return pool


def reply_view(d):
    out = dict(service=d.get('service'), status=d.get('status'))
    ext = d.get('status_ext')
    out['status_ext'] = list(ext.get('data', [])) if ext else None
    for ctx in ('read_tag', 'read_frag', 'write_tag', 'write_frag'):
        if ctx in d and d.get('status') in (0, 6) and ctx.startswith('read'):
            out['type'] = d[ctx].get('type')
            out['data'] = list(d[ctx].get('data', []))
    out['input'] = bytes(d.get('input', b''))
    return out


def produce_oracle(members_enc, path=b'\x02\x20\x02\x24\x01'):
    import struct
    n = len(members_enc)
    out = b'\x0a' + path + struct.pack('<H', n)
    off = 2 + 2 * n
    for m in members_enc:
        out += struct.pack('<H', off)
        off += len(m)
    return out + b''.join(members_enc)


def check_produce(makers):
    import cpppo
    from cpppo.server.enip import logix
    mem = [mk() for mk in makers]
    enc = [bytes(logix.Logix.produce(mk())) for mk in makers]
    got = bytes(logix.Logix.produce(cpppo.dotdict(multiple={'request': mem})))
    want = produce_oracle(enc)
    if got != want:
        return 'bundle bytes %r differ from the layout %r' % (got, want)
    return None


def dispatch_single(lx, d):
    """a request sent on its own goes to the object its path addresses (as Connection_Manager.request does: lookup(*resolve(path))); a path that
    does not resolve is handed to the Logix object, which answers it with its error status"""
    from cpppo.server.enip import device
    try:
        target = device.lookup(*device.resolve(d.path))
    except Exception:
        target = None
    (target or lx).request(d)


def check_bundle_vs_singles(makers):
    import cpppo
    from . import sim
    cfg = {'A': ('INT', 6), 'BB': ('INT', 4)}
    lx = sim.fresh(cfg, max_bytes=6)
    sim.write_tag(lx, 'A', 0, 6, 0xc3, [1, 2, 3, 4, 5, 6])
    singles = []
    for mk in makers:
        d = mk()
        dispatch_single(lx, d)
        singles.append(reply_view(d))
    state1 = dict((k, sim.tag_values(k)) for k in cfg)
    lx = sim.fresh(cfg, max_bytes=6)
    sim.write_tag(lx, 'A', 0, 6, 0xc3, [1, 2, 3, 4, 5, 6])
    b = cpppo.dotdict(service=0x0A, multiple={'request': [mk() for mk in makers]})
    lx.request(b)
    bundled = [reply_view(m) for m in b.multiple.request]
    state2 = dict((k, sim.tag_values(k)) for k in cfg)
    if b.status != 0:
        return 'bundle status %r' % b.status
    if bundled != singles:
        return 'member replies differ: bundled %r singles %r' % (bundled, singles)
    if state1 != state2:
        return 'tag state differs: bundled %r singles %r' % (state2, state1)
    # the bundle reply frame locates every member reply
    import struct
    raw = bytes(b.input)
    n = struct.unpack('<H', raw[4:6])[0]
    offs = [struct.unpack('<H', raw[6 + 2 * i: 8 + 2 * i])[0] for i in range(n)]
    body = raw[4:]
    parts = [body[o: (offs[i + 1] if i + 1 < n else len(body))] for i, o in enumerate(offs)]
    if n != len(makers) or parts != [s['input'] for s in singles]:
        return 'reply offset table does not locate the member replies: %r' % (parts,)
    return None


def check_bundle_on_the_wire(makers):
    """the same comparison with the bundle travelling as bytes: produced frame -> the real parser (the closure that slices the members out by
    the offset table) -> request -> the reply frame -> the real parser -> member replies; the references are the members sent one by one"""
    import cpppo
    from . import sim
    from cpppo.server.enip import logix
    if not makers:
        return None
    cfg = {'A': ('INT', 6), 'BB': ('INT', 4)}
    lx = sim.fresh(cfg, max_bytes=6)
    sim.write_tag(lx, 'A', 0, 6, 0xc3, [1, 2, 3, 4, 5, 6])
    singles = []
    for mk in makers:
        d = mk()
        dispatch_single(lx, d)
        singles.append((d.get('service'), d.get('status'), bytes(d.get('input', b''))))
    state1 = dict((k, sim.tag_values(k)) for k in cfg)
    lx = sim.fresh(cfg, max_bytes=6)
    sim.write_tag(lx, 'A', 0, 6, 0xc3, [1, 2, 3, 4, 5, 6])
    raw = bytes(logix.Logix.produce(cpppo.dotdict(service=0x0A, path={'segment': [{'class': 2}, {'instance': 1}]}, multiple={'request': [mk() for mk in makers]})))
    b = sim._parse_cip(raw)
    if len(b.multiple.request) != len(makers):
        return 'the parsed bundle holds %d requests, %d were encoded' % (len(b.multiple.request), len(makers))
    lx.request(b)
    r = sim._parse_cip(b.input)
    state2 = dict((k, sim.tag_values(k)) for k in cfg)
    if r.status != 0 or 'multiple' not in r:
        return 'bundle reply status %r' % r.status
    got = [(m.get('service'), m.get('status'), bytes(m.get('input', b''))) for m in r.multiple.request]
    if [g[:2] for g in got] != [x[:2] for x in singles]:
        return 'member replies (service, status) differ: bundled %r singles %r' % ([g[:2] for g in got], [x[:2] for x in singles])
    if state1 != state2:
        return 'tag state differs: bundled %r singles %r' % (state2, state1)
    return None


def e2e_bundle_vs_singles(ops):
    from . import netsim
    from cpppo.server.enip import client
    results = {}
    for mode, multiple in (('single', 0), ('bundled', 250)):
        out = []
        with netsim.Server({'A': ('INT', 10)}) as srv:
            try:
                with client.connector(host='127.0.0.1', port=srv.port, timeout=3.0) as conn:
                    for idx, dsc, op, rpy, sts, val in conn.pipeline(operations=client.parse_operations(ops), depth=1,
                                                                     multiple=multiple, timeout=3.0):
                        out.append((sts if not isinstance(sts, tuple) else sts[0], val))
            except Exception as e:
                out.append(('session ended', type(e).__name__, str(e)[:80]))
        results[mode] = out
    if results['single'] != results['bundled']:
        return 'single: %r  bundled: %r' % (results['single'], results['bundled'])
    return None


def bounded(tier, seed):
    rng = random.Random(seed)
    pool = member_pool(rng)
    ev = 0
    distinct = set()
    violations = []
    samples = []
    combos = [[]] + [[i] for i in range(len(pool))]
    count = 150 if tier == 'quick' else 1500
    for _ in range(count):
        k = rng.choice([2, 2, 3, 3, 4])
        combos.append([rng.randrange(len(pool)) for _ in range(k)])
    for combo in combos:
        if len(violations) >= 5:
            break
        makers = [pool[i] for i in combo]
        ev += 2
        for what, fn in (('produce', check_produce), ('bundle-vs-singles', check_bundle_vs_singles), ('bundle on the wire', check_bundle_on_the_wire)):
            if what == 'bundle-vs-singles' and not makers:
                continue
            try:
                bad = fn(makers)
            except Exception as e:
                bad = 'raised %s: %s' % (type(e).__name__, e)
            if bad:
                violations.append(dict(key='%s members=%r' % (what, combo), observed=bad[:500], required='bundle == its members one by one'))
        if len(combo) >= 2:
            distinct.add(tuple(combo))
        if len(samples) < 5 and len(combo) == 3:
            samples.append(dict(members=[repr(dict(pool[i]()))[:80] for i in combo]))
    # end to end through the real server and client: the same operations bundled and singly
    for ops in (['A[0-2]', 'A[1]=5', 'A[1]'], ['A[0]', 'Nope', 'A[1]'], ['A[0-2]', 'A[8-12]', 'A[1]', 'A[3]=(DINT)1', 'A[9]']):
        ev += 1
        try:
            bad = e2e_bundle_vs_singles(ops)
        except Exception as e:
            bad = 'raised %s: %s' % (type(e).__name__, e)
        distinct.add(('e2e',) + tuple(ops))
        if bad:
            violations.append(dict(key='e2e %s' % ' '.join(ops), observed=bad[:500],
                                   required='the client sees the same status and value per operation bundled or singly'))
    # client side: a bundle never mixes operations with different route / send paths (connector.issue)
    from . import C12

    def viol(key, obs, req):
        violations.append(dict(key=key, observed=str(obs)[:400], required=req))
    ev += C12.route_mix(rng, {'A': ('INT', 10), 'B': ('DINT', 6), 'S': ('SINT', 4)}, 3 if tier == 'quick' else 15, viol, distinct)
    return dict(evaluations=ev, distinct_nontrivial=len(distinct), distinct_keys=distinct_keys(distinct),
                rule='bundles of 0..4 members drawn from a pool of %d Read/Write Tag [Fragmented] requests (valid, out of range, unknown tag, '
                     'wrong type) on two INT tags with MAX_BYTES=6: (a) produced bundle bytes vs the layout table with the members encoded singly, '
                     '(b) member replies (status, ext status, type, data, bytes) and final tag state vs the same requests issued singly from the '
                     'same state, (c) the reply offset table locates every member reply; distinct = distinct member index lists of length >= 2' % len(pool),
                exhaustive=False, samples=samples, violations=violations[:20], seed=seed)


def replay_produce(model, obligation):
    rng = random.Random(1)
    pool = member_pool(rng)
    for combo in [[0], [0, 5], [3, 1, 8], [2, 2, 7, 11], [40, 3], [-5, -4, 0], [-5, 2, 5], [-2, -4, -3]]:
        makers = [pool[i % len(pool)] for i in combo]
        for fn in (check_produce, check_bundle_vs_singles):
            try:
                bad = fn(makers)
            except Exception as e:
                bad = 'raised %s: %s' % (type(e).__name__, e)
            if bad:
                return dict(confirmed=True, function='Message_Router.produce / request', input=dict(member_indices=combo),
                            observed=bad[:600], required='bundle == its members one by one; offsets 2+2N+sum(previous lengths)')
    return dict(confirmed=False, note='no failing bundle among the replay candidates')
