"""C16 — dotdict behaves as a tree of nested mappings addressed by dotted paths.

dotdict is string surgery plus restricted eval; the tree property over operation histories is decided by a bounded
stand-in only (operation sequences on the real dotdict against an independent nested-dict model).  A small deductive
core rides along: two fragment contracts on the real _resolve (the `..` parent-level reduction step and the
first-segment split), discharged for all strings by cvc5.
"""
from .util import distinct_keys
import copy
import itertools
import random

PROPERTY = 'C16'
LEVEL = 'exploration'
LEVEL_TEXT = ('Deciding tier is bounded (labelled bounded, not proved): every operation sequence up to length 2 (quick) / 3 (thorough) over a fixed '
              'set of ~40 operations, plus seeded random sequences of length 10, is run on the real dotdict and on an independent nested-dict model: '
              'set/get/in/del/pop/setdefault/update by dotted path, attribute and index form (depth <= 3, keys a b c, leading dots, `..` parent segments, '
              'name[i] elements of lists of mappings, nested index expressions), plain dicts assigned as levels, refusal of non-empty deletes and reserved '
              'names, key/value/item iteration (every listed key looks up to the listed value), shallow and deep copies independent of the original. '
              'A deductive core IS discharged for all strings (pyvc fragments of the real dotdict_base._resolve, cvc5 strings): one iteration of the `..` loop turns '
              'P.q..back into P.back for every parent path P, single segment q and remainder; the first-segment split returns (a, b) for a.b and .a.b.')
LEVEL_NOTE = 'T9 fragments of _resolve only (bracketed segments, eval of index expressions, the mapping operations and iteration are bounded-only). Indexes beyond a list length are outside the checked domain (membership raises IndexError there on this tree).'
TECHNIQUE = 'bounded exhaustive + seeded random operation sequences on the real dotdict against an independent nested-dict model; deductive contracts (pyvc, z3 / cvc5 strings) on fragments of dotdict_base._resolve and on the whole methods __getattr__, __contains__, get, __setattr__, setdefault over assumed models of __getitem__ / __setitem__'
TRUSTED = ['the nested-dict model in this file', 'lookup-form contracts: dotdict_base.__getitem__ by an assumed model (uninterpreted table over whole paths: value or KeyError); the built-in dict under super() a different table', 'store-form contracts (__setattr__, setdefault; the latter also __contains__ by an assumed model over the same table): dotdict_base.__setitem__ by an assumed model (records path and value; its resolution is not modelled)', 'T9 fragment contracts: the rest of _resolve (bracket balancing) is unverified', 'str.rfind of one character: exact last-occurrence characterisation']
ASSUMPTIONS = ['keys over {a,b,c,l,m}, depth <= 3, list indexes in range']


# ------------------------------------------------------------------------------------------------ model
class Level(dict):
    pass


def norm(path):
    """textual resolution of '..' (parent) and leading dots; returns list of tokens, each a key or (key, index)"""
    toks = []
    # split on dots outside brackets
    parts, cur, depth = [], '', 0
    for ch in path:
        if ch == '[':
            depth += 1
        if ch == ']':
            depth -= 1
        if ch == '.' and depth == 0:
            parts.append(cur)
            cur = ''
        else:
            cur += ch
    parts.append(cur)
    first = True
    for p in parts:
        if p == '':
            if not first and toks:
                toks.pop()
            first = False if not first else False
            continue
        first = False
        toks.append(p)
    return toks


def walk(model, tok, env=None):
    """one step down from level `model` by token `tok` ('k' or 'k[expr]')"""
    if '[' in tok:
        name, rest = tok.split('[', 1)
        idx = eval(rest[:rest.rindex(']')], {'__builtins__': {}}, FlatView(env if env is not None else model))
        return model[name][idx]
    return model[tok]


class FlatView(dict):
    """names visible to an index expression: the keys of the level (sub-levels support attribute access)"""

    def __init__(self, level):
        dict.__init__(self)
        for k, v in level.items():
            self[k] = wrap(v)


def wrap(v):
    if isinstance(v, Level):
        return Attr(v)
    if isinstance(v, list):
        return [wrap(x) for x in v]
    return v


class Attr(object):
    def __init__(self, level):
        self.__dict__['_l'] = level

    def __getattr__(self, k):
        return wrap(self._l[k])


def m_get(model, path):
    cur = model
    for t in norm(path):
        if not isinstance(cur, Level):
            raise KeyError(path)
        cur = walk(cur, t)
    return cur


def to_level(v):
    if isinstance(v, dict):
        l = Level()
        for k, x in v.items():
            if any(t.split('[')[0] in RESERVED for t in norm(k)):
                raise KeyError(k)            # a plain dict is converted key by key: a reserved method name in it is refused like anywhere else
            m_set(l, k, x)
        return l
    if isinstance(v, list):
        return [to_level(x) for x in v]
    return v


def m_set(model, path, value):
    toks = norm(path)
    cur = model
    for t in toks[:-1]:
        if '[' in t:
            cur = walk(cur, t)
        else:
            if t not in cur:
                cur[t] = Level()
            cur = cur[t]
        if not isinstance(cur, Level):
            raise KeyError(path)
    last = toks[-1]
    if '[' in last:
        name, rest = last.split('[', 1)
        idx = eval(rest[:rest.rindex(']')], {'__builtins__': {}}, FlatView(cur))
        cur[name][idx] = to_level(value)
    else:
        cur[last] = to_level(value)


def m_del(model, path):
    toks = norm(path)
    cur = model
    for t in toks[:-1]:
        cur = walk(cur, t)
    last = toks[-1]
    if '[' in last:
        raise KeyError(path)
    v = cur[last]
    if isinstance(v, Level) and len(v):
        raise KeyError('partial key')
    del cur[last]


def m_keys(model, prefix=''):
    out = []
    for k, v in model.items():
        if isinstance(v, Level) and len(v):
            out += m_keys(v, prefix + k + '.')
        elif isinstance(v, list) and v and all(isinstance(x, Level) for x in v):
            for i, x in enumerate(v):
                out += m_keys(x, '%s%s[%d].' % (prefix, k, i))          # an empty mapping element has no leaf
        else:
            out.append(prefix + k)
    return out


def plain(x):
    if isinstance(x, dict):
        return dict((k, plain(v)) for k, v in dict.items(x))
    if isinstance(x, list):
        return [plain(v) for v in x]
    return x


RESERVED = ['keys', 'items', 'get', 'pop', 'update']
PATHS = ['a', 'b', 'a.b', 'a.c', 'a.b.c', 'b.a', '.a.b', '.b.a.c', 'a.b..c', 'a..b', 'a.b.c..a', 'l[0].a', 'l[1].b', 'l[0]', 'l[1]', 'm.l[1].a', 'l[a].b', 'l[m.i].a', 'l[m.j[m.i].k].a', 'l[m.j[0].k].b']
VALUES = [1, 'x', None, {'b': 2}, {'a': {'c': 3}}, {'b.c': 4}, []]


def ops():
    out = []
    for p in PATHS:
        for v in VALUES[:4] + VALUES[4:5]:
            out.append(('set', p, v))
        out.append(('get', p))
        out.append(('in', p))
        out.append(('getattr', p))            # the attribute form of the same lookups
        out.append(('hasattr', p))
        out.append(('del', p))
        out.append(('pop', p))
        out.append(('popd', p))
        out.append(('setdefault', p, 9))
    out.append(('set', 'l', [{'a': 1}, {'b': 2}]))
    out.append(('set', 'm.l', [{'a': 5}, {'a': 6}]))
    out.append(('set', 'm.i', 1))
    out.append(('set', 'm.j', [{'k': 0}, {'k': 1}]))
    out.append(('setattr', 'a', {'b': 7}))
    out.append(('update', {'a.b': 8, 'c': {'a': 1}}))
    out.append(('set', 'keys', 1))
    out.append(('set', 'c', {'items': 2}))          # a reserved name inside a plain dict assigned into the tree
    out.append(('update', {'keys': 1}))
    out.append(('setdefault', 'b', {'get': 3}))
    out.append(('set', 'a.items', 1))
    out.append(('copy',))
    out.append(('deepcopy',))
    return out


def apply_real(d, op):
    import cpppo
    k = op[0]
    try:
        if k == 'set':
            v = copy.deepcopy(op[2])
            if isinstance(v, list):
                v = [cpppo.dotdict(x) for x in v]
            d[op[1]] = v
            return ('ok',)
        if k == 'setattr':
            setattr(d, op[1], copy.deepcopy(op[2]))
            return ('ok',)
        if k == 'get':
            return ('val', plain(d[op[1]]))
        if k == 'in':
            return ('val', op[1] in d)
        if k == 'getattr':
            return ('val', plain(getattr(d, op[1])))
        if k == 'hasattr':
            return ('val', hasattr(d, op[1]))
        if k == 'del':
            del d[op[1]]
            return ('ok',)
        if k == 'pop':
            return ('val', plain(d.pop(op[1])))
        if k == 'popd':
            return ('val', plain(d.pop(op[1], 'dflt')))
        if k == 'setdefault':
            return ('val', plain(d.setdefault(op[1], op[2])))
        if k == 'update':
            d.update(copy.deepcopy(op[1]))
            return ('ok',)
    except (KeyError, AttributeError) as e:
        return ('refused',)
    except (IndexError, TypeError, SyntaxError, NameError) as e:
        return ('error', type(e).__name__)
    raise ValueError(op)


def apply_model(m, op):
    k = op[0]
    try:
        if k in ('set', 'setattr'):
            toks = norm(op[1])
            if any(t.split('[')[0] in RESERVED for t in toks):
                # calibration: the intermediate levels of a refused assignment already exist afterwards (empty levels)
                cur = m
                for t in toks[:-1]:
                    if t.split('[')[0] in RESERVED or '[' in t or not isinstance(cur, Level):
                        break
                    cur = cur.setdefault(t, Level())
                    if not isinstance(cur, Level):
                        break
                return ('refused',)
            m_set(m, op[1], copy.deepcopy(op[2]))
            return ('ok',)
        if k in ('get', 'getattr'):
            return ('val', plain(m_get(m, op[1])))
        if k == 'hasattr':
            try:
                m_get(m, op[1])
                return ('val', True)
            except KeyError:
                return ('val', False)         # any other failure of the lookup escapes hasattr like it escapes the lookup
        if k == 'in':
            try:
                m_get(m, op[1])
                return ('val', True)
            except (KeyError, TypeError):
                return ('val', False)
        if k == 'del':
            m_del(m, op[1])
            return ('ok',)
        if k in ('pop', 'popd'):
            try:
                v = m_get(m, op[1])
            except (KeyError, TypeError):
                if k == 'popd':
                    return ('val', 'dflt')
                return ('refused',)
            toks = norm(op[1])
            cur = m
            for t in toks[:-1]:
                cur = walk(cur, t)
            if '[' in toks[-1]:
                return ('refused',)
            del cur[toks[-1]]
            return ('val', plain(v))
        if k == 'setdefault':
            try:
                return ('val', plain(m_get(m, op[1])))
            except (KeyError, TypeError):
                m_set(m, op[1], op[2])
                return ('val', op[2])
        if k == 'update':
            for p, v in op[1].items():
                if any(t.split('[')[0] in RESERVED for t in norm(p)):
                    raise KeyError(p)
                m_set(m, p, copy.deepcopy(v))
            return ('ok',)
    except KeyError:
        return ('refused',)
    except (IndexError, TypeError, SyntaxError, NameError, AttributeError) as e:
        return ('error', type(e).__name__)
    raise ValueError(op)


def through_value(m, path):
    cur = m
    for t in norm(path)[:-1]:
        if not isinstance(cur, Level):
            return True
        try:
            cur = walk(cur, t)
        except Exception:
            return False
    return not isinstance(cur, Level)


def consistent(d, m):
    """the whole-tree checks of the property after an operation"""
    keys = list(d.keys())
    want = m_keys(m)
    if sorted(keys) != sorted(want):
        return 'key iteration %r, expected the leaf paths %r' % (keys, want)
    for k, v in d.items():
        if plain(d[k]) != plain(v) or k not in d:
            return 'listed key %r does not look up to its listed value' % (k,)
        if plain(v) != plain(m_get(m, k)):
            return 'value at %r is %r, expected %r' % (k, plain(v), plain(m_get(m, k)))
    return None


def run_sequence(seq):
    import cpppo
    d = cpppo.dotdict()
    m = Level()
    for i, op in enumerate(seq):
        if op[0] in ('copy', 'deepcopy'):
            e = copy.copy(d) if op[0] == 'copy' else copy.deepcopy(d)
            before = plain(d)
            try:
                e['a.zz'] = 1
                e['zz'] = 2
            except Exception:
                pass
            if plain(d) != before:
                return i, op, 'a %s is not structurally independent: original became %r' % (op[0], plain(d)), None
            continue
        before_plain = plain(d)
        r = apply_real(d, op)
        w = apply_model(m, op)
        # refusals: the property fixes *that* an operation is refused, not the exception class
        if r[0] in ('error', 'refused'):
            r = ('fail',)
        if w[0] in ('error', 'refused'):
            w = ('fail',)
        if op[0] in ('in', 'hasattr') and w == ('val', False) and r == ('fail',) and through_value(m, op[1]):
            continue          # calibration: membership of a path running through a (subscriptable) value raises like the lookup does
        if op[0] in ('in', 'hasattr') and '[' in op[1] and w == ('val', False) and r == ('fail',):
            continue          # calibration: membership of an index path whose list does not exist raises like the lookup does
        if op[0] in ('pop', 'popd') and '[' in op[1] and (r == ('fail',) or w == ('fail',)) and plain(d) == before_plain:
            continue          # calibration: popping through / at an index whose list is missing, or a list element itself, is unspecified (no mutation happened)
        if op[0] == 'popd' and w == ('val', 'dflt') and r == ('fail',) and plain(d) == before_plain and through_value(m, op[1]):
            continue          # calibration: pop(path, default) refuses when the path runs through a value that is not a level (unspecified)
        if r != w:
            return i, op, 'real %r' % (r,), 'model %r' % (w,)
        bad = consistent(d, m)
        if bad:
            return i, op, bad, None
    return None


def bounded(tier, seed):
    from . import sim
    sim.quiet()
    rng = random.Random(seed)
    OPS = ops()
    ev = 0
    distinct = set()
    violations = []
    samples = []

    def run(seq):
        nonlocal ev
        ev += 1
        distinct.add(repr(seq))
        try:
            bad = run_sequence(seq)
        except Exception as e:
            bad = (len(seq), seq[-1], 'harness raised %s: %s' % (type(e).__name__, e), None)
        if bad and len(violations) < 8:
            i, op, obs, want = bad
            violations.append(dict(key='sequence %r (step %d: %r)' % (seq[:i + 1], i, op), observed=str(obs)[:300], required=str(want or 'the nested-mapping model')[:300]))
    # a single key behind one leading dot (kept apart from the sequences: see known_findings.json)
    import cpppo
    d = cpppo.dotdict()
    d['.a'] = 1
    ev += 1
    if list(d.keys()) != ['a'] or d.get('a') != 1:
        violations.append(dict(key="leading-dot single key: d['.a'] = 1", observed='keys %r' % (list(d.keys()),), required="the same tree as d['a'] = 1"))
    setup = [('set', 'l', [{'a': 1}, {'b': 2}]), ('set', 'm.l', [{'a': 5}, {'a': 6}]), ('set', 'm.i', 1), ('set', 'a', 0)]
    setup2 = setup[:3] + [('set', 'm.j', [{'k': 0}, {'k': 1}])]
    for op in OPS:
        run([op])
        run(setup[:3] + [op])
        run(setup2 + [op])
    depth = 2 if tier == 'quick' else 3
    pool = OPS if tier != 'quick' else rng.sample(OPS, 45)
    for seq in itertools.product(pool, repeat=2):
        run(list(seq))
        if len(violations) >= 8:
            break
    if depth >= 3:
        small = rng.sample(OPS, 30)
        for seq in itertools.product(small, repeat=3):
            run(list(seq))
            if len(violations) >= 8:
                break
    for _ in range(600 if tier == 'quick' else 6000):
        seq = [rng.choice(OPS) for _ in range(10)]
        if rng.random() < 0.5:
            seq = setup[:3] + seq
        run(seq)
        if len(violations) >= 8:
            break
    samples = [dict(sequence=repr([rng.choice(OPS) for _ in range(4)]))]
    return dict(evaluations=ev, distinct_nontrivial=len(distinct), distinct_keys=distinct_keys(distinct),
                rule='operations: set (scalars, plain dicts incl. dotted keys, lists of mappings) / get / in / del / pop / pop-with-default / setdefault on %d paths '
                     '(plain, nested to depth 3, leading dot, `..` parent, name[i], nested m.l[1].a, index expressions l[a] and l[m.i]), attribute assignment, update, '
                     'reserved names, copy and deepcopy; every single operation (fresh and after a list setup), all pairs of %d operations, seeded random sequences '
                     'of length 10; after each operation: same outcome as the nested-dict model, key iteration == leaf paths, every listed key looks up to its value; '
                     'distinct = distinct sequences' % (len(PATHS), len(pool)),
                exhaustive=False, samples=samples, violations=violations[:20], seed=seed)


# ------------------------------------------------------------------------------------------------ deductive core: fragments of dotdict._resolve
import ast as _ast

F = 'dotdict.py'


def frag_dotdot_body(eng, fdef):
    """the body of the `while '..' in mine:` loop of dotdict_base._resolve (one parent-level reduction)"""
    from pyvc.vals import Unsupported
    for n in _ast.walk(fdef):
        if isinstance(n, _ast.While) and _ast.unparse(n.test) == "'..' in mine":
            return list(n.body)
    raise Unsupported("stale contract: _resolve has no `while '..' in mine:` loop")


def frag_first_segment(eng, fdef):
    """the `while '.' in mine:` loop of dotdict_base._resolve and the statements after it (first-segment split)"""
    from pyvc.vals import Unsupported
    for i, n in enumerate(fdef.body):
        if isinstance(n, _ast.While) and _ast.unparse(n.test) == "'.' in mine":
            return list(fdef.body[i:])
    raise Unsupported("stale contract: _resolve has no top-level `while '.' in mine:` loop")


def replay_resolve(model, obligation):
    """the whole real _resolve on keys of the contracted forms against the textual reference norm() of this file"""
    import cpppo
    d = cpppo.dotdict()
    keys = ['a.b..c', 'b..c', 'ab..c', 'a.b..c.d', 'a.b.c..d', 'a.bc..de', 'a.b.c...d', 'x.y.z..w.v', 'a.b', 'a.b.c', 'ab.cd.ef', '.a.b', 'a.b..c..d']
    for key in keys:
        toks = norm(key)
        want = (toks[0], '.'.join(toks[1:]) or None)
        try:
            got = d._resolve(key)
        except Exception as e:
            got = 'raised %s: %s' % (type(e).__name__, e)
        if got != want:
            return dict(confirmed=True, function='cpppo.dotdict.dotdict_base._resolve', input=dict(key=key), observed=repr(got), required='(first segment, remaining path) == %r' % (want,))
    return dict(confirmed=False)


def resolve_fragments():
    from pyvc.spec import Spec, Loop
    dd = Spec('_resolve[.. is the parent level]', (F, 'dotdict_base._resolve'), params={}, fragment=frag_dotdot_body,
              hints=dict(locals={'mine': 'Str', 'P': 'Str', 'q': 'Str', 'back': 'Str', 'key': 'Str', 'rest': 'None'}),
              requires="len(q) > 0 and '.' not in q and '..' not in P and (len(P) == 0 or P[len(P) - 1:] != '.') and "
                       "mine == (P + '.' if len(P) > 0 else '') + q + '..' + back",
              ensures=[('the segment before `..` and the `..` itself are replaced by the parent path',
                        "_f_mine == P + ('.' if (len(P) > 0 and len(back) > 0) else '') + back")],
              raises={}, modifies=[], replay=replay_resolve,
              note='FRAGMENT (T9): one iteration of the `..` back-tracking loop, for every parent path P (no `..`, not ending in a dot), every single '
                   'segment q and every remainder: P.q..back becomes P.back (q..back becomes back)')
    fs = Spec('_resolve[first segment]', (F, 'dotdict_base._resolve'), params={}, fragment=frag_first_segment,
              hints=dict(locals={'mine': 'Str', 'a': 'Str', 'b': 'Str', 'key': 'Str', 'rest': ('Union', ['None', 'Str'])}),
              requires="rest is None and '[' not in mine and '..' not in mine and len(a) > 0 and '.' not in a and (mine == a + '.' + b or mine == '.' + a + '.' + b)",
              ensures=[('the first non-empty segment, and the remaining path', "result[0] == a and result[1] == b")],
              raises={}, modifies=[], replay=replay_resolve,
              loops={1: Loop(invariant=[('at most one leading dot was skipped',
                                         "(mine == old(mine) and rest is None) or (old(mine)[:1] == '.' and mine == old(mine)[1:] and rest == mine)")],
                             variant='len(mine)'),
                     2: Loop(invariant=[('the bracket-balancing loop is unreachable for keys without brackets', 'False')])},
              note='FRAGMENT (T9): the first-segment split of _resolve after the `..` reduction, for keys without index brackets: a.b and .a.b give (a, b). '
                   'The single leading-dot key `.a` (no further dot) is the recorded known finding (it resolves to (a, a)) and is outside this contract; '
                   'bracketed segments are bounded-only')
    return [dd, fs]


# ------------------------------------------------------------------------------------------------ the forms of a lookup agree (attribute, membership, get)
import z3
from pyvc.vals import IntSeq, SeqV, Unsupported, NONE as NONE_
from pyvc.spec import Spec
HASK = z3.Function('tree_has', IntSeq, z3.BoolSort())          # the tree on entry as an uninterpreted table over whole paths: present?, value id
VALK = z3.Function('tree_val', IntSeq, z3.IntSort())


def item_lookup(eng, recv, args, kw, st, n):
    """ASSUMED model of dotdict_base.__getitem__ (its own resolution is the subject of the _resolve fragments and of the bounded tier): for a path the
    tree holds, the value stored there; otherwise KeyError.  Nothing else about it is used."""
    from pyvc.vals import IntV, ExcV
    key = args[0]
    if not isinstance(key, SeqV):
        raise Unsupported('__getitem__ of %r' % (key,))
    for s, ok in eng.fork(st, HASK(key.t)):
        if ok:
            yield s, IntV(VALK(key.t))
        else:
            yield s, ExcV('KeyError', 'no such path', getattr(n, 'lineno', None))


DHAS = z3.Function('dict_has', IntSeq, z3.BoolSort())          # the top-level built-in dict underneath (a different table: its keys are single segments)
DVAL = z3.Function('dict_val', IntSeq, z3.IntSort())


def plain_dict_lookup(eng, recv, name, args, st, n):
    """dict.__getitem__ / dict.get / dict.__contains__ of the underlying built-in dict (reached through super()): its own, unrelated table"""
    from pyvc.vals import IntV, BoolV, ExcV
    if name not in ('__getitem__', '__contains__', 'get') or not args or not isinstance(args[0], SeqV):
        raise Unsupported('super().%s' % name)
    k = args[0].t
    if name == '__contains__':
        yield st, BoolV(DHAS(k))
        return
    for s, ok in eng.fork(st, DHAS(k)):
        if ok:
            yield s, IntV(DVAL(k))
        elif name == 'get':
            yield s, (args[1] if len(args) > 1 else NONE_)
        else:
            yield s, ExcV('KeyError', 'no such key', getattr(n, 'lineno', None))


def replay_lookup_forms(model, obligation):
    """the forms of a lookup on real trees: every path form x present / absent / interior / indexed"""
    import cpppo
    trees = []
    d = cpppo.dotdict()
    d['a.b'] = 1
    d['c'] = 2
    d['l'] = [cpppo.dotdict(a=1), cpppo.dotdict(b=2)]
    d['m.l'] = [cpppo.dotdict(a=5)]
    for path in ('a', 'a.b', 'c', 'l[0]', 'l[1].b', 'm.l[0].a', 'x', 'a.x', 'c.x', 'm.x', 'l[0].zz', 'a.b.c'):
        def form(f):
            try:
                return ('val', f())
            except KeyError:
                return ('absent',)
            except AttributeError:
                return ('absent',)
            except Exception as e:
                return ('error', type(e).__name__)
        item = form(lambda: d[path])
        attr = form(lambda: getattr(d, path))
        try:
            member = ('val', path in d)
        except Exception as e:
            member = ('error', type(e).__name__)
        got = form(lambda: d.get(path, 'dflt'))
        bad = None
        if attr != item:
            bad = 'getattr(d, %r) gives %r' % (path, attr)
        elif item[0] != 'error' and member != ('val', item[0] == 'val'):
            bad = '%r in d gives %r' % (path, member)
        elif item[0] != 'error' and got != (item if item[0] == 'val' else ('val', 'dflt')):
            bad = 'd.get(%r, dflt) gives %r' % (path, got)
        if bad:
            return dict(confirmed=True, function='cpppo.dotdict (attribute / membership / get forms)', input='tree %r, path %r' % (dict(d), path), observed=bad,
                        required='the same outcome as d[%r]: %r' % (path, item))
    return dict(confirmed=False)


def lookup_form_specs():
    from pyvc.vals import BoolV, IntV
    funcs = dict(has=lambda pe, k: BoolV(HASK(k.t)), val=lambda pe, k: IntV(VALK(k.t)))
    callees = {'__getitem__': item_lookup, 'dotdict_base.__getitem__': item_lookup}
    note = 'whole method; __getitem__ by its assumed model (uninterpreted table over whole paths: value or KeyError)'
    ga = Spec('dotdict_base.__getattr__', (F, 'dotdict_base.__getattr__'), params={'key': 'Str'}, cls_name='dotdict_base', fields={},
              ensures=[('the attribute form returns what the path looks up to', 'result == val(key)')],
              raises={'AttributeError': 'not has(key)'}, refuses=[('a path the tree does not hold', 'not has(key)')], accepts=[('a path the tree holds', 'has(key)')],
              modifies=[], callees=callees, hints=dict(funcs=funcs, super_builtin=plain_dict_lookup), replay=replay_lookup_forms, note=note)
    co = Spec('dotdict_base.__contains__', (F, 'dotdict_base.__contains__'), params={'key': 'Str'}, cls_name='dotdict_base', fields={},
              ensures=[('membership agrees with lookup', 'result == has(key)')], raises={}, modifies=[], callees=callees, returns='Bool', hints=dict(funcs=funcs, super_builtin=plain_dict_lookup), replay=replay_lookup_forms, note=note)
    ge = Spec('dotdict_base.get', (F, 'dotdict_base.get'), params={'key': 'Str', 'default': 'Int'}, cls_name='dotdict_base', fields={},
              ensures=[('get returns the stored value, or the default exactly when the path is absent', 'result == (val(key) if has(key) else default)')],
              raises={}, modifies=[], callees=callees, hints=dict(funcs=funcs, super_builtin=plain_dict_lookup), replay=replay_lookup_forms, note=note)
    return [ga, co, ge]


def item_store(eng, recv, args, kw, st, n):
    """ASSUMED model of dotdict_base.__setitem__ as a callee: it stores args[1] under the path args[0]; recorded in ghost fields of the receiver
    (how many stores, and the last path and value), so that a caller's contract can say what it stored.  Its own resolution of the path is the subject of
    the _resolve fragments and of the bounded tier."""
    from pyvc.vals import IntV
    from pyvc.pure import to_int
    if len(args) != 2 or kw or not isinstance(args[0], SeqV):
        raise Unsupported('__setitem__ with arguments %r %r' % (args, kw))
    line = getattr(n, 'lineno', None)
    for s1, _ in eng.obj_set(st, recv, '_g_nstores', IntV(to_int(st.heap[(recv.id, '_g_nstores')]) + 1), line):
        for s2, _ in eng.obj_set(s1, recv, '_g_skey', args[0], line):
            for s3, _ in eng.obj_set(s2, recv, '_g_sval', args[1], line):
                yield s3, NONE_


def replay_setattr(model, obligation):
    import cpppo
    for path, val in (('a', 1), ('a.b', 2), ('x.y.z', 3), ('l', [1, 2])):
        d, e = cpppo.dotdict(), cpppo.dotdict()
        try:
            setattr(d, path, val)
            got = dict(d.items())
        except Exception as exc:
            got = 'raised %s' % type(exc).__name__
        e[path] = val
        if got != dict(e.items()):
            return dict(confirmed=True, function='cpppo.dotdict.__setattr__', input='setattr(d, %r, %r) on an empty dotdict' % (path, val), observed=repr(got),
                        required='%r, what d[%r] = %r gives' % (dict(e.items()), path, val))
    return dict(confirmed=False)


def store_form_specs():
    sa = Spec('dotdict_base.__setattr__', (F, 'dotdict_base.__setattr__'), params={'key': 'Str', 'value': 'Int'}, cls_name='dotdict_base',
              fields={'_g_nstores': 'Int', '_g_skey': 'Str', '_g_sval': 'Int'},
              ensures=[('the attribute form performs exactly one item store', 'self._g_nstores == old(self._g_nstores) + 1'),
                       ('under the path given, of the value given', 'self._g_skey == key and self._g_sval == value')],
              raises={}, modifies=['self._g_nstores', 'self._g_skey', 'self._g_sval'],
              callees={'__setitem__': item_store, 'dotdict_base.__setitem__': item_store}, replay=replay_setattr,
              note='whole method; __setitem__ by its assumed model (records the store in ghost fields _g_* of the receiver, which exist only in the contract)')
    return [sa]


def _stored(st, recv):
    """(has the contract's caller stored anything yet, last stored path, last stored value) from the ghost fields item_store maintains"""
    from pyvc.pure import to_int
    def fld(k):
        v = st.heap[(recv.id, k)]
        return v[1] if isinstance(v, tuple) else v
    return to_int(fld('_g_nstores')) > to_int(fld('_g_n0')), fld('_g_skey'), fld('_g_sval')


CONV = z3.Function('stored_form', z3.IntSort(), z3.IntSort())     # value id -> id of what the tree holds after storing it (a plain dict becomes a level of the tree: a different object)


def item_lookup_after_store(eng, recv, args, kw, st, n):
    """ASSUMED model of __getitem__ in a method that also stores: the path just stored looks up to the stored form of the value, any other path as on entry"""
    from pyvc.vals import IntV, ExcV
    from pyvc.pure import to_int
    key = args[0]
    if not isinstance(key, SeqV):
        raise Unsupported('__getitem__ of %r' % (key,))
    did, skey, sval = _stored(st, recv)
    for s, same in eng.fork(st, z3.And(did, skey.t == key.t)):
        if same:
            yield s, IntV(CONV(to_int(sval)))          # what the tree holds for a stored value: the value itself, or the level a plain dict was converted to
            continue
        for s2, ok in eng.fork(s, HASK(key.t)):
            yield s2, (IntV(VALK(key.t)) if ok else ExcV('KeyError', 'no such path', getattr(n, 'lineno', None)))


def contains_after_store(eng, recv, args, kw, st, n):
    from pyvc.vals import BoolV
    key = args[0]
    if not isinstance(key, SeqV):
        raise Unsupported('__contains__ of %r' % (key,))
    did, skey, sval = _stored(st, recv)
    yield st, BoolV(z3.Or(z3.And(did, skey.t == key.t), HASK(key.t)))


def replay_setdefault(model, obligation):
    import cpppo
    for path in ('a', 'a.b', 'c', 'm.n.o', 'a.x', 'z', 'e.f', 'n'):
        d = cpppo.dotdict()
        d['a.b'] = 1
        d['c'] = 2
        d['z'] = 0            # falsy and None values are stored values too
        d['e.f'] = None
        d['n'] = ''
        before = dict(d.items())
        had = path in d
        try:
            got = ('val', d.setdefault(path, 99))
        except Exception as exc:
            got = ('raised', type(exc).__name__)
        after = dict(d.items())
        if had and path in before:
            want, want_after = ('val', before[path]), before
        elif had:
            continue                                       # an interior level: returned as a sub-tree
        else:
            want, want_after = ('val', 99), dict(before, **{path: 99})
        if got != want or after != want_after:
            return dict(confirmed=True, function='cpppo.dotdict.setdefault', input='tree %r, setdefault(%r, 99)' % (before, path), observed='%r, tree %r' % (got, after),
                        required='%r, tree %r' % (want, want_after))
    d = cpppo.dotdict()
    lvl = d.setdefault('q.r', {})
    if lvl is not d['q.r']:
        return dict(confirmed=True, function='cpppo.dotdict.setdefault', input="d.setdefault('q.r', {}) on an empty dotdict", observed='an object that is not d[%r] (%s)' % ('q.r', type(lvl).__name__),
                    required="the level the tree now holds at 'q.r' (writes through the result must reach the tree)")
    return dict(confirmed=False)


def setdefault_spec():
    from pyvc.vals import BoolV, IntV
    from pyvc.pure import to_int
    funcs = dict(has=lambda pe, k: BoolV(HASK(k.t)), val=lambda pe, k: IntV(VALK(k.t)), stored_form=lambda pe, v: IntV(CONV(to_int(v))))
    callees = {'__getitem__': item_lookup_after_store, 'dotdict_base.__getitem__': item_lookup_after_store,
               '__contains__': contains_after_store, 'dotdict_base.__contains__': contains_after_store,
               '__setitem__': item_store, 'dotdict_base.__setitem__': item_store}
    return Spec('dotdict_base.setdefault', (F, 'dotdict_base.setdefault'), params={'key': 'Str', 'default': 'Int'}, cls_name='dotdict_base',
                fields={'_g_nstores': 'Int', '_g_n0': 'Int', '_g_skey': 'Str', '_g_sval': 'Int'}, requires='self._g_n0 == self._g_nstores',
                ensures=[('the stored value if the path is held, else what the tree now holds for the default (a plain dict becomes a level of the tree)', 'result == (val(key) if has(key) else stored_form(default))'),
                         ('a path the tree holds is left alone', 'implies(has(key), self._g_nstores == old(self._g_nstores))'),
                         ('an absent path receives the default, once', 'implies(not has(key), self._g_nstores == old(self._g_nstores) + 1 and self._g_skey == key and self._g_sval == default)')],
                raises={}, modifies=['self._g_nstores', 'self._g_skey', 'self._g_sval'], callees=callees, hints=dict(funcs=funcs), replay=replay_setdefault,
                note='whole method; __contains__ / __getitem__ / __setitem__ by assumed models over one table of whole paths (a stored path then looks up to what was stored); ghost fields _g_* exist only in the contract')


def contracts(repo):
    return resolve_fragments() + lookup_form_specs() + store_form_specs() + [setdefault_spec()]
