"""C10 — a length limit bounds what a nested parser may consume.

P: automata.peeking push/peek/__next__ (the `sent` accounting every limit is computed from), and three
   FRAGMENTS of the interpreter: state.run's limit -> ending computation (may only shrink), state.run's
   final `sent <= ending` check (last statement of run: every normal completion passes it),
   state.transition's `limited` decision; dfa repeat cycles: dfa_base.loop, dfa_base.terminal (terminal only after all cycles),
   the repeat -> final prefix of dfa_base.delegate and the head of its cycle loop (one count per pass).
B: every library parser machine x limits {0,1,2,n/2,n-1,n,n+1,2n} x inputs; repeat counts on dfa.
"""
from .util import distinct_keys
import ast
import random
import struct

from pyvc.spec import Custom, Spec
import z3

from pyvc.vals import Unsupported, OpaqueV, IntV, BoolV, SeqV, NONE, USort
from . import source_common as SC
from . import wire

PROPERTY = 'C10'
LEVEL = 'exploration'
LEVEL_TEXT = ('Bounded stand-in (labelled bounded): limits and repeat counts take effect inside the generator-based interpreter '
              '(state.run / dfa_base.delegate), which is not within reach of pyvc as a whole. The check runs every parser machine of the library '
              'with limits {0,1,2,n/2,n-1,n,n+1,2n} (cutting elements in half) and dfa repeat counts on valid and malformed inputs: a machine never '
              'completes having consumed more than its limit, `sent` equals the bytes actually taken, following bytes are left, a repeat runs the '
              'sub-grammar exactly that many times or fails. Discharged deductively for all inputs: peeking push/peek/__next__ accounting and three '
              'fragments of the interpreter (limit -> ending may only shrink and is sent+limit; the final sent <= ending assertion closes every '
              'normal completion of run; `limited` is exactly ending reached).')
LEVEL_NOTE = ('FRAGMENTS (T9): only the named statements of state.run / state.transition / dfa_base.delegate are verified, under a stated pre-state; the generator '
              'protocol between them, the sub-machine loop of dfa_base.delegate and every parser graph are bounded-only. String/callable limits are resolved by the bounded tier.')
TECHNIQUE = 'bounded: all library machines x limits/repeats on the real interpreter; deductive fragment contracts (pyvc, z3) on state.run / state.transition limit logic, dfa_base.loop / terminal / delegate repeat-count fragments, automata.peeking and automata.chaining (the `sent` count the limits are compared with)'
TRUSTED = ['T9 fragment contracts: the rest of state.run / transition is unverified', 'cycle_state_fresh: AST-decided dataflow condition on dfa_base.delegate (sufficient, syntactic)', 'reference encoder contracts/wire.py for the inputs']
ASSUMPTIONS = ['a dfa is not its own sub-state']

F = "automata.py"
SRC_FIELDS = {'_back': 'MutIntList', '_iter': 'Iter', '_sent': 'Int'}


def frag_limit(eng, fdef):
    """the `if limit is not None:` statement inside the try block of state.run"""
    for n in ast.walk(fdef):
        if isinstance(n, ast.If) and ast.unparse(n.test) == 'limit is not None':
            return [n]
    raise Unsupported('stale contract: state.run has no `if limit is not None:` statement')


def frag_final(eng, fdef):
    """the last statement of state.run must be the `ending` check: every normal completion passes it"""
    last = fdef.body[-1]
    if not (isinstance(last, ast.If) and 'ending' in ast.unparse(last.test)):
        raise Unsupported('stale contract: the last statement of state.run is not the `ending` check (line %d)' % last.lineno)
    return [last]


def frag_limited(eng, fdef):
    body = [s for s in fdef.body if not (isinstance(s, ast.Expr) and isinstance(s.value, ast.Constant))]
    first = body[0]
    if not (isinstance(first, ast.Assign) and ast.unparse(first.targets[0]) == 'limited'):
        raise Unsupported('stale contract: state.transition does not start with the `limited` decision')
    return [first]


def source_obj(eng, name, st):
    return eng.fresh_obj('peeking', SRC_FIELDS, name, st)


def fragments():
    loc = {'limit': 'OptInt', 'ending': 'OptInt', 'source': source_obj, 'limit_src': 'OptInt'}
    f1 = Spec('state.run[limit->ending]', (F, 'state.run'), params={}, fragment=frag_limit,
              hints=dict(locals=loc, only_raises=False),
              inline=['sent'],
              defs=dict(SENT='source._sent'),
              ensures=[('no-limit: ending untouched', 'implies(limit is None, _f_ending == ending)'),
                       ('ending is the absolute symbol count sent+limit, and may only shrink',
                        'implies(limit is not None, _f_ending == (SENT + limit if (ending is None or SENT + limit < ending) else ending))'),
                       ('never larger than an incoming ending', 'implies(ending is not None, _f_ending is not None and _f_ending <= ending)')],
              raises={}, modifies=[],
              note='FRAGMENT of state.run: the `if limit is not None:` block for an int limit (string / callable limits only in the bounded tier)')
    f2 = Spec('state.run[final sent <= ending]', (F, 'state.run'), params={}, fragment=frag_final,
              hints=dict(locals={'ending': 'OptInt', 'source': source_obj}),
              ensures=[('a normal completion never exceeds the limit', 'ending is None or source._sent <= ending')],
              raises={'AssertionError': 'ending is not None and source._sent > ending'},
              refuses=[('exceeded', 'ending is not None and source._sent > ending')], modifies=[],
              note='FRAGMENT of state.run: its last statement (checked on the AST to be the last, so every normal completion of run passes it)')
    f3 = Spec('state.transition[limited]', (F, 'state.transition'), params={}, fragment=frag_limited,
              hints=dict(locals={'ending': 'OptInt', 'source': source_obj}),
              ensures=[('limited exactly when the ending symbol count is reached',
                        '_f_limited == (ending is not None and source._sent >= ending)')],
              raises={}, modifies=[],
              note='FRAGMENT of state.transition: the `limited` decision (once limited, the loop looks up only the None input: `inp = None if limited`)')
    return [f1, f2, f3]



# ------------------------------------------------------------------------------------------------ dfa repeat cycles
def cur_obj(eng, name, st):
    return eng.fresh_obj('state', {'terminal': 'Bool'}, name, st)


DFA_FIELDS = {'cycle': 'Int', 'final': 'Int', '_terminal': 'Bool', 'current': cur_obj}


def frag_repeat_prefix(eng, fdef):
    """dfa_base.delegate, from its first statement up to (not including) `stasis = False`: how many cycles will be run"""
    body = [s for s in fdef.body if not (isinstance(s, ast.Expr) and isinstance(s.value, ast.Constant))]
    for i, s in enumerate(body):
        if isinstance(s, ast.Assign) and ast.unparse(s.targets[0]) == 'stasis':
            return body[:i]
    raise Unsupported('stale contract: dfa_base.delegate has no `stasis = False` statement')


def frag_cycle_head(eng, fdef):
    """the first three statements of the body of `while self.loop() and not stasis:` (reset, count the cycle, announce it)"""
    for n in ast.walk(fdef):
        if isinstance(n, ast.While) and ast.unparse(n.test) == 'self.loop() and (not stasis)':
            head = n.body[:3]
            if [type(x).__name__ for x in head] != ['Expr', 'AugAssign', 'Expr'] or ast.unparse(head[1]) != 'self.cycle += 1':
                raise Unsupported('stale contract: the cycle loop of dfa_base.delegate does not start with reset / cycle += 1 / yield')
            others = [x for b in n.body[3:] for x in ast.walk(b) if isinstance(x, (ast.Assign, ast.AugAssign)) and 'self.cycle' in
                      [ast.unparse(t) for t in (x.targets if isinstance(x, ast.Assign) else [x.target])]]
            if others:
                raise Unsupported('stale contract: self.cycle is assigned elsewhere in the cycle loop (line %d)' % others[0].lineno)
            return head[:2]
    raise Unsupported('stale contract: dfa_base.delegate has no `while self.loop() and not stasis:` loop')


def data_get(eng, recv, name, args, kw, st, n):
    """data.get(path, 0): whatever the data artifact holds there - an int (_g_dataval) or something that is not an int (None stands for it)"""
    if isinstance(recv, OpaqueV) and recv.what == 'data' and name == 'get':
        def gen():
            for s, isint in eng.fork(st, z3.Bool('_g_data_is_int')):
                yield s, (IntV(z3.Int('_g_dataval')) if isint else NONE)
        return gen()
    return None


def tag_is(x, cls):
    from pyvc.pure import alts_of
    gs = [g for g, v in alts_of(x) if isinstance(v, cls) and not isinstance(v, BoolV)]
    return BoolV(z3.Or(*gs) if gs else z3.BoolVal(False))


def _sample_dfa(rng):
    return {'self.cycle': rng.randint(-1, 4), 'self.final': rng.randint(-1, 4), 'self._terminal': rng.random() < 0.6, 'self.current.terminal': rng.random() < 0.6}


def _run_dfa(which):
    def run(vals):
        import cpppo
        d = cpppo.dfa('d', initial=cpppo.state('s', terminal=vals['self.current.terminal']), terminal=vals['self._terminal'])
        d.cycle, d.final = vals['self.cycle'], vals['self.final']
        try:
            return ('return', d.loop() if which == 'loop' else d.terminal)
        except Exception as e:
            return ('raise', type(e).__name__)
    return run


def repeat_specs():
    loop = Spec('dfa_base.loop', (F, 'dfa_base.loop'), params={}, fields=DFA_FIELDS, cls_name='dfa_base',
                ensures=[('cycles remain exactly while fewer than `final` were run', 'result == (self.cycle < self.final)')], raises={}, modifies=[], returns='Bool', hints=dict(sample=_sample_dfa, concrete=_run_dfa('loop')),
                note='whole function')
    term = Spec('dfa_base.terminal', (F, 'dfa_base.terminal'), params={}, fields=DFA_FIELDS, cls_name='dfa_base',
                ensures=[('terminal only when all repeat cycles were run', 'implies(result, self.cycle >= self.final)'),
                         ('exactly: marked terminal, sub-machine terminal, no cycle left',
                          'result == (self._terminal and self.current.terminal and self.cycle >= self.final)')],
                raises={}, modifies=[], callees={'dfa_base.loop': loop, 'loop': loop}, hints=dict(sample=_sample_dfa, concrete=_run_dfa('terminal')),
                note='whole property getter')
    pre = Spec('dfa_base.delegate[repeat -> final]', (F, 'dfa_base.delegate'), params={}, fragment=frag_repeat_prefix,
               fields=dict(DFA_FIELDS, repeat=('Union', ['None', 'Int', 'Str'])), cls_name='dfa',
               hints=dict(locals={'path': 'Str', 'data': lambda eng, name, st: (OpaqueV(z3.Const('_g_data', USort), 'data'), st)},
                          value_method=data_get, funcs={'is_int': lambda pe, x: tag_is(x, IntV), 'is_str': lambda pe, x: tag_is(x, SeqV), 'dataval': lambda pe: IntV(z3.Int('_g_dataval')), 'data_is_int': lambda pe: BoolV(z3.Bool('_g_data_is_int'))}),
               callees={'context': Spec('context', (F, 'state.context'), params={'path': 'Opaque', 'extension': 'Opaque'}, returns='Str'),
                        'state.context': Spec('context', (F, 'state.context'), params={'path': 'Opaque', 'extension': 'Opaque'}, returns='Str')},
               ensures=[('no cycle is counted yet', 'self.cycle == 0'),
                        ('default: one cycle', 'implies(self.repeat is None, self.final == 1)'),
                        ('a fixed count is taken as it is', 'implies(is_int(self.repeat), self.final == self.repeat)'),
                        ('a counted repeat takes the integer found in the data', 'implies(is_str(self.repeat), self.final == dataval())')],
               raises={'AssertionError': 'is_str(self.repeat) and not data_is_int()'},
               refuses=[('a non-integer count is refused', 'is_str(self.repeat) and not data_is_int()')],
               modifies=['self.cycle', 'self.final'],
               note='FRAGMENT (T9): the statements of dfa_base.delegate before its cycle loop (data.get is modelled: an int or not an int)')
    head = Spec('dfa_base.delegate[one cycle is counted per loop]', (F, 'dfa_base.delegate'), params={}, fragment=frag_cycle_head,
                fields=dict(DFA_FIELDS, initial=cur_obj), cls_name='dfa_base',
                ensures=[('each pass of the cycle loop counts exactly one cycle', 'self.cycle == old(self.cycle) + 1'),
                         ('the count is not touched', 'self.final == old(self.final)')],
                raises={}, modifies=['self.cycle', 'self.current'], inline=['reset'],
                note='FRAGMENT (T9): head of the cycle loop; checked on the AST: self.cycle is assigned nowhere else in the loop')
    return [loop, term, pre, head]


def cycle_state_fresh(repo):
    """Per-cycle state of dfa_base.delegate, decided on its AST: every local the cycle loop reads is either loop-invariant bookkeeping or (re)assigned at
    the top level of the loop body, from values of this cycle, before its first use - nothing recorded in one repeat cycle is carried into the next
    (the no-progress crumbs `seen`, the `done` flag)."""
    import ast
    mod, cls, fdef = repo.find_function(F, 'dfa_base.delegate')
    loops = [n for n in ast.walk(fdef) if isinstance(n, ast.While) and ast.unparse(n.test) == 'self.loop() and (not stasis)']
    if len(loops) != 1:
        raise Unsupported('stale contract: dfa_base.delegate has no `while self.loop() and not stasis:` loop')
    loop = loops[0]
    out = []
    for name in ('seen', 'done'):
        uses = [(k, st) for k, st in enumerate(loop.body) if any(isinstance(x, ast.Name) and x.id == name for x in ast.walk(st))]
        if not uses:
            raise Unsupported('stale contract: the cycle loop does not use `%s`' % name)
        first = uses[0][1]
        fresh_ = (isinstance(first, ast.Assign) and len(first.targets) == 1 and isinstance(first.targets[0], ast.Name) and first.targets[0].id == name
                  and not any(isinstance(x, ast.Name) and x.id == name for x in ast.walk(first.value)))
        if isinstance(first, ast.Expr) and isinstance(first.value, ast.Call) and ast.unparse(first.value.func) == name + '.clear' and not first.value.args:
            fresh_ = True                      # emptied in place: as fresh as a new one
        v = z3.Int('fresh_per_cycle_' + name)
        out.append(('`%s` is assigned afresh in every cycle before it is used' % name, [v == (1 if fresh_ else 0)], v == 1))
    return out


def replay_optional_records(model, obligation):
    """a repeated record that may be empty: every cycle runs, whether or not it consumed a symbol"""
    import cpppo
    from cpppo.server import enip
    for k in range(0, 6):
        for present in range(0, k + 1):
            ticks = []

            def tick(**kw):
                ticks.append(1)
                return True
            opt = cpppo.state('option', terminal=True)
            opt[b'+'[0]] = cpppo.state_drop('present', alphabet=cpppo.type_bytes_iter, terminal=True)
            opt[None] = cpppo.decide('absent', predicate=tick, state=cpppo.state('none', terminal=True))
            opts = cpppo.dfa('options', initial=opt, repeat=k)
            opts[None] = enip.USINT(context='tail', terminal=True)
            m = cpppo.dfa('msg', context='msg', initial=opts, terminal=True)
            term, sent, rest, exc, data = run_machine(m, b'+' * present + b'T\x99', path=None)
            if not (term and exc is None and present + len(ticks) == k and opts.cycle == k and rest == b'\x99'):
                return dict(confirmed=True, function='cpppo.automata.dfa_base.delegate', input='repeat=%d of an optional marker, %d present' % (k, present),
                            observed='terminal=%r exception=%r: the record ran %d times (cycle=%r), rest %r' % (term, exc, present + len(ticks), opts.cycle, rest),
                            required='exactly %d runs, then the tail' % k)
    return dict(confirmed=False)


def contracts(repo):
    return SC.peeking_specs() + SC.chaining_specs() + fragments() + repeat_specs() + [Custom('cycle_state_fresh', cycle_state_fresh, replay=replay_optional_records, targets=[(F, 'dfa_base.delegate')],
            note='dataflow condition on the AST of dfa_base.delegate: the per-cycle locals are reassigned in every cycle before use')]


# ------------------------------------------------------------------------------------------------ bounded tier
def run_machine(machine, data_bytes, path='p', split=None):
    import cpppo
    if split is None:
        src = cpppo.chainable(data_bytes)
    else:
        src = cpppo.chainable(data_bytes[:split])        # the same input in two blocks, the second one chained before the parser starts
        src.chain(data_bytes[split:])
    data = cpppo.dotdict()
    try:
        with machine:
            for m, s in machine.run(source=src, data=data, path=path):
                pass
            term = machine.terminal
        exc = None
    except Exception as e:
        term, exc = False, type(e).__name__
    sent = src.sent
    rest = bytes(bytearray(b for b in src))
    return term, sent, rest, exc, data


def library():
    from cpppo.server.enip import parser
    I16 = struct.pack('<h', -3)
    return {
        'USINT': (lambda **k: parser.USINT(context='v', **k), [b'\x07']),
        'INT': (lambda **k: parser.INT(context='v', **k), [I16]),
        'UDINT': (lambda **k: parser.UDINT(context='v', **k), [struct.pack('<I', 7)]),
        'LINT': (lambda **k: parser.LINT(context='v', **k), [struct.pack('<q', -9)]),
        'REAL': (lambda **k: parser.REAL(context='v', **k), [struct.pack('<f', 1.5)]),
        'SSTRING': (lambda **k: parser.SSTRING(**k), [b'\x03abc', b'\x00', b'\x04abcd']),
        'STRING': (lambda **k: parser.STRING(**k), [b'\x03\x00abc\x00', b'\x02\x00ab', b'\x00\x00']),
        'EPATH': (lambda **k: parser.EPATH(**k), [wire.epath([('symbolic', 'Tag'), ('element', 5)]), wire.epath([('class', 2), ('instance', 300), ('attribute', 1)]),
                                                  wire.epath([('port', 1, 0)]), wire.epath([])]),
        'EPATH_padded': (lambda **k: parser.EPATH_padded(**k), [wire.epath([('port', 1, 0)], padded=True), wire.epath([('port', 17, '10.0.0.1')], padded=True)]),
        'status': (lambda **k: parser.status(**k), [b'\x00\x00', b'\xff\x01\x05\x21', b'\x01\x02\x01\x00\x02\x00']),
        'typed_data[INT]': (lambda **k: parser.typed_data(tag_type=0xc3, **k), [struct.pack('<hh', 1, 2)]),
        'typed_data[DINT]': (lambda **k: parser.typed_data(tag_type=0xc4, **k), [struct.pack('<ii', 1, 2)]),
        'typed_data[SSTRING]': (lambda **k: parser.typed_data(tag_type=0xda, **k), [b'\x02ab\x01c']),
        'CPF': (lambda **k: parser.CPF(**k), [wire.cpf([(0, b''), (0xb2, wire.read_tag('A', 0, 1))]), wire.cpf([(0xa1, struct.pack('<I', 5)), (0xb1, b'\x01\x00' + wire.read_tag('A', 0, 1))]),
                                              wire.cpf([])]),
        'unconnected_send': (lambda **k: parser.unconnected_send(**k), [wire.unconnected_send(wire.read_tag('A', 0, 1)), wire.unconnected_send(wire.write_tag('A', 0, 0xc3, [1, 2, 3]))]),
        'enip_header': (lambda **k: parser.enip_header(**k), [wire.register()[:24]]),
        'enip_machine': (lambda **k: parser.enip_machine(**k), [wire.register(), wire.send_rr_data(wire.read_tag('A', 0, 1), session=5)]),
        'CIP': (lambda **k: parser.CIP(**k), [struct.pack('<HH', 1, 0)]),
        'identity_object': (lambda **k: parser.identity_object(**k), [struct.pack('<HHHBBHIB', 1, 0x0e, 54, 20, 11, 0x3060, 0x12345678, 4) + b'1756' + b'\xff']),
    }


def bounded(tier, seed):
    import cpppo
    from cpppo.server.enip import parser
    from . import sim
    sim.quiet()
    rng = random.Random(seed)
    ev = 0
    distinct = set()
    violations = []
    samples = []

    def viol(key, obs, req):
        if len(violations) < 8:
            violations.append(dict(key=key, observed=obs[:300], required=req))
    lib = library()
    extra = b'\xee\x01\x00\x02'
    for name, (mk, inputs) in lib.items():
        for inp in inputs:
            n = len(inp)
            # unlimited reference run
            kw = dict(terminal=True)
            if name == 'CIP':
                ref = None
            else:
                ref = run_machine(mk(**kw), inp + extra)
            limits = sorted(set([0, 1, 2, n // 2, max(n - 1, 0), n, n + 1, 2 * n + 1])) if tier == 'quick' else list(range(0, n + 3)) + [2 * n + 1]
            for L in limits:
                ev += 1
                try:
                    m = mk(terminal=True, limit=L)
                except Exception as e:
                    viol('%s limit=%d' % (name, L), 'constructor raised %s' % type(e).__name__, 'machine accepts a limit')
                    continue
                term, sent, rest, exc, data = run_machine(m, inp + extra)
                distinct.add((name, n, L))
                total = n + len(extra)
                if sent + len(rest) != total:
                    viol('%s input=%r limit=%d' % (name, inp, L), 'sent=%d but %d of %d bytes remain' % (sent, len(rest), total),
                         'the consumed count equals the symbols actually taken from the input')
                if term and exc is None and sent > L:
                    viol('%s input=%r limit=%d' % (name, inp, L), 'completed (terminal) having consumed %d symbols' % sent,
                         'never completes successfully beyond the limit: stops at or before symbol %d, or fails' % L)
                if term and exc is None and rest != (inp + extra)[sent:]:
                    viol('%s input=%r limit=%d' % (name, inp, L), 'rest %r' % rest, 'the following bytes are left untouched')
                if L in (n // 2, n) and n >= 2:
                    # the same run with the input cut into two chained blocks at every position: nothing may depend on the block boundary
                    for cut in range(1, n + len(extra)):
                        ev += 1
                        got2 = run_machine(mk(terminal=True, limit=L), inp + extra, split=cut)[:4]
                        distinct.add((name, n, L, 'cut', cut))
                        if got2 != (term, sent, rest, exc):
                            viol('%s input=%r limit=%d in two blocks cut at %d' % (name, inp, L, cut), 'terminal, consumed, rest, exception = %r' % (got2,),
                                 'the outcome of the single-block run %r' % ((term, sent, rest, exc),))
                            break
                if len(samples) < 6 and L == n // 2 and n > 3:
                    samples.append(dict(machine=name, input_len=n, limit=L, terminal=term, sent=sent, exception=exc))
    # a limit taken from a length field parsed earlier (CPF item length, SSTRING length): corrupt lengths
    for ln in range(0, 9):
        ev += 1
        body = wire.read_tag('A', 0, 1)
        raw = struct.pack('<H', 2) + struct.pack('<HH', 0, 0) + struct.pack('<HH', 0xb2, ln) + body
        term, sent, rest, exc, data = run_machine(parser.CPF(terminal=True), raw + extra)
        distinct.add(('cpf-len', ln))
        if term and exc is None and sent > 2 + 4 + 4 + ln:
            viol('CPF item declared length %d' % ln, 'terminal having consumed %d' % sent, 'at most header + declared length %d' % (10 + ln))
    # every recognised CPF item type takes its limit from its own length field: the item never runs into what follows it (a second item, trailing bytes)
    ident = struct.pack('<HHHBBHIB', 1, 0x0e, 54, 20, 11, 0x3060, 0x12345678, 4) + b'1756' + b'\xff'
    sockaddr = struct.pack('>hH4s8s', 2, 44818, bytes([10, 0, 0, 1]), b'\x00' * 8)
    bodies = {0x0001: struct.pack('<HH', 1, 0) + sockaddr + b'10.0.0.1'.ljust(16, b'\x00'),
              0x00a1: struct.pack('<I', 0x11223344),
              0x00b1: b'\x07\x00' + wire.read_tag('A', 0, 1),
              0x00b2: wire.read_tag('A', 0, 1),
              0x0100: struct.pack('<HH', 1, 0x20) + b'Communications\x00',        # the name and one NUL, as this library spells the item
              0x000c: struct.pack('<H', 1) + sockaddr + ident}
    follow = struct.pack('<HH', 0x00a1, 4) + struct.pack('<I', 0x55667788)
    for typ, body in sorted(bodies.items()):
        for count, tail in ((1, extra), (2, follow + extra), (1, b'\x00' * 5), (1, b'A' * 9)):
            ev += 1
            raw = struct.pack('<H', count) + struct.pack('<HH', typ, len(body)) + body + tail
            term, sent, rest, exc, data = run_machine(parser.CPF(terminal=True), raw)
            allowed = 6 + len(body) + (len(follow) if count == 2 else 0)
            distinct.add(('cpf-item', typ, count, tail[:1]))
            if not term or exc is not None:
                viol('CPF item type 0x%04x with its exact length, %d item(s), followed by %r' % (typ, count, tail[:6]), 'terminal=%r exception=%r sent=%d' % (term, exc, sent),
                     'the item is parsed within its declared length')
            elif sent > allowed:
                viol('CPF item type 0x%04x with its exact length, %d item(s), followed by %r' % (typ, count, tail[:6]), 'terminal having consumed %d symbols' % sent,
                     'at most count + item headers + declared lengths = %d symbols, the following bytes left to the enclosing grammar' % allowed)
            elif count == 2 and sent == allowed and data.get('p.CPF.item[1].connection_ID.connection') != 0x55667788:
                viol('CPF item type 0x%04x followed by a second item' % typ, 'second item %r' % (data.get('p.CPF.item[1]'),), 'the second item is parsed as itself')
    # ---- repeat counts
    def optional(repeat, ticks):
        # a record may be empty: an optional marker byte; every cycle runs the record once whether or not it consumed a symbol
        def tick(**kw):
            ticks.append(1)
            return True
        opt = cpppo.state('option', terminal=True)
        opt[b'+'[0]] = cpppo.state_drop('present', alphabet=cpppo.type_bytes_iter, terminal=True)
        opt[None] = cpppo.decide('absent', predicate=tick, state=cpppo.state('none', terminal=True))
        return cpppo.dfa('options', initial=opt, repeat=repeat)
    for k in range(0, 6 if tier == 'quick' else 12):
        for present in range(0, k + 1):
            for mode in ('fixed', 'counted'):
                ev += 1
                ticks = []
                from cpppo.server import enip
                if mode == 'fixed':
                    opts = optional(k, ticks)
                    first = opts
                    raw = b'+' * present + b'T\x99'
                else:
                    first = enip.USINT(context='count')
                    first[None] = opts = optional('.count', ticks)
                    raw = bytes([k]) + b'+' * present + b'T\x99'
                opts[None] = enip.USINT(context='tail', terminal=True)
                m = cpppo.dfa('msg', context='msg', initial=first, terminal=True)
                term, sent, rest, exc, data = run_machine(m, raw, path=None)
                runs = present + len(ticks)
                distinct.add(('optional', k, present, mode))
                if not (term and exc is None and runs == k and opts.cycle == k and rest == b'\x99' and data.get('msg.tail') == b'T'[0]):
                    viol('repeat=%d (%s) of a record that may be empty, %d of them present' % (k, mode, present),
                         'terminal=%r exception=%r, the record ran %d times (cycle=%r), rest=%r tail=%r' % (term, exc, runs, opts.cycle, rest, data.get('msg.tail')),
                         'the sub-grammar runs exactly %d times, then the enclosing grammar takes the tail' % k)
    def records(repeat):
        from cpppo.server import enip
        tag = enip.octets('tag', context='tag', repeat=1)
        tag[b'\x01'[0]] = sep = enip.octets_drop('sep', repeat=1)
        sep[True] = enip.octets('value', context='value', repeat=1, terminal=True)
        return cpppo.dfa('records', context='rec', initial=tag, repeat=repeat, terminal=True)
    good = lambda i: bytes([0x10 * (i + 1), 1, 0x10 * (i + 1) + 1])
    for k in range(0, 5 if tier == 'quick' else 10):
        for bad_at in [None] + list(range(k)):
            stream = b''.join((good(i) if i != bad_at else bytes([0x10 * (i + 1)])) for i in range(k)) + b'\xaa\x01\xab'
            for mode in ('fixed', 'counted'):
                ev += 1
                if mode == 'fixed':
                    m, raw, path = records(k), stream, 'msg'
                else:
                    from cpppo.server import enip
                    cnt = enip.USINT(context='count')
                    cnt[None] = records('..count')
                    m, raw, path = cpppo.dfa('message', context='msg', initial=cnt, terminal=True), bytes([k]) + stream, None
                term, sent, rest, exc, data = run_machine(m, raw, path=path)
                vals = list(data.get('msg.rec.value.input', []))
                distinct.add(('repeat', k, bad_at, mode))
                if term and exc is None and len(vals) != k:
                    viol('repeat=%d (%s) malformed record %r' % (k, mode, bad_at), 'terminal with %d complete records %r' % (len(vals), vals),
                         'the sub-grammar is accepted exactly %d times, or the parse fails' % k)
                if bad_at is None and k == 0:
                    if vals or sent > len(raw) - 3:
                        viol('repeat=0 (%s)' % mode, 'records=%r sent=%d' % (vals, sent), 'a repeat of 0 consumes nothing and accepts no record')
                elif bad_at is None and not (term and len(vals) == k and sent == len(raw) - 3 and exc is None):
                    viol('repeat=%d (%s) well-formed' % (k, mode), 'terminal=%r records=%r sent=%d exc=%r' % (term, vals, sent, exc),
                         '%d records accepted, %d symbols consumed, following bytes left' % (k, len(raw) - 3))
    # enip_machine payload repeat='.length'
    for ln in (0, 1, 5, 300):
        ev += 1
        raw = wire.enip_frame(0x70, b'\x55' * ln, session=9) + b'\x99\x98'
        term, sent, rest, exc, data = run_machine(parser.enip_machine(terminal=True), raw, path='r')
        distinct.add(('frame', ln))
        if not (term and sent == 24 + ln and rest == b'\x99\x98'):
            viol('enip_machine payload length %d' % ln, 'terminal=%r sent=%d rest=%r exc=%r' % (term, sent, rest[:4], exc), 'exactly 24+%d symbols' % ln)
    return dict(evaluations=ev, distinct_nontrivial=len(distinct), distinct_keys=distinct_keys(distinct),
                rule='every parser machine of the library (%d machines, several inputs each) x limit in {0,1,2,n/2,n-1,n,n+1,2n+1} (quick) / every limit 0..n+2 and 2n+1 (thorough) on input + 4 extra bytes: '
                     'terminal => sent <= limit; sent + remaining == total; rest untouched; the same outcome when the input arrives as two chained blocks cut at any position; CPF item lengths 0..8 around the real one; dfa repeat 0..4 (quick) / 0..9 (thorough) fixed and '
                     'from a parsed count with a malformed record at each position; enip_machine payload lengths; distinct = distinct (machine, n, limit) etc.' % len(lib),
                exhaustive=True, samples=samples, violations=violations[:20], seed=seed)
