"""Contracts on server/enip/device.py Attribute (the tag store), shared by C03 / C05 / C07.

Abstract view: vals = self.default (a list for a vector tag; [self.default] for a scalar).
"""
from pyvc.spec import Spec
from pyvc.calls import SliceV, TypeName
from pyvc.vals import ConstV, UnionV, NONE, IntV
import z3

F = "server/enip/device.py"

VEC_FIELDS = {'default': 'MutIntList', 'scalar': ('Const', False), 'error': 'Int', 'parser': 'Opaque',
              'name': 'Opaque', 'mask': 'Int'}
SCA_FIELDS = {'default': 'Int', 'scalar': ('Const', True), 'error': 'Int', 'parser': 'Opaque',
              'name': 'Opaque', 'mask': 'Int'}


def slice_key(eng, name, st):
    """key = slice(start, stop) with start/stop each None or an int"""
    a, st = eng.fresh_of_sort('OptInt', '_g_start', st)
    b, st = eng.fresh_of_sort('OptInt', '_g_stop', st)
    eng.init_vals['_g_start'] = a
    eng.init_vals['_g_stop'] = b
    return ConstV(SliceV(a, b, NONE)), st


SLICE_DEFS_VEC = dict(N="len(old(self.default))", S="slice_start(_g_start, N)", E="slice_stop(_g_stop, N)",
                      valid="S < E and E <= N and (_g_stop is None or _g_stop == E)")
SLICE_DEFS_SCA = dict(N="1", S="slice_start(_g_start, 1)", E="slice_stop(_g_stop, 1)",
                      valid="S < E and E <= 1 and (_g_stop is None or _g_stop == E)")


def unpack_slice(vals):
    k = vals['key']
    return {'_g_start': k.py.start, '_g_stop': k.py.stop}


def specs(config):
    vec = config == 'vector'
    fields = VEC_FIELDS if vec else SCA_FIELDS
    sdefs = SLICE_DEFS_VEC if vec else SLICE_DEFS_SCA
    tag = '[%s]' % config
    N = "len(old(self.default))" if vec else "1"
    out = []
    out.append(Spec('Attribute.__len__' + tag, (F, 'Attribute.__len__'), params={}, fields=fields,
                    ensures=[('length', 'result == ' + N)], modifies=[], returns='Int'))
    vk_slice = Spec('Attribute._validate_key' + tag + '[slice]', (F, 'Attribute._validate_key'),
                    params={'key': slice_key}, fields=fields, defs=sdefs,
                    ensures=[('only-valid-slices-pass', 'valid')],
                    raises={'KeyError': 'not valid'}, refuses=[('invalid-slice', 'not valid')],
                    accepts=[('valid-slice', 'valid')], pure_on_raise=True, modifies=[],
                    inline=['__len__'], returns=('Const', TypeName('slice')), hints=dict(unpack=unpack_slice),
                    note='Python slice.indices clamping modelled exactly for step None')
    out.append(vk_slice)
    vk_int = Spec('Attribute._validate_key' + tag + '[int]', (F, 'Attribute._validate_key'),
                  params={'key': 'Int'}, fields=fields, defs=dict(N=N),
                  ensures=[('only-existing-index', 'key < N')],
                  raises={'KeyError': 'key >= N'}, refuses=[('beyond-end', 'key >= N')], accepts=[('inside', 'key < N')],
                  pure_on_raise=True, modifies=[], inline=['__len__'], returns=('Const', TypeName('int')))
    out.append(vk_int)
    if vec:
        out.append(Spec('Attribute.__getitem__' + tag + '[slice]', (F, 'Attribute.__getitem__'),
                        params={'key': slice_key}, fields=fields, defs=sdefs,
                        ensures=[('returns-exactly-the-addressed-elements', 'result == old(self.default)[S:E]'),
                                 ('valid', 'valid')],
                        raises={'KeyError': 'not valid'}, refuses=[('invalid-slice', 'not valid')],
                        accepts=[('valid-slice', 'valid')], pure_on_raise=True, modifies=[],
                        callees={'_validate_key': vk_slice}, returns='IntList'))
        out.append(Spec('Attribute.__getitem__' + tag + '[int]', (F, 'Attribute.__getitem__'),
                        params={'key': 'Int'}, fields=fields, defs=dict(N=N),
                        requires='key >= 0',
                        ensures=[('returns-the-element', 'result == old(self.default)[key]')],
                        raises={'KeyError': 'key >= N'}, refuses=[('beyond-end', 'key >= N')], accepts=[('inside', 'key < N')],
                        pure_on_raise=True, modifies=[], callees={'_validate_key': vk_int}, returns='Int'))
        out.append(Spec('Attribute.__setitem__' + tag + '[slice]', (F, 'Attribute.__setitem__'),
                        params={'key': slice_key, 'value': 'IntList'}, fields=fields, defs=sdefs,
                        requires='implies(valid, len(value) == E - S)',
                        ensures=[('stores-exactly-the-values-there', 'self.default == old(self.default)[:S] + value + old(self.default)[E:]'),
                                 ('length-unchanged', 'len(self.default) == N'),
                                 ('valid', 'valid')],
                        raises={'KeyError': 'not valid'}, refuses=[('invalid-slice', 'not valid')],
                        accepts=[('valid-slice', 'valid')], pure_on_raise=True, modifies=['self.default'],
                        callees={'_validate_key': vk_slice}, returns='None'))
        out.append(Spec('Attribute.__setitem__' + tag + '[int]', (F, 'Attribute.__setitem__'),
                        params={'key': 'Int', 'value': 'Int'}, fields=fields, defs=dict(N=N),
                        requires='key >= 0',
                        ensures=[('stores-the-value-there', 'self.default == old(self.default)[:key] + [value] + old(self.default)[key+1:]'),
                                 ('length-unchanged', 'len(self.default) == N')],
                        raises={'KeyError': 'key >= N'}, refuses=[('beyond-end', 'key >= N')], accepts=[('inside', 'key < N')],
                        pure_on_raise=True, modifies=['self.default'], callees={'_validate_key': vk_int}, returns='None'))
    else:
        out.append(Spec('Attribute.__getitem__' + tag + '[slice]', (F, 'Attribute.__getitem__'),
                        params={'key': slice_key}, fields=fields, defs=sdefs,
                        ensures=[('returns-the-scalar-as-a-one-element-list', 'result == [old(self.default)]'), ('valid', 'valid')],
                        raises={'KeyError': 'not valid'}, refuses=[('invalid-slice', 'not valid')],
                        accepts=[('valid-slice', 'valid')], pure_on_raise=True, modifies=[],
                        callees={'_validate_key': vk_slice}))
        out.append(Spec('Attribute.__setitem__' + tag + '[slice]', (F, 'Attribute.__setitem__'),
                        params={'key': slice_key, 'value': 'IntList'}, fields=fields, defs=sdefs,
                        requires='implies(valid, len(value) == 1)',
                        ensures=[('stores-the-value', 'self.default == value[0]'), ('valid', 'valid')],
                        raises={'KeyError': 'not valid'}, refuses=[('invalid-slice', 'not valid')],
                        accepts=[('valid-slice', 'valid')], pure_on_raise=True, modifies=['self.default'],
                        callees={'_validate_key': vk_slice}, returns='None'))
    for sp in out:
        method = sp.target[1].split('.')[1]
        sp.replay = replay_attribute(config, method, 'slice' if '[slice]' in sp.name else 'int')
    return out


def replay_attribute(config, method, keykind):
    """replay a counter-model on a real device.Attribute"""
    def replay(model, obligation):
        from cpppo.server.enip import device, parser
        if model is None:
            return dict(confirmed=False)
        raw = model.get('self.default')
        vals = [int(x) for x in raw if not isinstance(x, str)] if isinstance(raw, list) else [0, 0, 0]
        if config == 'scalar':
            att = device.Attribute('t', parser.DINT, default=int(raw) if isinstance(raw, int) else 0)
            view0 = [att.default]
        else:
            att = device.Attribute('t', parser.DINT, default=list(vals))
            view0 = list(vals)
        n = len(view0)
        if keykind == 'slice':
            a = None if model.get('_g_start.is_none', True) else int(model.get('_g_start', 0))
            b = None if model.get('_g_stop.is_none', True) else int(model.get('_g_stop', 0))
            key = slice(a, b)
            S, E, _ = key.indices(n)
            valid = S < E and E <= n and (b is None or b == E)
        else:
            key = int(model.get('key', 0))
            if key < 0:
                return dict(confirmed=False, note='negative index outside the contract domain')
            S, E = key, key + 1
            valid = key < n
        value = model.get('value')
        if keykind == 'slice':
            value = [int(x) for x in (value or []) if not isinstance(x, str)]
            if valid and len(value) != E - S:
                value = (value + [7] * (E - S))[:E - S]
        else:
            value = int(value or 0)
        try:
            if method == '__getitem__':
                out = ('return', att[key])
            elif method == '__setitem__':
                att[key] = value
                out = ('return', None)
            elif method == '_validate_key':
                out = ('return', att._validate_key(key).__name__)
            else:
                out = ('return', len(att))
        except Exception as e:
            out = ('raise', type(e).__name__)
        view1 = [att.default] if config == 'scalar' else list(att.default)
        bad = []
        if not valid and out[0] != 'raise':
            bad.append('an invalid key must be refused with KeyError')
        if valid and out[0] == 'raise':
            bad.append('a valid key must be accepted')
        if out[0] == 'raise' and view1 != view0:
            bad.append('a refused access changed the tag')
        if valid and out[0] == 'return':
            if method == '__getitem__':
                want = view0[S:E] if keykind == 'slice' else view0[key]
                if (list(out[1]) if keykind == 'slice' else out[1]) != want:
                    bad.append('read must return exactly the addressed elements %r' % (want,))
            if method == '__setitem__':
                want = view0[:S] + (list(value) if keykind == 'slice' else [value]) + view0[E:]
                if view1 != want or len(view1) != n:
                    bad.append('write must store exactly the values at the addressed elements: %r' % (want,))
            if method == '__len__' and out[1] != n:
                bad.append('length')
        return dict(confirmed=bool(bad), function='cpppo.server.enip.device.Attribute.' + method,
                    input=dict(values=view0, key=repr(key), value=value), observed='%r; tag now %r' % (out, view1),
                    required='; '.join(bad) or 'contract holds on this input')
    return replay
