"""C19 — merging register ranges never drops a requested register; splitting tiles exactly.

P (unbounded over all lists of ranges, reach and limit values):
  shatter : consecutive pieces exactly tiling [address, address+count), each 1..L long, terminates
  merge   : loop invariants over a ghost coverage set `cov` and the end `hi` of the last emitted piece
B : all lists of <= 4 ranges over a small window x reach/limit values against a set-based oracle;
    the real poller thread over scheduled up/down cycles with one persistently failing register.
"""
import itertools
import random

import z3

from pyvc.spec import Spec, Loop, Lemma, Custom
from pyvc.vals import IntV, BoolV, ListV, TupV, Unsupported
from pyvc.pure import fresh, to_int
from .util import take, distinct_keys

PROPERTY = 'C19'
LEVEL = 'proof'
LEVEL_TEXT = ('Deductive proof over the real remote/plc_modbus.py shatter and merge (ASTs re-read each run): shatter yields '
              'consecutive pieces tiling the range exactly, each 1..limit long, and terminates (variant); merge is proved with '
              'loop invariants over a ghost coverage set: every requested register is covered, emitted pieces are sorted, '
              'pairwise disjoint, within one 10000-register bank, no longer than the applicable limit, and contain only registers '
              'within reach of a requested one - for all lists, reach and limit values. A bounded enumeration against a '
              'set-based oracle stands beside it (not counted).')
LEVEL_NOTE = ('Trusted: sorted() returns an ordered permutation (T2 axiom, both directions by index maps); pyvc encoding; z3/cvc5. '
              'Domain: non-empty ranges (count >= 1) with non-negative addresses, each inside one 10000-register bank; '
              'poller_modbus._poller (thread, device I/O) is not under contract: the real thread is driven for 2..5 poll cycles over an in-process Modbus slave (the real _read, pymodbus PDU encode/decode) that '
              'answers or fails per a schedule (bounded: every merged range attempted in every cycle, online follows the cycle outcome, only requested registers stored, a poll supplies values only inside its own range).')
TECHNIQUE = 'loop invariants + ghost coverage set on the real merge/shatter generators, VCs from the AST, z3/cvc5; bounded oracle enumeration as stand-in'

TRUSTED = ['T2 sorted(xs) is an ordered permutation of xs', 'generator callee view derived mechanically from the ghost-style contract of shatter']
ASSUMPTIONS = ['ranges are non-empty (count >= 1), addresses >= 0, each range inside one 10000-register bank',
               'reach and limit are None or >= 0', 'of poller_modbus._poller only the call sites are under contract (AST-decided: merge -> walk -> _read(address, count) -> _store(address, value, create=False)); its loop, timing and online bookkeeping are bounded histories of the real thread only',
               '_read: only its result statement (the decoded response `values` holds at least `count` entries); _store: only its store loop, the register table as a map over integer addresses']

COIL = "(1 <= A <= 9999 or 10001 <= A <= 19999 or 100001 <= A <= 165536)"
# over the *initial* arguments: inside the loop `limit` and `address` are reassigned locals
L_OF = "(old(limit) if old(limit) else (1968 if %s else 123))" % COIL.replace('A', 'old(address)')


def shatter_spec():
    return Spec(
        'shatter', ("remote/plc_modbus.py", "shatter"),
        params=dict(address='Int', count='Int', limit='OptInt'),
        requires="count >= 0 and (limit is None or limit >= 0)",
        defs=dict(L=L_OF),
        yields=2,
        ghost=dict(nxt=('Int', 'address')),
        on_yield=[('nxt', 'v[0] + v[1]')],
        yield_ensures=[('consecutive: each piece starts where the previous one ended', 'v[0] == nxt'),
                       ('size: 1 <= piece <= limit', '1 <= v[1] <= L'),
                       ('inside: no piece extends beyond the range', 'v[0] + v[1] <= old(address) + old(count)')],
        loops={0: Loop(invariant=[('pos', 'address == nxt and address >= old(address)'),
                                  ('rem', 'count >= 0 and address + count == old(address) + old(count)'),
                                  ('lim', 'limit is not None and limit == L and limit >= 1'),
                                  ('none-yet', '(NOUT == 0) == (address == old(address))')],
                       variant='count')},
        ensures=[('tiled: the pieces end exactly at address+count', 'nxt == address + count'),
                 ('empty: nothing is yielded for an empty range', 'implies(count == 0, NOUT == 0)'),
                 ('nonempty', 'implies(count > 0, NOUT > 0)')],
        hints=dict(defaults=dict(limit=None)),
        replay=_replay_shatter,
        note='whole generator function')


def _sample_shatter(rng):
    return dict(address=rng.choice([0, 1, 9990, 10000, 10001, 40001, 100001, 165530, rng.randint(0, 200000)]),
                count=rng.choice([0, 1, 2, 122, 123, 124, 1968, 1969, rng.randint(0, 5000)]),
                limit=rng.choice([None, None, 0, 1, 2, 7, 125, 2000]))


def _run_shatter(vals):
    from cpppo.remote.plc_modbus import shatter
    try:
        return ('return', take(shatter(vals['address'], vals['count'], vals['limit']), max(vals['count'], 0) + 10))
    except Exception as e:
        return ('raise', type(e).__name__)


def _replay_shatter(model, obligation):
    model = model or {}
    base = dict(address=int(model.get('address', 0)), count=int(model.get('count', 0)),
                limit=None if model.get('limit.is_none', True) else int(model.get('limit', 0)))
    # the counter-model fixes the state at the failing obligation (often a loop head); the inputs
    # around it are tried on the real function
    cands = [base] + [dict(base, count=c) for c in (1, 2, 124, 200, 600, 2000, 4000)]
    cands += [dict(address=a, count=c, limit=l) for a in (0, 1, 40001) for c in (1, 124, 2000) for l in (None, 1, 3)]
    for vals in cands:
        if vals['count'] < 0 or (vals['limit'] or 0) < 0 or vals['count'] > 10 ** 5:
            continue
        out = _run_shatter(vals)
        ok = shatter_oracle(vals['address'], vals['count'], vals['limit'], out[1] if out[0] == 'return' else None)
        if not ok:
            return dict(confirmed=True, function='cpppo.remote.plc_modbus.shatter', input=vals, observed=repr(out)[:400],
                        required='consecutive pieces of 1..limit registers exactly tiling [address, address+count)')
    return dict(confirmed=False, input=base, note='no failing input among the candidates around the counter-model')


def coil(a):
    return 1 <= a <= 9999 or 10001 <= a <= 19999 or 100001 <= a <= 165536


def shatter_oracle(address, count, limit, pieces):
    if pieces is None:
        return False
    L = limit if limit else (1968 if coil(address) else 123)
    pos = address
    for a, c in pieces:
        if a != pos or not (1 <= c <= L):
            return False
        pos += c
    return pos == address + count


# ------------------------------------------------------------------------------------------------ merge
def sorted_model(eng, args, kw, st, n):
    """T2: sorted(xs) is an ordered permutation (index maps in both directions)"""
    xs = args[0]
    if not isinstance(xs, ListV):
        raise Unsupported('sorted() of %r' % (xs,))
    sa = z3.Function('S.a', z3.IntSort(), z3.IntSort())
    sc = z3.Function('S.c', z3.IntSort(), z3.IntSort())
    pi = z3.Function('pi', z3.IntSort(), z3.IntSort())
    sg = z3.Function('sigma', z3.IntSort(), z3.IntSort())
    S = ListV(xs.n, lambda i: TupV([IntV(sa(i)), IntV(sc(i))]), tag='sorted')
    i, j = z3.Ints('si sj')
    s = st.clone()
    xi = xs.get(i)
    s.pc.append(z3.ForAll([i, j], z3.Implies(z3.And(0 <= i, i < j, j < xs.n),
                                             z3.Or(sa(i) < sa(j), z3.And(sa(i) == sa(j), sc(i) <= sc(j))))))
    s.pc.append(z3.ForAll([i], z3.Implies(z3.And(0 <= i, i < xs.n),
                                          z3.And(0 <= pi(i), pi(i) < xs.n, sa(pi(i)) == xi.items[0].t, sc(pi(i)) == xi.items[1].t))))
    xsg = xs.get(sg(i))
    s.pc.append(z3.ForAll([i], z3.Implies(z3.And(0 <= i, i < xs.n),
                                          z3.And(0 <= sg(i), sg(i) < xs.n, xsg.items[0].t == sa(i), xsg.items[1].t == sc(i)))))
    yield s, S


Near = z3.Function('near', z3.IntSort(), z3.BoolSort())


def near_fn(pe, a):
    return BoolV(Near(to_int(a)))


# over the ARGUMENTS as passed (old(...)): the body may reassign its locals `reach` / `limit`
RR = "max(old(reach) or 1, 1)"
MERGE_DEFS = dict(
    RR=RR,
    LP="(old(limit) if old(limit) else (1968 if (v[0] // 10000 in (0, 1, 10, 11, 12, 13, 14, 15, 16)) else 123))",
)

MERGE_REQUIRES = ("(reach is None or reach >= 0) and (limit is None or limit >= 0) and "
                  "forall(0, len(ranges), lambda i: ranges[i][0] >= 0 and ranges[i][1] >= 1 and "
                  "ranges[i][0] // 10000 == (ranges[i][0] + ranges[i][1] - 1) // 10000)")

# `near` is the least predicate containing every register closer than RR to a requested one; the
# obligations are proved for every predicate with this closure property, hence for the least one
NEAR_FACT = ("forall(lambda i, a: implies(0 <= i < len(ranges) and ranges[i][0] - RR < a < ranges[i][0] + ranges[i][1] - 1 + RR, near(a)))")

MAIN_INV = [
    ('len', 'length >= 1 and base >= 0'),
    ('emitted-before-base', 'hi <= base'),
    ('covered', 'forall(lambda i, a: implies(0 <= i < K and S[i][0] <= a < S[i][0] + S[i][1], '
                'a in cov or base <= a < base + length))'),
    ('bank', 'base // 10000 == (base + length - 1) // 10000'),
    ('sorted-rest', 'forall(K, len(S), lambda i: base <= S[i][0])'),
    ('reach-current', 'forall(lambda a: implies(base <= a < base + length, near(a)))'),
    ('reach-emitted', 'forall(lambda a: implies(a in cov, near(a)))'),
    ('emitted-below-hi', 'forall(lambda a: implies(a in cov, a < hi))'),
]

EMIT_INV = [
    ('pos', 'base <= P_nxt(J) <= base + length and hi <= P_nxt(J)'),
    ('cov', 'cov == add_range(entry(cov), base, P_nxt(J) - base)'),
    ('hi', 'implies(J == 0, hi == entry(hi)) and implies(J > 0, hi == P_nxt(J))'),
]


def merge_spec():
    return Spec(
        'merge', ("remote/plc_modbus.py", "merge"),
        params=dict(ranges='PairList', reach='OptInt', limit='OptInt'),
        requires=MERGE_REQUIRES,
        facts=[NEAR_FACT],
        defs=MERGE_DEFS,
        yields=2,
        ghost=dict(cov=('Set', 'empty_set()'), hi=('Int', '0')),
        on_yield=[('cov', 'add_range(cov, v[0], v[1])'), ('hi', 'v[0] + v[1]')],
        yield_ensures=[
            ('sorted-disjoint: every piece starts at or after the end of the previous one', 'v[0] >= hi'),
            ('limit: no piece is longer than the applicable transfer limit', '1 <= v[1] <= LP'),
            ('bank: every piece lies inside one 10000-register bank', 'v[0] // 10000 == (v[0] + v[1] - 1) // 10000'),
            ('reach: every emitted register is within reach of a requested one', 'forall(lambda a: implies(v[0] <= a < v[0] + v[1], near(a)))'),
        ],
        loops={
            0: Loop(index='K', seq='S', invariant=MAIN_INV),
            1: Loop(index='J', seq='P', invariant=EMIT_INV),
            2: Loop(index='J', seq='P', invariant=EMIT_INV),
        },
        ensures=[
            ('coverage: every requested register is in an emitted range',
             'forall(lambda i, a: implies(0 <= i < len(ranges) and ranges[i][0] <= a < ranges[i][0] + ranges[i][1], a in cov))'),
            ('empty-in-empty-out', 'implies(len(ranges) == 0, NOUT == 0)'),
        ],
        callees={'shatter': shatter_spec()},
        hints=dict(sorted=sorted_model, funcs={'near': near_fn}),
        replay=_replay_merge,
        note='whole generator function; `sorted` by T2 axiom; shatter by its contract')


def merge_oracle(ranges, reach, limit, out):
    """set-based oracle of the property statement"""
    req = set()
    for a, c in ranges:
        req |= set(range(a, a + c))
    cov = set()
    prev_end = None
    R = max(reach or 1, 1)
    for a, c in out:
        if c < 1:
            return 'empty piece %r' % ((a, c),)
        if prev_end is not None and a < prev_end:
            return 'pieces not sorted/disjoint at %r' % ((a, c),)
        prev_end = a + c
        if a // 10000 != (a + c - 1) // 10000:
            return 'piece %r crosses a bank' % ((a, c),)
        lim = limit if limit else (1968 if a // 10000 in (0, 1, 10, 11, 12, 13, 14, 15, 16) else 123)
        if c > lim:
            return 'piece %r longer than limit %d' % ((a, c), lim)
        cov |= set(range(a, a + c))
    if not req <= cov:
        return 'requested registers dropped: %r' % sorted(req - cov)[:10]
    for x in cov:
        if not any(abs(x - r) < R for r in req):
            return 'register %d is not within reach %d of a requested one' % (x, R)
    return None


def _run_merge(ranges, reach, limit):
    from cpppo.remote.plc_modbus import merge
    try:
        return ('return', take(merge(ranges, reach=reach, limit=limit), 2000))
    except Exception as e:
        return ('raise', type(e).__name__ + ': ' + str(e))


def _replay_merge(model, obligation):
    """loop-step counter-models do not determine an input list directly: search the bounded
    enumerator for a failing input (the replay source named in DESIGN 5)"""
    if model is not None and obligation.startswith('noexc'):
        pass
    for ranges, reach, limit in enum_inputs('quick', random.Random(0)):
        out = _run_merge(ranges, reach, limit)
        bad = out[1] if out[0] == 'raise' else merge_oracle(ranges, reach, limit, out[1])
        if bad:
            return dict(confirmed=True, function='cpppo.remote.plc_modbus.merge',
                        input=dict(ranges=ranges, reach=reach, limit=limit), observed=repr(out)[:300], required=bad)
    return dict(confirmed=False, note='no failing input in the bounded enumeration')


def frag_read_result(eng, fdef):
    """the statement that hands the decoded response of poller_modbus._read to the poll loop (its last statement)"""
    import ast
    last = fdef.body[-1]
    if not isinstance(last, ast.Return) or 'values' not in ast.unparse(last):
        raise Unsupported('stale contract: poller_modbus._read does not end with `return ... values ...`')
    return [last]


def replay_read_result(model, obligation):
    """the real _read over an in-process slave whose coils are all ON (bits travel packed 8 to a byte, padded with OFF bits)"""
    from cpppo.remote import plc_modbus as pm
    from pymodbus.pdu import bit_message as bm

    class Slave(pm.modbus_client_tcp):
        def connect(self):
            return True

        def execute(self, no_response_expected, request):
            resp = bm.ReadCoilsResponse()
            resp.decode(bm.ReadCoilsResponse(bits=[True] * request.count).encode())
            return resp
    p = pm.poller_modbus.__new__(pm.poller_modbus)
    p.client, p.unit, p.description = Slave(host='localhost', port=1), 1, 'replay'
    for count in (1, 2, 3, 7, 8, 9, 15):
        got = pm.poller_modbus._read(p, 1, count)
        got = [got] if count == 1 else list(got)
        if got != [True] * count:
            return dict(confirmed=True, function='cpppo.remote.plc_modbus.poller_modbus._read', input='_read(1, %d) over a slave whose coils are all ON' % count,
                        observed='%d values: %r' % (len(got), got), required='exactly the %d requested values' % count)
    return dict(confirmed=False)


def read_result_specs():
    note = ('FRAGMENT (T9): the last statement of poller_modbus._read; `values` is the decoded response (at least `count` long, possibly padded). '
            'The request / response exchange before it is device I/O (bounded tier: the real _read over an in-process slave)')
    mk = lambda name, requires, ensures: Spec('poller_modbus._read[%s]' % name, ('remote/plc_modbus.py', 'poller_modbus._read'), params={'count': 'Int'},
                                              fragment=frag_read_result, cls_name='poller_modbus', fields={}, hints=dict(locals={'values': 'IntList'}),
                                              requires=requires, ensures=ensures, raises={}, modifies=[], replay=replay_read_result, note=note)
    return [mk('result, several registers', 'count > 1 and len(values) >= count',
               [('a poll of (address, count) supplies values for exactly its own count registers (decoded bit responses are padded to whole bytes)',
                 'len(result) == count and forall(0, count, lambda k: result[k] == values[k])')]),
            mk('result, one register', 'count == 1 and len(values) >= 1', [('a single register is handed over as its value', 'result == values[0]')])]


# ------------------------------------------------------------------------------------------------ poller._store: which registers a received block may touch
class IMapV(object):
    """the poller's register table: a dict keyed by integer addresses, as a domain array and a value array"""
    def __init__(self, dom, val):
        self.dom, self.val = dom, val

    def __repr__(self):
        return 'IMapV'


IDom, IVal = z3.ArraySort(z3.IntSort(), z3.BoolSort()), z3.ArraySort(z3.IntSort(), z3.IntSort())
DOM0, VAL0 = z3.Const('_g_dom0', IDom), z3.Const('_g_val0', IVal)


def frag_store_loop(eng, fdef):
    import ast
    body = [x for x in fdef.body if not (isinstance(x, ast.Expr) and isinstance(x.value, ast.Constant))]
    norm = [k for k, x in enumerate(body) if isinstance(x, ast.If) and 'hasattr' in ast.unparse(x.test) and '__getitem__' in ast.unparse(x.test)]
    last = body[-1]
    if len(norm) != 1 or not (isinstance(last, ast.If) and ast.unparse(last.test) == 'self.online'):
        raise Unsupported('stale contract: plc._store is not `normalise value; ...; if self.online: store`')
    return body[norm[0] + 1:]          # everything after the scalar -> list normalisation of `value`


def data_field(eng, name, st):
    st, ref = eng.new_list(st, IMapV(DOM0, VAL0))
    return ref, st


def imap_contains(eng, cur, x, st):
    if isinstance(cur, IMapV):
        return z3.Select(cur.dom, to_int(x))
    return None


def imap_set_item(eng, b, cur, i, v, st, line):
    if not isinstance(cur, IMapV):
        return None
    s = st.clone()
    s.heap[(b.id, 'val')] = IMapV(z3.Store(cur.dom, to_int(i), z3.BoolVal(True)), z3.Store(cur.val, to_int(i), to_int(v)))
    return [(s, None)]


def imap_havoc(eng, v, name):
    if isinstance(v, IMapV):
        return IMapV(fresh(name + '.dom', IDom), fresh(name + '.val', IVal))
    return None


def _cur_map(pe):
    from pyvc.vals import RefV
    ref = pe.ns['self._data'] if 'self._data' in pe.ns else None
    return ref


def store_spec():
    from pyvc.vals import RefV

    def mapof(pe, x):
        if isinstance(x, RefV) and hasattr(pe, 'st'):
            x = pe.st.heap[(x.id, 'val')]
        if not isinstance(x, IMapV):
            raise Unsupported('register table expected, got %r' % (x,))
        return x
    funcs = dict(has=lambda pe, m, a: BoolV(z3.Select(mapof(pe, m).dom, to_int(a))), at=lambda pe, m, a: IntV(z3.Select(mapof(pe, m).val, to_int(a))),
                 had=lambda pe, a: BoolV(z3.Select(DOM0, to_int(a))), was=lambda pe, a: IntV(z3.Select(VAL0, to_int(a))))
    HIT = '(self.online and address <= a < address + len(value) and (create or had(a)))'
    POST = ('forall(lambda a: has(self._data, a) == (had(a) or %s))' % HIT,
            'forall(lambda a: implies(has(self._data, a), at(self._data, a) == (value[a - address] if %s else was(a))))' % HIT)
    HITK = '(address <= a < address + offset and (create or had(a)))'
    inv = [('the registers known so far', 'forall(lambda a: has(self._data, a) == (had(a) or %s))' % HITK),
           ('their values so far', 'forall(lambda a: implies(has(self._data, a), at(self._data, a) == (value[a - address] if %s else was(a))))' % HITK)]
    return Spec('plc._store[received block]', ('remote/plc.py', 'poller._store'), params={'address': 'Int', 'create': 'Bool'}, fragment=frag_store_loop,
                fields={'online': 'Bool', '_data': data_field}, cls_name='poller',
                hints=dict(locals={'value': 'IntList'}, funcs=funcs, contains=imap_contains, set_item=imap_set_item, havoc_value=imap_havoc),
                loops={0: Loop(invariant=inv, index='offset', modifies=['self._data'])},
                ensures=[('a received block creates / keeps exactly these registers: with create=False no register the table does not already hold', POST[0]),
                         ('and changes only registers inside [address, address + len(value)), each to its own value of the block', POST[1])],
                raises={}, modifies=['self._data'],
                note='FRAGMENT (T9): plc._store after the scalar -> list normalisation of `value` (the log line is dropped, D1); '
                     'the register table is a map over integer addresses (domain and value arrays)')


def poller_call_sites(repo):
    """Call-site obligations of poller_modbus._poller, decided on its AST: the ranges it walks are the merge of the known registers, every range
    is read as (address, count) of the walk, and what was read is stored at that address with create=False (the precondition under which the _store
    contract confines a block to known registers)."""
    import ast
    mod, cls, fdef = repo.find_function('remote/plc_modbus.py', 'poller_modbus._poller')
    loops = [n for n in ast.walk(fdef) if isinstance(n, ast.For) and ast.unparse(n.target) == '(address, count)']
    if len(loops) < 1:
        raise Unsupported('stale contract: _poller has no `for address, count in ...` walk')
    walk = [l for l in loops if any(isinstance(c, ast.Call) and ast.unparse(c.func) == 'self._read' for c in ast.walk(l))]
    if len(walk) != 1:
        raise Unsupported('stale contract: _poller has %d range walks that read' % len(walk))
    walk = walk[0]
    src = ast.unparse(walk.iter)
    assigns = [n for n in ast.walk(fdef) if isinstance(n, ast.Assign) and ast.unparse(n.targets[0]) == src]
    merged = [a for a in assigns if ast.unparse(a.value).replace(' ', '') == 'set(merge(((a,1)forainself._data),reach=self.reach))']
    reads = [c for c in ast.walk(walk) if isinstance(c, ast.Call) and ast.unparse(c.func) == 'self._read']
    stores = [c for c in ast.walk(fdef) if isinstance(c, ast.Call) and ast.unparse(c.func) == 'self._store']
    rebinds = [n for n in ast.walk(walk) if isinstance(n, (ast.Assign, ast.AugAssign)) and any(
        isinstance(t, ast.Name) and t.id in ('address', 'count') for t in ast.walk(n.targets[0] if isinstance(n, ast.Assign) else n.target))]
    bad_reads = [c for c in reads if [ast.unparse(a) for a in c.args[:2]] != ['address', 'count']]
    read_targets = set(ast.unparse(n.targets[0]) for n in ast.walk(walk) if isinstance(n, ast.Assign) and isinstance(n.value, ast.Call) and ast.unparse(n.value.func) == 'self._read')
    bad_stores = [c for c in stores if not (len(c.args) >= 2 and ast.unparse(c.args[0]) == 'address' and ast.unparse(c.args[1]) in read_targets
                                            and any(k.arg == 'create' and isinstance(k.value, ast.Constant) and k.value.value is False for k in c.keywords))]
    outside = [c for c in stores if not any(c is x for x in ast.walk(walk))]
    out = []
    for name, count, want in (('the walked ranges are set(merge((a, 1) for a in self._data, reach=self.reach)), assigned once', len(merged) if len(assigns) == 1 else 0, 1),
                              ('every read asks for (address, count) of the walk', len(bad_reads), 0), ('at least one read per range', min(len(reads), 1), 1),
                              ('address / count are not rebound inside the walk', len(rebinds), 0),
                              ('every store puts what was read at the address of the walk, with create=False', len(bad_stores), 0),
                              ('nothing is stored outside the walk', len(outside), 0)):
        v = z3.Int('n_%d' % (__import__('zlib').crc32(name.encode()) % 10 ** 8))
        out.append((name, [v == count], v == want))
    return out


def contracts(repo):
    return [shatter_spec(), merge_spec()] + read_result_specs() + [store_spec(), Custom('poller_call_sites', poller_call_sites, targets=[('remote/plc_modbus.py', 'poller_modbus._poller')],
            note='call-site obligations on the AST of poller_modbus._poller: merge -> walk -> _read(address, count) -> _store(address, value, create=False)')]


# ------------------------------------------------------------------------------------------------ bounded tier
def enum_inputs(tier, rng):
    # runs longer than the per-bank default transfer limits (123 registers, 1968 coils / statuses), alone and behind a range of another bank
    for rs in ([(40001, 200)], [(1, 1), (40001, 200)], [(1, 2000)], [(30001, 124), (1, 1968)], [(10001, 130), (40001, 124), (100001, 1969)],
               [(1, 1), (40001, 100), (40101, 100)], [(40001, 123), (40124, 1)]):
        for reach in (None, 1, 5):
            yield rs, reach, None
    win = 7 if tier == 'quick' else 9
    base_addrs = [0, 9996, 40001, 49996, 99996]        # windows inside a bank and across the 10000 / 50000 / 100000 block boundaries
    singles = [(a, c) for a in range(win) for c in range(1, 4) if a + c <= win + 1]
    maxn = 3 if tier == 'quick' else 4
    opts = [None, 0, 1, 2, 3]
    for n in range(0, maxn + 1):
        combos = itertools.product(singles, repeat=n)
        for combo in combos:
            if n >= 3 and tier == 'quick' and rng.random() > 0.08:
                continue
            if n >= 4 and rng.random() > 0.02:
                continue
            for b in base_addrs:
                rs = [(b + a, c) for a, c in combo]
                if any(a // 10000 != (a + c - 1) // 10000 for a, c in rs):
                    continue
                reach = rng.choice(opts)
                limit = rng.choice(opts)
                yield rs, reach, limit
                if n <= 2:
                    for reach in opts:
                        for limit in (None, 1, 2):
                            yield rs, reach, limit



# ------------------------------------------------------------------------------------------------ the poll loop (anchor 3), bounded
def poller_history(addresses, bad, reach, schedule, rate=0.004):
    """Runs the real poller_modbus thread (real __init__, _poller, _store) over an in-process slave (the real _read; requests and responses through pymodbus' own PDU encode/decode; _read is wrapped only to log the ranges and to apply the schedule): cycle c of the
    schedule is 'up' (every range not containing a bad address answers value(a) = a % 1000 + 7) or 'down' (every range raises
    ModbusException).  Returns per-cycle attempted ranges, online flags after each cycle, and the final _data."""
    import threading, logging
    from cpppo.remote import plc_modbus as pm
    logging.getLogger('cpppo.remote').setLevel(100)    # the harness provokes 'Failing'/'offline' warnings on purpose
    from pymodbus.exceptions import ModbusException
    log = []
    snaps = {}

    class P(pm.poller_modbus):
        def _read(self, address, count, **kw):
            c = self.counter
            if c not in snaps:                 # first poll of cycle c: the state left by cycle c-1
                snaps[c] = dict(online=self.online, data=dict(self._data))
            if c >= len(schedule):
                self.done = True
            log.append((c, address, count))
            if c >= len(schedule) or schedule[c] == 'down' or any(a in bad for a in range(address, address + count)):
                raise ModbusException('no response')
            # the real _read over an in-process slave: request and response go through pymodbus' own PDU classes (bits travel packed 8 to a byte)
            got = pm.poller_modbus._read(self, address, count, **kw)
            return got

    from pymodbus.pdu import bit_message as bm, register_message as rm

    class Slave(pm.modbus_client_tcp):
        def connect(self):
            return True

        def execute(self, no_response_expected, request):
            kinds = {bm.ReadCoilsRequest: (bm.ReadCoilsResponse, 1, True), bm.ReadDiscreteInputsRequest: (bm.ReadDiscreteInputsResponse, 10001, True),
                     rm.ReadHoldingRegistersRequest: (rm.ReadHoldingRegistersResponse, 40001, False), rm.ReadInputRegistersRequest: (rm.ReadInputRegistersResponse, 30001, False)}
            rcls, base, bits = kinds[type(request)]
            if bits:
                frame = rcls(bits=[True] * request.count).encode()
            else:
                frame = rcls(registers=[(base + request.address + k) % 1000 + 7 for k in range(request.count)]).encode()
            resp = rcls()
            resp.decode(frame)
            return resp

    client = Slave(host='localhost', port=1)
    p = P('sim', client=client, reach=reach)
    online = {}
    try:
        for a in addresses:
            p.poll(a, rate=rate)
        import time
        t0 = time.time()
        while len(schedule) not in snaps and time.time() - t0 < 30.0:
            time.sleep(0.001)
        done = p.counter
    finally:
        p.done = True
        p.join(timeout=2.0)
    last = snaps.get(len(schedule), dict(online=None, data={}))
    return dict(log=log, cycles=min(done, len(schedule)) if len(schedule) in snaps else min(done, len(schedule) - 1), online=last['online'], data=last['data'])


def poller_oracle(addresses, bad, reach, schedule, h):
    from cpppo.remote.plc_modbus import merge
    want = set(merge(((a, 1) for a in sorted(addresses)), reach=reach))
    badl = []
    if h['cycles'] < len(schedule):
        return ['only %d of %d poll cycles completed within 30 s' % (h['cycles'], len(schedule))]
    for c in range(len(schedule)):
        got = [(a, n) for cc, a, n in h['log'] if cc == c]
        if set(got) != want or len(got) != len(want):
            badl.append('cycle %d (%s) polled %r, the merged ranges are %r' % (c, schedule[c], sorted(got), sorted(want)))
            break
    if set(h['data']) != set(addresses):
        badl.append('stored addresses %r, requested %r' % (sorted(h['data']), sorted(addresses)))
    good = [(a, n) for a, n in want if not any(x in bad for x in range(a, a + n))]
    if schedule[-1] == 'up' and good:
        if not h['online']:
            badl.append('PLC still offline after a cycle in which %d ranges answer' % len(good))
        for a, n in good:
            for x in range(a, a + n):
                val = True if x % 100000 < 30000 else x % 1000 + 7        # coils and discrete inputs of the slave are all ON
                if x in addresses and h['online'] and h['data'].get(x) != val:
                    badl.append('register %d holds %r after an up cycle, the PLC answered %r' % (x, h['data'].get(x), val))
                    break
    # a register whose own range never answered has no value: no other range's poll may supply one
    answered = set(x for a, n in good for x in range(a, a + n)) if 'up' in schedule else set()
    for x in sorted(addresses):
        if x not in answered and h['data'].get(x) is not None:
            badl.append('register %d holds %r although the range it is polled in never answered' % (x, h['data'].get(x)))
            break
    if schedule[-1] == 'down' and h['online']:
        badl.append('PLC online after a cycle in which every poll failed')
    return badl[:3]


def poller_cases(tier):
    sets = [([1, 2, 40001, 40003], 1), ([1, 3, 10001, 40001], 0), ([40001, 40002, 40300], 100), ([5, 105, 10005, 30001, 40001], 10)]
    scheds = [['up', 'up'], ['up', 'down', 'up', 'up'], ['down', 'up'], ['up', 'down', 'down', 'up', 'down']]
    # a sparse request whose merged span exceeds the 123-register transfer limit: the second piece starts on a register nobody asked for
    # bits travel packed 8 to a byte: requested coils / inputs just beyond the end of a polled range (further than reach, so in a range of their own)
    for addrs, reach in (([1, 2, 3, 6], 1), ([10001, 10003, 10009, 10012], 2), ([5, 9, 40001], 0)):
        for bad in ([addrs[-2]], [addrs[-1]], []):
            yield addrs, set(bad), reach, ['up', 'up', 'up']
    sparse = [40001 + 2 * i for i in range(100)]
    yield sparse, set(), 100, ['up', 'up']
    yield sparse, {40001}, 100, ['up', 'down', 'up']
    for addrs, reach in sets[:(2 if tier == 'quick' else 4)]:
        for bad in [None] + list(addrs):
            for sch in scheds[:(2 if tier == 'quick' else 4)]:
                yield addrs, (set() if bad is None else {bad}), reach, sch


def bounded(tier, seed):
    rng = random.Random(seed)
    ev = 0
    distinct = set()
    violations = []
    samples = []
    for ranges, reach, limit in enum_inputs(tier, rng):
        ev += 1
        out = _run_merge(ranges, reach, limit)
        bad = out[1] if out[0] == 'raise' else merge_oracle(ranges, reach, limit, out[1])
        key = (tuple(ranges), reach, limit)
        if len(ranges) >= 2:
            distinct.add(key)
        if len(samples) < 6 and len(ranges) == 3 and ev % 97 == 0:
            samples.append(dict(ranges=ranges, reach=reach, limit=limit, merged=out[1]))
        if bad:
            violations.append(dict(key='merge %r reach=%r limit=%r' % (ranges, reach, limit), observed=repr(out)[:300], required=bad))
            if len(violations) >= 5:
                break
    # shatter
    for address in (0, 1, 9990, 10001, 40001, 100001):
        for count in list(range(0, 8)) + [122, 123, 124, 246, 1968, 1969, 4000]:
            for limit in (None, 0, 1, 2, 3, 125):
                ev += 1
                out = _run_shatter(dict(address=address, count=count, limit=limit))
                distinct.add(('s', address, count, limit))
                if len(violations) >= 8:
                    break
                if not shatter_oracle(address, count, limit, out[1] if out[0] == 'return' else None):
                    violations.append(dict(key='shatter %r' % ((address, count, limit),), observed=repr(out)[:300],
                                           required='exact tiling with pieces of 1..limit'))
    # the poll loop: every merged range is attempted in every cycle, online state follows the cycle outcome, only requested registers are stored
    npoll = 0
    for addrs, bad, reach, sch in poller_cases(tier):
        if len(violations) >= 8:
            break
        ev += 1
        npoll += 1
        try:
            h = poller_history(addrs, bad, reach, sch)
            badl = poller_oracle(addrs, bad, reach, sch, h)
        except Exception as e:
            h, badl = dict(log=[]), ['poller harness raised %s: %s' % (type(e).__name__, e)]
        if badl:
            violations.append(dict(key='poller addresses=%r failing=%r reach=%r cycles=%r' % (addrs, sorted(bad), reach, sch), observed=repr(h.get('log'))[:300], required='; '.join(badl)))
    if not samples:
        samples.append(dict(ranges=[(0, 3), (1, 1)], reach=1, limit=None, merged=_run_merge([(0, 3), (1, 1)], 1, None)[1]))
    return dict(evaluations=ev, distinct_nontrivial=len(distinct), distinct_keys=distinct_keys(distinct),
                rule='merge: lists of 0..%d ranges (address offset 0..6, count 1..3) placed at bank positions 0 / 9996 / 40001 / 49996 / 99996, and seven lists with runs longer than the default limits (mixed banks), '
                     'reach and limit in {None,0,1,2,3}; all lists up to 2 ranges x all reach x limit {None,1,2}, sampled beyond; '
                     'oracle = set semantics of the property; distinct = distinct (ranges, reach, limit) with >= 2 ranges; '
                     'shatter: address x count x limit lattice vs exact tiling; poller: %d histories of the real poller_modbus thread '
                     '(address sets x one failing register x up/down cycle schedules of 2..5 cycles)' % (3 if tier == 'quick' else 4, npoll),
                exhaustive=False, samples=samples, violations=violations[:20])
