"""In-process simulator helpers for the bounded tier and for replays (real code, no sockets)."""
import logging

import cpppo
from cpppo.server.enip import device, logix, parser

TYPES = dict(BOOL=parser.BOOL, SINT=parser.SINT, USINT=parser.USINT, INT=parser.INT, UINT=parser.UINT,
             DINT=parser.DINT, UDINT=parser.UDINT, LINT=parser.LINT, ULINT=parser.ULINT, REAL=parser.REAL,
             LREAL=parser.LREAL, SSTRING=parser.SSTRING, STRING=parser.STRING)


def quiet():
    logging.getLogger().setLevel(logging.CRITICAL)
    for nm in ('enip', 'enip.dev', 'enip.lgx', 'cpppo', 'enip.srv', 'enip.cli'):
        logging.getLogger(nm).setLevel(logging.CRITICAL)
    logging.disable(logging.CRITICAL)


def fresh(tags, max_bytes=None):
    """tags: {name: (TYPE name, length or None for scalar[, '@c/i/a' path dict])} -> the Logix object"""
    quiet()
    device.lookup_reset()
    logix.setup_reset()
    cfg = {}
    for name, spec in tags.items():
        typ, ln = spec[0], spec[1]
        cls = TYPES[typ]
        zero = '' if typ in ('SSTRING', 'STRING') else (0.0 if typ in ('REAL', 'LREAL') else 0)
        if len(spec) > 3:
            zero = spec[3]                    # the initial element value as the configuration gives it (eg. the int 0 for a REAL tag)
        default = zero if ln is None else [zero] * ln
        ent = cpppo.dotdict(attribute=device.Attribute(name, cls, default=default), error=0)
        if len(spec) > 2 and spec[2]:
            ent.path = spec[2]
        cfg[name] = ent
    logix.setup(tags=cfg)
    lx = device.lookup(0x02, 1)
    if max_bytes is not None:
        lx.MAX_BYTES = max_bytes
    return lx


def tag_values(name):
    att = device.lookup(*device.resolve_tag(name))
    return list(att[0:len(att)])


def sympath(name, element=None):
    segs = [cpppo.dotdict({'symbolic': name})]
    if element is not None:
        segs.append(cpppo.dotdict({'element': element}))
    return {'segment': segs}


WIRE_COUNT = 0
WIRE = False        # True: tag services travel as bytes - reference encoder -> the real parser -> request() -> the reply bytes -> the real parser


def _parse_cip(raw):
    data = cpppo.dotdict()
    src = cpppo.chainable(bytes(raw))
    with logix.Logix.parser as machine:
        for m, s in machine.run(source=src, data=data):
            pass
    if src.peek() is not None:
        raise AssertionError('the Logix parser left %d bytes unparsed' % len(bytes(bytearray(b for b in src))))
    return data


def _wire_bytes(kw):
    """the request as the reference encoder spells it, or None when this request has no wire form here (no symbolic path, values out of range)"""
    import struct
    from . import wire
    try:
        segs = kw['path']['segment']
        if not (1 <= len(segs) <= 2 and 'symbolic' in segs[0] and (len(segs) == 1 or list(segs[1].keys()) == ['element'])):
            return None
        name = segs[0]['symbolic']
        elem = segs[1]['element'] if len(segs) == 2 else None
        if elem is not None and not (0 <= elem <= 0xffffffff):
            return None
        svc = kw.get('service')
        if svc == 0x4c and set(kw) == {'service', 'path', 'read_tag'}:
            return wire.read_tag(name, elem, kw['read_tag']['elements'])
        if svc == 0x52 and set(kw) == {'service', 'path', 'read_frag'}:
            return wire.read_frag(name, elem, kw['read_frag']['elements'], kw['read_frag']['offset'])
        if svc == 0x4d and set(kw) == {'service', 'path', 'write_tag'}:
            w = kw['write_tag']
            return wire.write_tag(name, elem, w['type'], list(w['data']), elements=w['elements'])
        if svc == 0x53 and set(kw) == {'service', 'path', 'write_frag'}:
            w = kw['write_frag']
            return wire.write_frag(name, elem, w['type'], w['elements'], w['offset'], list(w['data']))
    except (struct.error, KeyError, TypeError, OverflowError, UnicodeEncodeError):
        return None
    return None


def request(lx, **kw):
    raw = _wire_bytes(kw) if WIRE else None
    d = None
    if raw is not None:
        try:
            d = _parse_cip(raw)
        except Exception:
            d = None            # not a frame the parser takes (eg. a write without data): only expressible as a request record
    if d is not None:
        global WIRE_COUNT
        WIRE_COUNT += 1
        try:
            lx.request(d)
        except Exception as e:
            return cpppo.dotdict(status=-2, raised='%s: %s' % (type(e).__name__, str(e)[:120]))
        try:
            return _parse_cip(d.input)
        except Exception as e:
            # the reply bytes the server produced are not a parsable reply: an observation for the oracle (no status any model expects)
            return cpppo.dotdict(status=-1, unparsable='%s: %s' % (type(e).__name__, str(e)[:120]), raw=bytes(d.input))
    d = cpppo.dotdict()
    for k, v in kw.items():
        d[k] = v
    try:
        lx.request(d)
    except Exception as e:
        # request() let an exception escape (it promises a reply with an error status instead): an observation for the oracle
        d['status'] = -2
        d['raised'] = '%s: %s' % (type(e).__name__, str(e)[:120])
    return d


def read_frag(lx, name, idx, elements, offset):
    return request(lx, service=0x52, path=sympath(name, idx), read_frag={'elements': elements, 'offset': offset})


def read_tag(lx, name, idx, elements):
    return request(lx, service=0x4c, path=sympath(name, idx), read_tag={'elements': elements})


def write_frag(lx, name, idx, elements, offset, typ, values):
    return request(lx, service=0x53, path=sympath(name, idx),
                   write_frag={'elements': elements, 'offset': offset, 'type': typ, 'data': list(values)})


def write_tag(lx, name, idx, elements, typ, values):
    return request(lx, service=0x4d, path=sympath(name, idx),
                   write_tag={'elements': elements, 'type': typ, 'data': list(values)})


def status_of(d):
    ext = None
    if 'status_ext' in d and d.status_ext:
        ext = list(d.status_ext.get('data', [])) if hasattr(d.status_ext, 'get') else None
    return d.status, (ext or None)
