"""In-process simulator helpers for the bounded tier and for replays (real code, no sockets)."""
import logging

import cpppo
from cpppo.server.enip import device, logix, parser

TYPES = dict(BOOL=parser.BOOL, SINT=parser.SINT, USINT=parser.USINT, INT=parser.INT, UINT=parser.UINT,
             DINT=parser.DINT, UDINT=parser.UDINT, LINT=parser.LINT, ULINT=parser.ULINT, REAL=parser.REAL,
             LREAL=parser.LREAL, SSTRING=parser.SSTRING, STRING=parser.STRING)


def quiet():
    logging.getLogger().setLevel(logging.CRITICAL)
    for nm in ('enip', 'enip.dev', 'enip.lgx', 'cpppo', 'enip.srv', 'enip.cli'):
        logging.getLogger(nm).setLevel(logging.CRITICAL)
    logging.disable(logging.CRITICAL)


def fresh(tags, max_bytes=None):
    """tags: {name: (TYPE name, length or None for scalar[, '@c/i/a' path dict])} -> the Logix object"""
    quiet()
    device.lookup_reset()
    logix.setup_reset()
    cfg = {}
    for name, spec in tags.items():
        typ, ln = spec[0], spec[1]
        cls = TYPES[typ]
        zero = '' if typ in ('SSTRING', 'STRING') else (0.0 if typ in ('REAL', 'LREAL') else 0)
        if len(spec) > 3:
            zero = spec[3]                    # the initial element value as the configuration gives it (eg. the int 0 for a REAL tag)
        default = zero if ln is None else [zero] * ln
        ent = cpppo.dotdict(attribute=device.Attribute(name, cls, default=default), error=0)
        if len(spec) > 2 and spec[2]:
            ent.path = spec[2]
        cfg[name] = ent
    logix.setup(tags=cfg)
    lx = device.lookup(0x02, 1)
    if max_bytes is not None:
        lx.MAX_BYTES = max_bytes
    return lx


def tag_values(name):
    att = device.lookup(*device.resolve_tag(name))
    return list(att[0:len(att)])


def sympath(name, element=None):
    segs = [cpppo.dotdict({'symbolic': name})]
    if element is not None:
        segs.append(cpppo.dotdict({'element': element}))
    return {'segment': segs}


def request(lx, **kw):
    d = cpppo.dotdict()
    for k, v in kw.items():
        d[k] = v
    lx.request(d)
    return d


def read_frag(lx, name, idx, elements, offset):
    return request(lx, service=0x52, path=sympath(name, idx), read_frag={'elements': elements, 'offset': offset})


def read_tag(lx, name, idx, elements):
    return request(lx, service=0x4c, path=sympath(name, idx), read_tag={'elements': elements})


def write_frag(lx, name, idx, elements, offset, typ, values):
    return request(lx, service=0x53, path=sympath(name, idx),
                   write_frag={'elements': elements, 'offset': offset, 'type': typ, 'data': list(values)})


def write_tag(lx, name, idx, elements, typ, values):
    return request(lx, service=0x4d, path=sympath(name, idx),
                   write_tag={'elements': elements, 'type': typ, 'data': list(values)})


def status_of(d):
    ext = None
    if 'status_ext' in d and d.status_ext:
        ext = list(d.status_ext.get('data', [])) if hasattr(d.status_ext, 'get') else None
    return d.status, ext
