#!/bin/sh
# Build /verif/.venv offline: python 3.12 with z3-solver + deal/crosshair/icontract/jsonschema/hypothesis
# from the local wheelhouse, plus a .pth that exposes /venv's site-packages (the repository's own
# dependencies and the editable install of cpppo == /repo).  Idempotent.
set -e
cd "$(dirname "$0")"
export PIP_NO_INDEX=1
if [ ! -x .venv/bin/python ] || ! .venv/bin/python -c "import z3, deal, jsonschema" 2>/dev/null; then
    rm -rf .venv
    /venv/bin/python -m venv .venv
    echo "import site; site.addsitedir('/venv/lib/python3.12/site-packages')" \
        > .venv/lib/python3.12/site-packages/_base.pth
    .venv/bin/pip install -q --no-index --find-links /opt/veriftools/wheels \
        z3-solver deal crosshair-tool icontract jsonschema hypothesis
fi
.venv/bin/python -c "import z3, cpppo; print('setup ok: z3', z3.get_version_string(), 'cpppo at', cpppo.__file__)"
mkdir -p evidence replays
