#!/usr/bin/env python3
"""tools/seedtest.py <prop> <seed dir with patch.diff, demo.py> [check args]
1. demo.py must exit 0 on a clean scratch worktree of /repo HEAD and non-zero with the patch applied;
2. runs ./check <prop> against the patched scratch worktree (VERIF_REPO) and prints the verdict lines.
The scratch worktree lives under /tmp and is removed afterwards."""
import os, shutil, subprocess, sys, tempfile
prop, sdir = sys.argv[1:3]
sdir = os.path.abspath(sdir)
extra = sys.argv[3:]
V = os.path.dirname(os.path.dirname(os.path.abspath(__file__)))
d = tempfile.mkdtemp(prefix='pyvc_seed_')
dst = os.path.join(d, 'cpppo')
try:
    subprocess.check_call(['git', '-C', '/repo', 'worktree', 'add', '-q', '--detach', dst, 'HEAD'])
    env = dict(os.environ, PYTHONPATH=d)
    demo = os.path.join(sdir, 'demo.py')
    r0 = subprocess.run(['/venv/bin/python', demo], env=env, capture_output=True, text=True, timeout=600, cwd=d)
    print('demo on clean tree: exit', r0.returncode)
    ap = subprocess.run(['git', '-C', dst, 'apply', os.path.abspath(os.path.join(sdir, 'patch.diff'))], capture_output=True, text=True)
    if ap.returncode:
        print('PATCH-DOES-NOT-APPLY', ap.stderr[:300]); sys.exit(4)
    r1 = subprocess.run(['/venv/bin/python', demo], env=env, capture_output=True, text=True, timeout=600, cwd=d)
    print('demo on patched tree: exit', r1.returncode, (r1.stdout + r1.stderr).strip().splitlines()[-1:] )
    env2 = dict(env, VERIF_REPO=dst, VERIF_EVIDENCE_DIR=os.path.join(d, 'evidence'), VERIF_REPLAY_DIR=os.path.join(d, 'replays'))
    r = subprocess.run([os.path.join(V, 'check'), prop] + extra, env=env2, capture_output=True, text=True, timeout=3000)
    for line in r.stdout.splitlines():
        if line.startswith(('VIOLATION', '  failed', 'UNDECIDED', 'STALE', 'CHECKER', 'KNOWN')) or 'tier=' in line:
            print(line[:260])
    print('check exit', r.returncode)
    if r.returncode == 3:
        print(r.stdout[-1500:], r.stderr[-1500:])
    sys.exit(0 if (r0.returncode == 0 and r1.returncode != 0 and r.returncode == 1) else 1)
finally:
    subprocess.call(['git', '-C', '/repo', 'worktree', 'remove', '--force', dst])
    shutil.rmtree(d, ignore_errors=True)
