#!/usr/bin/env python3
"""tools/seed_confirm.py <prop> <k> : confirm a seeded change myself in a scratch worktree:
demo passes on clean / fails on patched; the pinned suite (89 stable tests) still passes with the patch.
Writes /verif/seeded/<prop>-<k>/{patch.diff,demo.py,meta.json}."""
import json, os, shutil, subprocess, sys, tempfile, xml.etree.ElementTree as ET
prop, k = sys.argv[1:3]
src = '/tmp/seed/%s_out/%s' % (prop, k)
V = os.path.dirname(os.path.dirname(os.path.abspath(__file__)))
d = tempfile.mkdtemp(prefix='seedconf_')
dst = os.path.join(d, 'cpppo')
res = dict(property=prop, seed=k)
try:
    subprocess.check_call(['git', '-C', '/repo', 'worktree', 'add', '-q', '--detach', dst, 'HEAD'])
    env = dict(os.environ, PYTHONPATH=d)
    r0 = subprocess.run(['/venv/bin/python', os.path.join(src, 'demo.py')], env=env, capture_output=True, text=True, timeout=900, cwd=d)
    ap = subprocess.run(['git', '-C', dst, 'apply', os.path.join(src, 'patch.diff')], capture_output=True, text=True)
    res['applies'] = ap.returncode == 0
    r1 = subprocess.run(['/venv/bin/python', os.path.join(src, 'demo.py')], env=env, capture_output=True, text=True, timeout=900, cwd=d)
    res['demo_clean_exit'], res['demo_patched_exit'] = r0.returncode, r1.returncode
    junit = os.path.join(d, 'junit.xml')
    # private network namespace: the suite uses fixed ports
    cmd = ['unshare', '-n', 'sh', '-c', 'ip link set lo up; cd %s && PYTHONPATH=%s /venv/bin/python -m pytest -q -p no:cacheprovider --timeout=900 --continue-on-collection-errors --junitxml=%s' % (dst, d, junit)]
    t = subprocess.run(cmd, capture_output=True, text=True, timeout=3000)
    base = json.load(open('/root/.vp/BASELINE.json'))['stable_pass']
    st = {}
    for tc in ET.parse(junit).iter('testcase'):
        name = tc.get('classname') + '::' + tc.get('name')
        st[name] = 'fail' if [c for c in tc if c.tag in ('failure', 'error', 'skipped')] else 'pass'
    failing = [n for n in base if st.get(n) != 'pass']
    res['stable_passing'] = len(base) - len(failing)
    res['stable_failing'] = failing
finally:
    subprocess.call(['git', '-C', '/repo', 'worktree', 'remove', '--force', dst])
    shutil.rmtree(d, ignore_errors=True)
ok = res.get('applies') and res['demo_clean_exit'] == 0 and res['demo_patched_exit'] != 0 and not res.get('stable_failing')
res['confirmed'] = bool(ok)
out = os.path.join(V, 'seeded', '%s-%s' % (prop, k))
os.makedirs(out, exist_ok=True)
for f in ('patch.diff', 'demo.py'):
    shutil.copy(os.path.join(src, f), os.path.join(out, f))
meta = json.load(open(os.path.join(src, 'meta.json')))
meta['breaks_property'] = prop
meta['confirmed_by_me'] = res
meta['what_i_ran'] = 'tools/seed_confirm.py: demo.py on a clean scratch worktree of /repo HEAD (exit %s) and with patch.diff applied (exit %s); pinned suite with the patch inside `unshare -n`: %s/89 stable tests pass' % (res['demo_clean_exit'], res['demo_patched_exit'], res.get('stable_passing'))
json.dump(meta, open(os.path.join(out, 'meta.json'), 'w'), indent=1)
print(prop, k, 'confirmed' if ok else 'NOT CONFIRMED', res)
