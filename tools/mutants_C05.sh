#!/bin/sh
cd "$(dirname "$0")/.."
run() { echo "== $2 -> $3"; python3 tools/mutant.py C05 "$1" "$2" "$3" 2>&1 | grep -v "^WARNING" | cut -c1-220 | head -5; }
run server/enip/logix.py 'assert endactual <= cnt' 'assert elm <= cnt'
run server/enip/logix.py "data.status_ext	= {'size': 1, 'data': [ 0x2105 ]}" "data.status_ext	= {'size': 1, 'data': [ 0x2104 ]}"
run server/enip/logix.py '                                         INT.tag_type),' '                                         INT.tag_type, UDINT.tag_type),'
run server/enip/logix.py '                data.status	= 0xFF
                data.status_ext= {' '                data.status_ext= {'
run server/enip/logix.py '            assert 0 <= beg < cnt, \' '            assert 0 <= beg <= cnt, \'
run server/enip/device.py 'if stride == 1 and start < stop and stop <= len( self ) and key.stop in (stop,None):' 'if stride == 1 and start < stop and stop <= len( self ):'
