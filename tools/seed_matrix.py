#!/usr/bin/env python3
"""tools/seed_matrix.py [-j N] [seed ids...]
Runs, for every kept seeded change /verif/seeded/<prop>-<k>/patch.diff, the check of its property against a scratch worktree of /repo HEAD
with the patch applied (quick tier first, thorough only when quick does not report it), records what reported it in
seeded/<id>/meta.json (`detected_by`) and rewrites the catch matrix (section 11) of DESIGN.md between its markers.
Nothing is ever applied to /repo itself; each scratch worktree lives under /tmp and is removed as soon as its run ends."""
import json, os, re, shutil, subprocess, sys, tempfile, time
from concurrent.futures import ThreadPoolExecutor
import threading
GIT = threading.Lock()
V = os.path.dirname(os.path.dirname(os.path.abspath(__file__)))
BEGIN, END = '<!-- seed-matrix:begin -->', '<!-- seed-matrix:end -->'


def run_check(prop, sdir, tier):
    d = tempfile.mkdtemp(prefix='pyvc_mx_')
    dst = os.path.join(d, 'cpppo')
    t0 = time.time()
    try:
        with GIT:
            subprocess.check_call(['git', '-C', '/repo', 'worktree', 'add', '-q', '--detach', dst, 'HEAD'])
        ap = subprocess.run(['git', '-C', dst, 'apply', os.path.join(sdir, 'patch.diff')], capture_output=True, text=True)
        if ap.returncode:
            return dict(tier=tier, exit=None, applies=False, lines=[ap.stderr.strip()[:200]])
        env = dict(os.environ, PYTHONPATH=d, VERIF_REPO=dst, VERIF_EVIDENCE_DIR=os.path.join(d, 'evidence'), VERIF_REPLAY_DIR=os.path.join(d, 'replays'))
        try:
            r = subprocess.run([os.path.join(V, 'check'), prop, '--tier', tier], env=env, capture_output=True, text=True, timeout=3600)
            out, code = r.stdout, r.returncode
        except subprocess.TimeoutExpired as e:
            out, code = (e.stdout or b'').decode('utf8', 'replace') if isinstance(e.stdout, bytes) else (e.stdout or ''), 'timeout'
        viol = [l for l in out.splitlines() if l.startswith('VIOLATION')]
        failed = [l.strip()[len('failed: '):] for l in out.splitlines() if l.strip().startswith('failed: ')]
        return dict(tier=tier, exit=code, applies=True, violations=len(viol), obligations=failed[:6],
                    no_input=sum(1 for l in viol if l.rstrip().endswith('no-failing-input-found')), seconds=round(time.time() - t0, 1))
    finally:
        with GIT:
            subprocess.call(['git', '-C', '/repo', 'worktree', 'remove', '--force', dst], stdout=subprocess.DEVNULL, stderr=subprocess.DEVNULL)
        shutil.rmtree(d, ignore_errors=True)


def one(sid):
    sdir = os.path.join(V, 'seeded', sid)
    prop = sid.split('-')[0]
    res = run_check(prop, sdir, 'quick')
    runs = [res]
    if res.get('applies') and res['exit'] != 1:
        runs.append(run_check(prop, sdir, 'thorough'))
    mp = os.path.join(sdir, 'meta.json')
    meta = json.load(open(mp))
    hit = [r for r in runs if r.get('exit') == 1]
    meta['detected_by'] = dict(check=prop, runs=runs, detected=bool(hit), tier=(hit[0]['tier'] if hit else None),
                               repo_head=subprocess.check_output(['git', '-C', '/repo', 'rev-parse', '--short', 'HEAD'], text=True).strip())
    json.dump(meta, open(mp, 'w'), indent=1)
    print(sid, 'detected' if hit else 'MISSED', [(r['tier'], r['exit']) for r in runs], flush=True)
    return sid, meta


def table():
    rows = []
    for sid in sorted(os.listdir(os.path.join(V, 'seeded'))):
        mp = os.path.join(V, 'seeded', sid, 'meta.json')
        if not os.path.exists(mp):
            continue
        m = json.load(open(mp))
        db = m.get('detected_by')
        if not db:
            rows.append('| %s | %s | not run | | |' % (sid, ', '.join(m.get('files', []))))
            continue
        if not db['runs'][0].get('applies', True):
            rows.append('| %s | %s | patch no longer applies (the code it changed was repaired by a fix: commit) | | |' % (sid, ', '.join(m.get('files', []))))
            continue
        hit = [r for r in db['runs'] if r.get('exit') == 1]
        if hit:
            h = hit[0]
            obl = '; '.join('`%s`' % o for o in h.get('obligations', [])[:3])
            kind = 'replayed input' if h.get('no_input', 0) < h.get('violations', 0) else 'no-failing-input-found'
            rows.append('| %s | %s | **caught** (%s, %d VIOLATION lines, %s) | %s | %ss |' % (sid, ', '.join(m.get('files', [])), h['tier'], h['violations'], kind, obl, h['seconds']))
        else:
            rows.append('| %s | %s | **missed** (exits %s) | | |' % (sid, ', '.join(m.get('files', [])), [r.get('exit') for r in db['runs']]))
    head = ['| seed | files changed | verdict of `./check <prop>` on the patched scratch tree | first failed obligations | time |', '|---|---|---|---|---|']
    return '\n'.join(head + rows)


def main():
    args = sys.argv[1:]
    j = 3
    if args[:1] == ['-j']:
        j = int(args[1]); args = args[2:]
    if args != ['--table-only']:
        sids = args or sorted(x for x in os.listdir(os.path.join(V, 'seeded')) if os.path.exists(os.path.join(V, 'seeded', x, 'patch.diff')))
        with ThreadPoolExecutor(j) as ex:
            list(ex.map(one, sids))
    p = os.path.join(V, 'DESIGN.md')
    s = open(p).read()
    if BEGIN in s:
        s = s[:s.index(BEGIN) + len(BEGIN)] + '\n' + table() + '\n' + s[s.index(END):]
        open(p, 'w').write(s)
        print('DESIGN.md section 11 rewritten')
    else:
        print(table())


if __name__ == '__main__':
    main()
