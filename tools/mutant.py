#!/usr/bin/env python3
"""Self-test helper: apply a textual mutation to a scratch copy of /repo (outside /repo and /verif), run a
check against it, remove the copy.   tools/mutant.py Cxx file 'old text' 'new text' [--tier quick] [--only name]
Exit code is the check's exit code (1 expected for a caught mutant)."""
import os, shutil, subprocess, sys, tempfile
prop, rel, old, new = sys.argv[1:5]
extra = sys.argv[5:]
V = os.path.dirname(os.path.dirname(os.path.abspath(__file__)))
d = tempfile.mkdtemp(prefix='pyvc_mut_')
try:
    dst = os.path.join(d, 'cpppo')
    subprocess.check_call(['git', '-C', '/repo', 'worktree', 'add', '-q', '--detach', dst, 'HEAD'])
    # carry over uncommitted changes of the working tree
    diff = subprocess.run(['git', '-C', '/repo', 'diff', 'HEAD'], capture_output=True).stdout
    if diff.strip():
        subprocess.run(['git', '-C', dst, 'apply'], input=diff, check=True)
    p = os.path.join(dst, rel)
    s = open(p).read()
    if s.count(old) != 1:
        print('MUTANT-ERROR: pattern occurs %d times' % s.count(old)); sys.exit(4)
    open(p, 'w').write(s.replace(old, new))
    env = dict(os.environ, VERIF_REPO=dst, PYTHONPATH=d, VERIF_EVIDENCE_DIR=os.path.join(d, 'evidence'), VERIF_REPLAY_DIR=os.path.join(d, 'replays'))
    r = subprocess.run([os.path.join(V, 'check'), prop] + extra, env=env, capture_output=True, text=True, timeout=1500)
    out = r.stdout
    for line in out.splitlines():
        if line.startswith(('VIOLATION', '  failed', 'UNDECIDED', 'STALE', 'CHECKER', 'KNOWN')) or 'tier=' in line:
            print(line[:300])
    if r.returncode == 3:
        print(r.stdout[-1500:], r.stderr[-1500:])
    sys.exit(r.returncode)
finally:
    subprocess.call(['git', '-C', '/repo', 'worktree', 'remove', '--force', os.path.join(d, 'cpppo')])
    shutil.rmtree(d, ignore_errors=True)
