#!/bin/sh
# self-test mutants for C19 (each must be caught: exit 1)
cd "$(dirname "$0")/.."
run() { echo "== $2 -> $3"; python3 tools/mutant.py C19 "$1" "$2" "$3" 2>&1 | grep -v "^WARNING" | cut -c1-200 | head -6; }
run remote/plc_modbus.py 'address // 10000 == base // 10000' 'address // 1000 == base // 1000'
run remote/plc_modbus.py 'taken		= min( count, limit or count )' 'taken		= max( count, limit or count )'
run remote/plc_modbus.py 'limit	= 123' 'limit	= 500'
run remote/plc_modbus.py 'base, length	= address, count' 'base, length	= address, count + 1'
run remote/plc_modbus.py 'address < base + length + ( reach or 1 )' 'address < base + length + ( reach or 1 ) + 1'
