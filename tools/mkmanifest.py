#!/usr/bin/env python3
"""Regenerate MANIFEST.json from the contract modules' metadata (LEVEL, LEVEL_TEXT, LEVEL_NOTE, TECHNIQUE)."""
import ast, json, os, sys
V = os.path.dirname(os.path.dirname(os.path.abspath(__file__)))
NA = {
 'C08': 'time-bound / liveness over all byte strings through the generator-based interpreter, threads and the accept loop: no per-function contract within reach decides it (its no-tag-change clause is carried by C05 pure-on-raise obligations)',
 'C09': 'quantifies over thread interleavings; contract-based deductive verification (and our single-thread encoding, T5) is silent on concurrency',
 'C13': 'fault sequences at byte offsets of live TCP streams; needs fault injection, not contracts',
 'C14': 'a statement about an independent implementation (pylogix) over the network; its reference-encoder clause is decided under C01',
 'C18': 'histories x schedules of loader.load() against a clock and rotating compressed files (250-line generator state machine over file I/O); no contract within reach carries the property',
}
PENDING = 'contracts for this property are not built yet in this tree; see DESIGN.md section 6 for the plan'
def meta(path):
    t = ast.parse(open(path).read())
    out = {}
    for s in t.body:
        if isinstance(s, ast.Assign) and len(s.targets) == 1 and isinstance(s.targets[0], ast.Name):
            try: out[s.targets[0].id] = ast.literal_eval(s.value)
            except Exception: pass
    return out
checks = []; claimed = set()
for i in range(1, 21):
    pid = 'C%02d' % i
    p = os.path.join(V, 'contracts', pid + '.py')
    if not os.path.exists(p): continue
    m = meta(p)
    if m.get('PROPERTY') != pid: continue
    claimed.add(pid)
    checks.append(dict(property_id=pid, quick_cmd='./check %s --tier quick' % pid, thorough_cmd='./check %s --tier thorough' % pid,
        evidence_file='evidence/%s.json' % pid, replay_cmd_template='./check %s --replay {path}' % pid, engine='pyvc',
        level_claimed=dict(category=m.get('LEVEL', 'proof'), text=m.get('LEVEL_TEXT', ''), design_ref=m.get('DESIGN_REF', 'DESIGN.md section 6 ' + pid)),
        level_note=m.get('LEVEL_NOTE', ''), technique=m.get('TECHNIQUE', 'contracts on the real functions; VCs generated from the AST in /repo and discharged by z3/cvc5')))
na = []
for i in range(1, 21):
    pid = 'C%02d' % i
    if pid in claimed: continue
    na.append(dict(property_id=pid, reason=NA.get(pid, PENDING)))
man = dict(version=1, setup_cmd='./setup.sh',
    hooks=dict(guard='CPPPO_VERIF', enable='none needed: contracts are sidecar files under /verif/contracts keyed by (file, qualified name); no hook or instrumentation exists in /repo',
               baseline_off_cmd='cd /repo && /venv/bin/python -m pytest -ra -q -p no:cacheprovider --timeout=900 --continue-on-collection-errors',
               source_commits=[], add_only=True),
    engines=[dict(name='pyvc', path='pyvc/', serves_properties=sorted(claimed),
                  kind_free_text='contract-based deductive verifier written for this task: re-reads the real function ASTs from /repo on every run, symbolic execution to verification conditions against sidecar contracts, discharged by z3 5.1 then cvc5 1.0.3; counter-models replayed on the real code; bounded stand-in tier (labelled bounded) for code behind the DFA interpreter')],
    checks=checks, not_applicable=na,
    notes='Exit codes of ./check: 0 held, 1 VIOLATION, 2 UNDECIDED (never reported as a violation), 3 checker crash. Repairs of genuine defects are the "fix:" commits in /repo listed in known_findings.json.')
json.dump(man, open(os.path.join(V, 'MANIFEST.json'), 'w'), indent=1)
print('claimed', sorted(claimed))
